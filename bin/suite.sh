#!/bin/bash
# Runs the repository's own test suite against scratch builds (pure and compiled) of a source tree.
# usage: bin/suite.sh [srcdir=/repo] [pure|compiled|both]
src="${1:-/repo}"; which="${2:-both}"
base=$(mktemp -d /tmp/asynq-suite-XXXXXX); trap 'rm -rf "$base"' EXIT
rc=0
for k in pure compiled; do
  [ "$which" = both ] || [ "$which" = "$k" ] || continue
  mkdir -p "$base/$k"; rsync -a --exclude .git --exclude '*.so' --exclude '*.c' --exclude __pycache__ --exclude build "$src/" "$base/$k/"
  if [ $k = compiled ]; then (cd "$base/$k" && /venv/bin/python setup.py build_ext --inplace -j16 >/dev/null 2>&1) || { echo "compiled build FAILED"; rc=1; continue; }; fi
  (cd "$base/$k" && PYTHONPATH="$base/$k" /venv/bin/python -m pytest -q -p no:cacheprovider --timeout=900 --continue-on-collection-errors --deselect asynq/tests/test_pyright.py 2>&1 | tail -n 4) 
  [ ${PIPESTATUS[0]} -eq 0 ] || rc=1
  echo "== $k done"
done
exit $rc
