#!/bin/bash
# MANIFEST.setup_cmd: full .vo build of the Coq development (no -vos), plus the forbidden-word scan.
set -e
cd "$(dirname "$0")/.."
if grep -rnE '\b(Admitted|admit|Axiom|Parameter|Conjecture|Unset Guard Checking|bypass_check|Admit Obligations|Unset Universe Checking|Unset Positivity Checking)\b' coq/theories coq/gen_proofs --include='*.v' | grep -v '^\S*:[0-9]*:\s*(\*' ; then
  echo "forbidden construct in the Coq development" >&2; exit 3
fi
bin/mkcoqproject
cd coq
timeout 3600 make -j16 2>&1 | tail -n 40
test ${PIPESTATUS[0]} -eq 0
cd ..
# translation tie (docs/translator.md): unwrap / extract_futures of /repo translated to Gallina and proved equal to the model
/venv/bin/python -m harness.lib.transcheck /repo
echo "setup ok"
