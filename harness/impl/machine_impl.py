"""Implementation runner for the scheduler-machine properties (C01-C08, C20): executes the generated
Python source of a case against the real asynq and records the event trace through public API only
(harness BatchBase/BatchItemBase subclasses, AsyncContext subclasses, on_computed subscriptions,
scheduler.on_before/after_batch_flush, get_active_task(), str(get_scheduler()))."""
import re

import _common
import asynq
from asynq import asynq as asynq_deco, result, scheduler, AsyncContext, NonAsyncContext, AsyncScopedValue
from asynq import _debug
from asynq.batching import BatchBase, BatchItemBase, BatchingError
from asynq.futures import ConstFuture, ErrorFuture, Future, FutureIsAlreadyComputed

EXN_TAG = -999


class VErr(Exception):
    def __init__(self, i):
        Exception.__init__(self, i)
        self.vid = i


def eid(e):
    if isinstance(e, VErr):
        return e.vid
    if isinstance(e, TypeError):
        return -1
    if isinstance(e, AssertionError):
        m = str(e)
        if "wasn't set on batch flush" in m:
            return -2
        if "cannot yield while" in m:
            return -7
        if "can't add an item" in m:
            return -8
        return {"Unexpected": [{"s": "AssertionError"}]}
    if isinstance(e, FutureIsAlreadyComputed):
        return -3
    if isinstance(e, NotImplementedError):
        return -4
    if isinstance(e, BatchingError):
        return -5
    if isinstance(e, RuntimeError):
        return -9
    return {"Unexpected": [{"s": type(e).__name__}]}


def tv(v):
    if v is None:
        return "VNone"
    if isinstance(v, bool):
        return {"VOther": [{"s": repr(v)}]}
    if isinstance(v, int):
        return {"VInt": [v]}
    if type(v) is tuple:
        return {"VTuple": [[tv(x) for x in v]]}
    if type(v) is list:
        return {"VList": [[tv(x) for x in v]]}
    if type(v) is dict:
        return {"VDict": [[{"": [k, tv(x)]} for k, x in v.items()]]}
    if isinstance(v, BaseException):
        return {"VTuple": [[{"VInt": [EXN_TAG]}, {"VInt": [eid(v)]}]]}
    return {"VOther": [{"s": type(v).__name__}]}


def peek(f):
    if not f.is_computed():
        return "NotVisible"
    e = f.error()
    if e is not None:
        return {"Err": [eid(e)]}
    return {"Ok": [tv(f.value())]}


class HBatch(BatchBase):
    def __init__(self, T, kind, index):
        BatchBase.__init__(self)
        self.T = T
        self.kind = kind
        self.index = index

    def _try_switch_active_batch(self):
        if self.T.registry.get(self.kind) is self:
            self.T.registry[self.kind] = HBatch(self.T, self.kind, self.index + 1)

    def get_priority(self):
        p = self.T.kinds.get(str(self.kind), {}).get("prio")
        n = len(self.items)
        if p is None:
            return (0, n)
        if p[0] == "baselen":
            return (p[1], n)
        if p[0] == "baserevlen":
            return (p[1], -n)
        return (p[1], p[2])

    def _flush(self):
        T = self.T
        T.ev.append({"EvFlush": [self.kind, self.index, [list(it.cid) for it in self.items]]})
        ra = T.kinds.get(str(self.kind), {}).get("raise")
        i = 0
        for it in list(self.items):
            if ra is not None and i == ra[0]:
                raise T.err(ra[1])
            a = it.act
            if a == "skip":
                pass
            elif "set" in a:
                it.set_value(T.pyval(a["set"]))
            else:
                it.set_error(T.err(a["err"]))
            i += 1
        if ra is not None and i == ra[0]:
            raise T.err(ra[1])

    def _cancel(self):
        pass


class HItem(BatchItemBase):
    def __init__(self, batch, key, act, cid):
        BatchItemBase.__init__(self, batch)
        self.key = key
        self.act = act
        self.cid = cid


class LoggedCtx(AsyncContext):
    def __init__(self, T, tid, cid, fault):
        self.T = T
        self.tid = tid
        self.cid = cid
        self.fault = fault
        self.nres = 0
        self.npause = 0
        self.by_block = False

    def __enter__(self):
        self.by_block = True
        try:
            return AsyncContext.__enter__(self)
        finally:
            self.by_block = False

    def __exit__(self, ty, value, tb):
        self.by_block = True
        try:
            return AsyncContext.__exit__(self, ty, value, tb)
        finally:
            self.by_block = False

    def resume(self):
        self.T.ev.append({"EvResume": [list(self.tid), self.cid]})
        if not self.by_block:
            self.nres += 1
            f = self.fault
            if f is not None and "resume" in f and f["resume"][0] == self.nres:
                raise self.T.err(f["resume"][1])

    def pause(self):
        self.T.ev.append({"EvPause": [list(self.tid), self.cid]})
        if not self.by_block:
            self.npause += 1
            f = self.fault
            if f is not None and "pause" in f and f["pause"][0] == self.npause:
                raise self.T.err(f["pause"][1])


class HNonAsync(NonAsyncContext):
    pass


class Tr:
    def __init__(self, case):
        self.ev = []
        self.kinds = case.get("params", {}).get("kinds", {})
        self.registry = {}
        self.objs = {}     # id(future) -> (path, future)   (keeps the objects alive)
        self.vars = {}
        self.errs = {}

    # --- values / exceptions
    def pyval(self, v):
        if v is None or isinstance(v, int):
            return v
        if "t" in v:
            return tuple(self.pyval(x) for x in v["t"])
        if "l" in v:
            return [self.pyval(x) for x in v["l"]]
        raise ValueError(v)

    def err(self, i):
        return VErr(i)

    def bad(self):
        return 12345

    # --- creation
    def _alloc(self, _id, _n):
        cid = tuple(_id) + (_n[0],)
        _n[0] += 1
        return cid

    def _reg(self, cid, f):
        self.objs[id(f)] = (cid, f)
        return f

    def new_task(self, fn, _id, _n):
        cid = self._alloc(_id, _n)
        h = fn.asynq(cid)
        h.on_computed.subscribe(lambda f, cid=cid: self.ev.append({"EvDone": [list(cid), peek(f)]}))
        return self._reg(cid, h)

    def new_item(self, kind, key, act, _id, _n):
        cid = self._alloc(_id, _n)
        b = self.registry.get(kind)
        if b is None:
            b = self.registry[kind] = HBatch(self, kind, 0)
        it = HItem(b, key, act, cid)
        it.on_computed.subscribe(lambda f, cid=cid: self.ev.append({"EvItemDone": [list(cid), peek(f)]}))
        return self._reg(cid, it)

    def new_const(self, v, _id, _n):
        return self._reg(self._alloc(_id, _n), ConstFuture(v))

    def new_error(self, e, _id, _n):
        return self._reg(self._alloc(_id, _n), ErrorFuture(self.err(e)))

    def new_lazy(self, o, _id, _n):
        def provider():
            if "ok" in o:
                return self.pyval(o["ok"])
            raise self.err(o["err"])
        return self._reg(self._alloc(_id, _n), Future(provider))

    # --- logging from generated bodies
    def step(self, _id, _k, x):
        self.ev.append({"EvStep": [list(_id), _k[0], {"Ok": [tv(x)]}]})
        _k[0] += 1

    def step_err(self, _id, _k, e):
        self.ev.append({"EvStep": [list(_id), _k[0], {"Err": [eid(e)]}]})
        _k[0] += 1

    def got(self, _id, x):
        self.ev.append({"EvGot": [list(_id), {"Ok": [tv(x)]}]})

    def got_err(self, _id, e):
        self.ev.append({"EvGot": [list(_id), {"Err": [eid(e)]}]})

    def var(self, n):
        if n not in self.vars:
            self.vars[n] = AsyncScopedValue(0)
        return self.vars[n]

    def read(self, _id, n):
        v = self.var(n).get()
        self.ev.append({"EvRead": [list(_id), n, tv(v)]})
        return v

    def _path_of(self, task):
        if task is None:
            return "None"
        ent = self.objs.get(id(task))
        return {"Some": [list(ent[0]) if ent else [-77]]}

    def probe(self, _id):
        self.ev.append({"EvProbe": [list(_id), self._path_of(scheduler.get_active_task())]})

    def ctx(self, c, _id):
        if "async" in c:
            return LoggedCtx(self, _id, c["async"][0], c["async"][1])
        if "nonasync" in c:
            return HNonAsync()
        cid, var, v = c["override"]
        return self.var(var).override(self.pyval(v))

    def sched(self):
        s = str(scheduler.get_scheduler())
        m = re.search(r"\((\d+) tasks, (\d+) batches; active task: (.*)\)$", s, re.S)
        act = scheduler.get_active_task()
        self.ev.append({"EvSched": [int(m.group(1)), int(m.group(2)), self._path_of(act)]})


OPTION_NAMES = ["DUMP_PRE_ERROR_STATE", "DUMP_EXCEPTIONS", "DUMP_SCHEDULE_TASK", "DUMP_CONTINUE_TASK",
                "DUMP_SCHEDULE_BATCH", "DUMP_FLUSH_BATCH", "DUMP_DEPENDENCIES", "DUMP_COMPUTED", "DUMP_NEW_TASKS",
                "DUMP_YIELD_RESULTS", "DUMP_QUEUED_RESULTS", "DUMP_CONTEXTS", "DUMP_SYNC", "DUMP_STACK",
                "DUMP_SCHEDULER_STATE", "DUMP_SYNC_CALLS", "COLLECT_PERF_STATS", "ENABLE_COMPLEX_ASSERTIONS",
                "KEEP_DEPENDENCIES"]


def run_case(c):
    from asynq import profiler
    opts = _debug.options
    saved = {k: getattr(opts, k) for k in OPTION_NAMES + ["MAX_TASK_STACK_SIZE", "SCHEDULER_STATE_DUMP_INTERVAL"]}
    saved_utime = scheduler.utime
    params = c.get("params", {})
    scheduler.reset()
    profiler.reset()
    T = Tr(c)
    sch = scheduler.get_scheduler()
    sch.on_before_batch_flush.subscribe(
        lambda b: T.ev.append({"EvBefore": [b.kind, b.index]}) if isinstance(b, HBatch) else None)
    sch.on_after_batch_flush.subscribe(
        lambda b: T.ev.append({"EvAfter": [b.kind, b.index]}) if isinstance(b, HBatch) else None)
    outs = []
    try:
        opts.MAX_TASK_STACK_SIZE = params.get("maxstack", 1000000)
        opts.KEEP_DEPENDENCIES = bool(params.get("keep"))
        for k, v in params.get("options", {}).items():
            setattr(opts, k, v)
        if params.get("clock") is not None:
            # scripted clock for COLLECT_PERF_STATS: successive utime() calls advance by the listed deltas
            deltas = list(params["clock"])
            state = {"t": 1700000000000000, "i": 0}

            def fake_utime():
                d = deltas[state["i"] % len(deltas)] if deltas else 1
                state["i"] += 1
                state["t"] += d
                return state["t"]
            scheduler.utime = fake_utime
        src = c["py"]
        env = {"asynq": asynq_deco, "T": T, "result": result}
        exec(compile(src, "<generated case>", "exec"), env)
        top_n = [0]
        for i in range(c["nroots"]):
            h = T.new_task(env["root_%d" % i], (), top_n)
            try:
                v = h.value()
                outs.append({"Some": [{"Ok": [tv(v)]}]})
            except Exception as e:
                outs.append({"Some": [{"Err": [eid(e)]}]})
            T.sched()
        final_ev = list(T.ev)      # events after this point are finalisers of abandoned generators (GC), not asynq
    finally:
        for k, v in saved.items():
            setattr(opts, k, v)
        scheduler.utime = saved_utime
        scheduler.reset()
        profiler.reset()
    oracle = [e["EvBefore"] for e in final_ev if "EvBefore" in e]
    return {"out": {"": [outs, final_ev]}, "oracle": oracle}


if __name__ == "__main__":
    _common.main(run_case)
