"""Implementation runner for the scheduler-machine properties (C01-C08, C20): executes the generated
Python source of a case against the real asynq and records the event trace through public API only
(harness BatchBase/BatchItemBase subclasses, AsyncContext subclasses, on_computed subscriptions,
scheduler.on_before/after_batch_flush, get_active_task(), str(get_scheduler()))."""
import re

import _common
import asynq
from asynq import asynq as asynq_deco, result, scheduler, AsyncContext, NonAsyncContext, AsyncScopedValue
from asynq import _debug
from asynq.batching import BatchBase, BatchItemBase, BatchingError
from asynq.futures import ConstFuture, ErrorFuture, Future, FutureIsAlreadyComputed

EXN_TAG = -999


class VErr(Exception):
    def __init__(self, i):
        Exception.__init__(self, i)
        self.vid = i


# params.fault_classes: scripted faults are instances of these classes (chosen by fault id), carrying their id in .vid
FAULT_CLASSES = (TypeError, AssertionError, KeyError, RuntimeError, ValueError)


class VBaseErr(BaseException):
    """a fault that is not an Exception (like KeyboardInterrupt, SystemExit or a timeout signal class)"""
    def __init__(self, i):
        BaseException.__init__(self, i)
        self.vid = i


def eid(e):
    if isinstance(e, (VErr, VBaseErr)):
        return e.vid
    if isinstance(getattr(e, "vid", None), int) and type(e) in FAULT_CLASSES:
        return e.vid        # params.fault_classes: a scripted fault of a builtin exception class
    if isinstance(e, TypeError):
        return -1
    if isinstance(e, AssertionError):
        m = str(e)
        if "wasn't set on batch flush" in m:
            return -2
        if "cannot yield while" in m:
            return -7
        if "can't add an item" in m:
            return -8
        return {"Unexpected": [{"s": "AssertionError"}]}
    if isinstance(e, FutureIsAlreadyComputed):
        return -3
    if isinstance(e, NotImplementedError):
        return -4
    if isinstance(e, BatchingError):
        return -5
    if isinstance(e, RuntimeError) and not isinstance(e, RecursionError):
        return -9
    return {"Unexpected": [{"s": type(e).__name__}]}


def tv(v):
    if v is None:
        return "VNone"
    if isinstance(v, bool):
        return {"VOther": [{"s": repr(v)}]}
    if isinstance(v, int):
        return {"VInt": [v]}
    if type(v) is tuple:
        return {"VTuple": [[tv(x) for x in v]]}
    if type(v) is list:
        return {"VList": [[tv(x) for x in v]]}
    if type(v) is dict:
        return {"VDict": [[{"": [k, tv(x)]} for k, x in v.items()]]}
    if isinstance(v, BaseException):
        return {"VTuple": [[{"VInt": [EXN_TAG]}, {"VInt": [eid(v)]}]]}
    return {"VOther": [{"s": type(v).__name__}]}


def peek(f):
    if not f.is_computed():
        return "NotVisible"
    e = f.error()
    if e is not None:
        return {"Err": [eid(e)]}
    return {"Ok": [tv(f.value())]}


class HBatch(BatchBase):
    def __init__(self, T, kind, index):
        BatchBase.__init__(self)
        self.T = T
        self.kind = kind
        self.index = index

    def _try_switch_active_batch(self):
        if self.T.registry.get(self.kind) is self:
            self.T.registry[self.kind] = HBatch(self.T, self.kind, self.index + 1)
        self._hook_fault("switch_raise", counted=True)

    def _hook_fault(self, name, counted=False):
        """params.kinds[k][name]: a user hook of the batch (not its flush body) that raises - `cancel_raise: id` in
        _cancel(), `switch_raise: [n, id]` in the n-th _try_switch_active_batch() call of a batch, `to_str_raise: id`
        in to_str() (used by dump_perf_stats under COLLECT_PERF_STATS).  Implementation-only scenario class."""
        f = self.T.kinds.get(str(self.kind), {}).get(name)
        if f is None:
            return
        if counted:
            n = self._hook_calls = getattr(self, "_hook_calls", 0) + 1
            if n != f[0]:
                return
            f = f[1]
        self.T.aux({"AuxHookRaise": [self.kind, self.index, name, f]})
        raise self.T.err(f)

    def to_str(self):
        self._hook_fault("to_str_raise")
        return BatchBase.to_str(self)

    def get_priority(self):
        p = self.T.kinds.get(str(self.kind), {}).get("prio")
        n = len(self.items)
        if p is None:
            return (0, n)
        if p[0] == "baselen":
            return (p[1], n)
        if p[0] == "baserevlen":
            return (p[1], -n)
        return (p[1], p[2])

    def _flush(self):
        T = self.T
        T.ev.append({"EvFlush": [self.kind, self.index, [list(it.cid) for it in self.items]]})
        ks = T.kinds.get(str(self.kind), {})
        if ks.get("probe"):
            # what the flush body sees as the active task: nobody's code is running unless the flush happens inside a
            # synchronous call made by a task
            T.aux({"AuxFlushActive": [self.kind, self.index, T._path_of(scheduler.get_active_task())]})
        ov = ks.get("override")
        if ov is not None:
            # a flush body that works under a scoped override of its own (entered and left inside the body)
            with T.var(ov[0]).override(T.pyval(ov[1])):
                return self._flush_body()
        return self._flush_body()

    def _flush_body(self):
        T = self.T
        nested = T.kinds.get(str(self.kind), {}).get("nested")
        if nested is not None and not getattr(self, "_nested_done", False):
            # a flush body that itself makes a synchronous call of an @asynq function which blocks on an item of
            # another batch kind (re-entrant scheduler run during a flush); once per batch
            self._nested_done = True
            T.nested_call(nested)
        ra = T.kinds.get(str(self.kind), {}).get("raise")
        i = 0
        via_cancel = T.kinds.get(str(self.kind), {}).get("via_cancel")
        for it in list(self.items):
            if ra is not None and i == ra[0]:
                if via_cancel:
                    # the body gives up by cancelling its own batch and returns normally: same outcome as raising
                    self.cancel(T.err(ra[1]))
                    return
                raise T.err(ra[1])
            a = it.act
            if a == "skip":
                pass
            elif "set" in a:
                it.set_value(T.pyval(a["set"]))
            else:
                it.set_error(T.err(a["err"]))
            i += 1
        if ra is not None and i == ra[0]:
            if via_cancel:
                self.cancel(T.err(ra[1]))
                return
            raise T.err(ra[1])

    def _cancel(self):
        self._hook_fault("cancel_raise")


class HItem(BatchItemBase):
    def __init__(self, batch, key, act, cid):
        BatchItemBase.__init__(self, batch)
        self.key = key
        self.act = act
        self.cid = cid


class LoggedCtx(AsyncContext):
    def __init__(self, T, tid, cid, fault):
        self.T = T
        self.tid = tid
        self.cid = cid
        self.fault = fault
        self.nres = 0
        self.npause = 0
        self.pause_failed = False
        self.by_block = False
        self.in_exit = False

    def __enter__(self):
        self.by_block = True
        try:
            return AsyncContext.__enter__(self)
        finally:
            self.by_block = False

    def __exit__(self, ty, value, tb):
        self.by_block = True
        self.in_exit = True
        try:
            return AsyncContext.__exit__(self, ty, value, tb)
        finally:
            self.by_block = False
            self.in_exit = False

    def resume(self):
        self.T.ev.append({"EvResume": [list(self.tid), self.cid]})
        if not self.by_block:
            self.nres += 1
            f = self.fault
            if f is not None and "resume" in f and f["resume"][0] == self.nres:
                if f.get("sticky"):
                    self.pause_failed = True   # a context that is broken once it failed: every later pause() raises too
                raise self.T.err(f["resume"][1])

    def pause(self):
        self.T.ev.append({"EvPause": [list(self.tid), self.cid]})
        f = self.fault
        if self.pause_failed and f.get("sticky"):
            # a persistent failure (e.g. "no suspension with uncommitted writes"): once pause() (or, for a sticky resume
            # fault, resume()) has failed, pause() fails on every later call, whoever makes it (scheduler or the with
            # block's __exit__)
            raise self.T.err((f.get("pause") or f.get("resume"))[1])
        if not self.by_block:
            self.npause += 1
            if f is not None and "pause" in f and f["pause"][0] == self.npause:
                self.pause_failed = True
                raise self.T.err(f["pause"][1])
        elif self.in_exit:
            # fault {"exit": e}: the pause() that __exit__ makes when the block is left raises e (a teardown step that
            # fails) - after doing its work, i.e. after the call was logged.  Scheduler-driven pauses are not affected.
            f = self.fault
            if f is not None and "exit" in f:
                raise self.T.err(f["exit"])


class HNonAsync(NonAsyncContext):
    pass


class CtxWrap(object):
    """Delegating context manager: logs the with-block's enter/exit as aux events (impl-side only)."""

    def __init__(self, T, tid, spec, real):
        self.T, self.tid, self.spec, self.real = T, tid, spec, real

    def __enter__(self):
        self.T.aux({"AuxEnter": [list(self.tid), self.spec]})
        return self.real.__enter__()

    def __exit__(self, ty, val, tb):
        try:
            return self.real.__exit__(ty, val, tb)
        finally:
            self.T.aux({"AuxExit": [list(self.tid), self.spec, "None" if ty is None else ty.__name__]})


class _EvList(list):
    """T.ev: model-visible events; every append is mirrored into T.full (model-visible + aux)."""

    def __init__(self, full):
        list.__init__(self)
        self.full = full

    def append(self, e):
        list.append(self, e)
        self.full.append(e)


class Tr:
    Hang = _common.Hang

    def __init__(self, case):
        self.full = []
        self.ev = _EvList(self.full)
        self.kinds = case.get("params", {}).get("kinds", {})
        self.registry = {}
        self.objs = {}     # id(future) -> (path, future)   (keeps the objects alive)
        self.vars = {}
        self.errs = {}
        self.counter = 0
        self.base_errors = bool(case.get("params", {}).get("base_errors"))
        self.vary_bad = bool(case.get("params", {}).get("vary_bad"))
        self.fault_classes = bool(case.get("params", {}).get("fault_classes"))
        self.nbad = 0

    def aux(self, e):
        self.full.append(e)

    # --- values / exceptions
    def pyval(self, v):
        if v is None or isinstance(v, int):
            return v
        if "t" in v:
            return tuple(self.pyval(x) for x in v["t"])
        if "l" in v:
            return [self.pyval(x) for x in v["l"]]
        raise ValueError(v)

    def err(self, i):
        # params.base_errors: every third fault id is a BaseException that is not an Exception
        if self.base_errors and i % 3 == 0:
            return VBaseErr(i)
        return self._classed(i)

    def _classed(self, i):
        if self.fault_classes and i % 6 != 0:
            e = FAULT_CLASSES[i % 6 - 1]("scripted fault %d" % i)
            e.vid = i
            return e
        return VErr(i)

    def lazy_err(self, i):
        return self._classed(i)      # Future._compute stores Exceptions only (futures.py 197-201): lazy providers raise Exceptions

    BADS = (12345, 0, "", False, 0.0, b"", "abc")

    def bad(self):
        # a yielded object that is neither a future nor None nor a container; falsy ones included
        self.nbad += 1
        return self.BADS[(self.nbad - 1) % len(self.BADS)] if self.vary_bad else 12345

    # --- creation
    def _alloc(self, _id, _n):
        # futures are numbered in creation order (one counter per case), as in Machine.alloc
        cid = (self.counter,)
        self.counter += 1
        return cid

    def _reg(self, cid, f, what, creator, extra=None):
        self.objs[id(f)] = (cid, f)
        self.aux({"AuxCreate": [list(cid), what, list(creator), extra]})
        return f

    def new_task(self, fn, _id, _n):
        cid = self._alloc(_id, _n)
        h = fn.asynq(cid)
        h.on_computed.subscribe(lambda f, cid=cid: self.ev.append({"EvDone": [list(cid), peek(f)]}))
        return self._reg(cid, h, "task", _id)

    def new_item(self, kind, key, act, _id, _n):
        cid = self._alloc(_id, _n)
        b = self.registry.get(kind)
        if b is None:
            b = self.registry[kind] = HBatch(self, kind, 0)
        it = HItem(b, key, act, cid)
        it.on_computed.subscribe(lambda f, cid=cid: self.ev.append({"EvItemDone": [list(cid), peek(f)]}))
        return self._reg(cid, it, "item", _id, [kind, b.index, key, act])

    def new_const(self, v, _id, _n):
        return self._reg(self._alloc(_id, _n), ConstFuture(v), "const", _id)

    def new_error(self, e, _id, _n):
        return self._reg(self._alloc(_id, _n), ErrorFuture(self.err(e)), "error", _id)

    def new_lazy(self, o, _id, _n):
        def provider():
            self.aux({"AuxLazyRun": [list(cid)]})
            if "ok" in o:
                return self.pyval(o["ok"])
            raise self.lazy_err(o["err"])
        cid = self._alloc(_id, _n)
        f = Future(provider)
        f.on_computed.subscribe(lambda f, cid=cid: self.aux({"AuxLazyDone": [list(cid)]}))
        return self._reg(cid, f, "lazy", _id)

    # --- the yielded structure, seen through the public API of the futures in it
    def _leaves(self, y, out, shape):
        """written order; returns whether only lists/tuples were used (no dict)"""
        from asynq.futures import FutureBase
        if y is None:
            return
        if isinstance(y, FutureBase):
            ent = self.objs.get(id(y))
            out.append((list(ent[0]) if ent else [-77], y))
        elif type(y) in (tuple, list):
            for x in y:
                self._leaves(x, out, shape)
        elif type(y) is dict:
            n0 = len(out)
            for x in y.values():
                self._leaves(x, out, shape)
            if len(out) - n0 >= 2:
                shape["dict"] = True       # the start order among the members of one dict is not claimed
        else:
            out.append(("bad", None))

    def _expected(self, y):
        """what a sequential evaluation delivers for y: same shape, each future replaced by its value; the first
        failing leaf in structure order wins.  Returns ("ok", value) / ("err", exception object or TypeError marker)."""
        from asynq.futures import FutureBase
        if y is None:
            return ("ok", None)
        if isinstance(y, FutureBase):
            if not y.is_computed():
                return ("uncomputed", None)
            e = y.error()
            if e is not None:
                return ("err", e)
            return ("ok", y.value())
        if type(y) in (tuple, list):
            vals = []
            for x in y:
                r = self._expected(x)
                if r[0] != "ok":
                    return r
                vals.append(r[1])
            return ("ok", tuple(vals) if type(y) is tuple else vals)
        if type(y) is dict:
            d = {}
            for k, x in y.items():
                r = self._expected(x)
                if r[0] != "ok":
                    return r
                d[k] = r[1]
            return ("ok", d)
        return ("err", TypeError)

    def pre_yield(self, _id, _k, y):
        lv, shape = [], {}
        self._leaves(y, lv, shape)
        self.aux({"AuxYield": [list(_id), _k[0], [l[0] for l in lv], not shape.get("dict", False)]})
        return self._freeze(y)

    def _freeze(self, y):
        """a copy of the containers of a yielded structure (the futures themselves are shared)"""
        if type(y) is tuple:
            return tuple(self._freeze(x) for x in y)
        if type(y) is list:
            return [self._freeze(x) for x in y]
        if type(y) is dict:
            return {k: self._freeze(x) for k, x in y.items()}
        return y

    def _post(self, _id, k, y, got_val, got_exc):
        if y is None and k == 0:
            return
        lv, shape = [], {}
        self._leaves(y, lv, shape)
        unc = [l[0] for l in lv if l[1] is not None and not l[1].is_computed()]
        exp = self._expected(y)
        if exp[0] == "ok":
            okay = got_exc is None and tv(got_val) == tv(exp[1]) and type(got_val) is type(exp[1])
            expt = {"Ok": [tv(exp[1])]}
        elif exp[0] == "err":
            if exp[1] is TypeError:
                okay = isinstance(got_exc, TypeError)
                expt = {"Err": [-1]}
            else:
                okay = got_exc is exp[1]           # the very same exception instance
                expt = {"Err": [eid(exp[1])]}
        else:
            okay, expt = False, "Uncomputed"
        gott = {"Ok": [tv(got_val)]} if got_exc is None else {"Err": [eid(got_exc)]}
        self.aux({"AuxResume": [list(_id), k, unc, expt, gott, "true" if okay else "false"]})

    # --- logging from generated bodies
    def step(self, _id, _k, x, y):
        self._post(_id, _k[0], y, x, None)
        self.ev.append({"EvStep": [list(_id), _k[0], {"Ok": [tv(x)]}]})
        _k[0] += 1

    def step_err(self, _id, _k, e, y):
        self._post(_id, _k[0], y, None, e)
        self.ev.append({"EvStep": [list(_id), _k[0], {"Err": [eid(e)]}]})
        _k[0] += 1

    def nested_call(self, spec):
        kind2, key, act = spec
        T = self

        @asynq_deco()
        def hook(_id):
            v = yield T.new_item(kind2, key, act, _id, None)
            return v
        cid = self._alloc((), None)
        self.aux({"AuxNested": [list(cid), kind2]})
        try:
            hook(cid)
        except Exception as e:      # the nested computation's failure stays inside the flush body
            self.aux({"AuxNestedErr": [list(cid), eid(e)]})

    def pre_sync(self, _id, h):
        ent = self.objs.get(id(h))
        self.aux({"AuxSync": [list(_id), list(ent[0]) if ent else [-77]]})

    def got(self, _id, x):
        self.ev.append({"EvGot": [list(_id), {"Ok": [tv(x)]}]})

    def got_err(self, _id, e):
        self.ev.append({"EvGot": [list(_id), {"Err": [eid(e)]}]})

    def var(self, n):
        if n not in self.vars:
            self.vars[n] = AsyncScopedValue(0)
        return self.vars[n]

    def read(self, _id, n):
        v = self.var(n).get()
        self.ev.append({"EvRead": [list(_id), n, tv(v)]})
        return v

    def _path_of(self, task):
        if task is None:
            return "None"
        ent = self.objs.get(id(task))
        return {"Some": [list(ent[0]) if ent else [-77]]}

    def probe(self, _id):
        self.ev.append({"EvProbe": [list(_id), self._path_of(scheduler.get_active_task())]})

    def ctx(self, c, _id):
        if "async" in c:
            real = LoggedCtx(self, _id, c["async"][0], c["async"][1])
        elif "nonasync" in c:
            real = HNonAsync()
        else:
            cid, var, v = c["override"]
            real = self.var(var).override(self.pyval(v))
        return CtxWrap(self, _id, c, real)

    def sched(self):
        s = str(scheduler.get_scheduler())
        m = re.search(r"\((\d+) tasks, (\d+) batches; active task: (.*)\)$", s, re.S)
        act = scheduler.get_active_task()
        self.ev.append({"EvSched": [int(m.group(1)), int(m.group(2)), self._path_of(act)]})
        self.aux({"AuxVars": [[[n, tv(v.get())] for n, v in sorted(self.vars.items())]]})


OPTION_NAMES = ["DUMP_PRE_ERROR_STATE", "DUMP_EXCEPTIONS", "DUMP_SCHEDULE_TASK", "DUMP_CONTINUE_TASK",
                "DUMP_SCHEDULE_BATCH", "DUMP_FLUSH_BATCH", "DUMP_DEPENDENCIES", "DUMP_COMPUTED", "DUMP_NEW_TASKS",
                "DUMP_YIELD_RESULTS", "DUMP_QUEUED_RESULTS", "DUMP_CONTEXTS", "DUMP_SYNC", "DUMP_STACK",
                "DUMP_SCHEDULER_STATE", "DUMP_SYNC_CALLS", "COLLECT_PERF_STATS", "ENABLE_COMPLEX_ASSERTIONS",
                "KEEP_DEPENDENCIES"]


def run_one(c):
    from asynq import profiler
    opts = _debug.options
    saved = {k: getattr(opts, k) for k in OPTION_NAMES + ["MAX_TASK_STACK_SIZE", "SCHEDULER_STATE_DUMP_INTERVAL"]}
    saved_utime = scheduler.utime
    params = c.get("params", {})
    if params.get("hook_faults"):
        # these programs are tiny; a scheduler that spins on a batch whose items are never answered is cut short
        import signal
        signal.alarm(5)
    scheduler.reset()
    profiler.reset()
    T = Tr(c)
    sch = scheduler.get_scheduler()
    sch.on_before_batch_flush.subscribe(
        lambda b: T.ev.append({"EvBefore": [b.kind, b.index]}) if isinstance(b, HBatch) else None)
    sch.on_after_batch_flush.subscribe(
        lambda b: T.ev.append({"EvAfter": [b.kind, b.index]}) if isinstance(b, HBatch) else None)
    bsub = params.get("before_sub")
    if bsub is not None:
        # params.before_sub = [kind, "flush" | "value"]: a further on_before_batch_flush subscriber (after the logging
        # one) that flushes the batch about to be flushed itself / asks its first item for its value, swallowing
        # whatever that raises; the scheduler's own batch.flush() then fails with BatchingError
        def meddle(b):
            if isinstance(b, HBatch) and b.kind == bsub[0]:
                T.aux({"AuxBeforeSub": [b.kind, b.index, bsub[1]]})
                try:
                    if bsub[1] == "flush":
                        b.flush()
                    else:
                        b.items[0].value()
                except BaseException as e:
                    if isinstance(e, _common.Hang):
                        raise
        sch.on_before_batch_flush.subscribe(meddle)
    outs = []
    try:
        opts.MAX_TASK_STACK_SIZE = params.get("maxstack", 1000000)
        opts.KEEP_DEPENDENCIES = bool(params.get("keep"))
        for k, v in params.get("options", {}).items():
            setattr(opts, k, v)
        if params.get("options", {}).get("DUMP_SCHEDULER_STATE"):
            opts.SCHEDULER_STATE_DUMP_INTERVAL = 0     # make the time-based dump actually happen
        if params.get("clock") is not None:
            # scripted clock for COLLECT_PERF_STATS: successive utime() calls advance by the listed deltas
            deltas = list(params["clock"])
            state = {"t": 1700000000000000, "i": 0}

            def fake_utime():
                d = deltas[state["i"] % len(deltas)] if deltas else 1
                state["i"] += 1
                state["t"] += d
                return state["t"]
            scheduler.utime = fake_utime
        src = c["py"]
        env = {"asynq": asynq_deco, "T": T, "result": result}
        exec(compile(src, "<generated case>", "exec"), env)
        top_n = [0]
        for i in range(c["nroots"]):
            h = T.new_task(env["root_%d" % i], (), top_n)
            try:
                v = h.value()
                outs.append({"Some": [{"Ok": [tv(v)]}]})
            except (Exception, VBaseErr) as e:
                outs.append({"Some": [{"Err": [eid(e)]}]})
            T.sched()
        final_ev = list(T.ev)      # events after this point are finalisers of abandoned generators (GC), not asynq
        final_full = list(T.full)
    finally:
        for k, v in saved.items():
            setattr(opts, k, v)
        scheduler.utime = saved_utime
        scheduler.reset()
        profiler.reset()
    oracle = [e["EvBefore"] for e in final_ev if "EvBefore" in e]
    return {"out": {"": [outs, final_ev]}, "oracle": oracle, "full": final_full}


def run_chain(c):
    """Deep chain of awaiting tasks (C03): depth n far beyond the interpreter's recursion limit; the bottom either
    returns, blocks on a batch item (so the whole chain is walked again after the flush), or raises."""
    import sys
    n, mode = c["chain"]["depth"], c["chain"]["mode"]
    scheduler.reset()
    T = Tr(c)

    @asynq_deco()
    def link(k):
        if k == 0:
            if mode == "item":
                v = yield T.new_item(0, 1, {"set": 5}, (), [0])
                return v
            if mode == "fail":
                raise VErr(77)
            return 5
        v = yield link.asynq(k - 1)
        return v + 1

    try:
        v = link(n)
        res = {"Ok": [tv(v)]}
    except RecursionError:
        res = {"Err": [{"Unexpected": [{"s": "RecursionError"}]}]}
    except Exception as e:
        res = {"Err": [eid(e)]}
    finally:
        scheduler.reset()
    want = {"Err": [77]} if mode == "fail" else {"Ok": [{"VInt": [n + 5]}]}
    return {"out": {"": [[], []]}, "oracle": [], "full": [], "chain_result": res, "chain_want": want,
            "recursion_limit": sys.getrecursionlimit()}


def run_case(c):
    """default-options run; with c["variants"] (C20) also one run per option variant, each on a fresh scheduler"""
    if c.get("chain"):
        return run_chain(c)
    _common.note("base")
    r = run_one(c)
    if c.get("variants"):
        vs = []
        for i_v, v in enumerate(c["variants"]):
            _common.note("variant %d" % i_v)
            c2 = dict(c)
            p2 = dict(c.get("params", {}))
            p2["options"] = v.get("options", {})
            if v.get("clock") is not None:
                p2["clock"] = v["clock"]
            if "KEEP_DEPENDENCIES" in p2["options"]:
                p2["keep"] = p2["options"]["KEEP_DEPENDENCIES"]
            c2["params"] = p2
            try:
                o = run_one(c2)
                vs.append({"out": o["out"], "oracle": o["oracle"]})
            except _common.Hang:
                raise
            except BaseException as e:
                vs.append({"escaped": type(e).__name__})
        r["variants"] = vs
    return r


if __name__ == "__main__":
    _common.main(run_case)
