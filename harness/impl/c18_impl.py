"""C18 implementation runner: asynq's diagnostics driven through the real API.

  CFilter  debug.filter_traceback on generated line lists
  CChain   chains of awaiting tasks with a raise at the bottom and handlers at chosen levels; the
           traceback that reaches the synchronous caller; format_error on it
  CObserve the failed outermost task of such a chain observed several times: by the driver itself,
           by chains of reader tasks that await it / ask for its value synchronously, with or without
           a handler; the traceback each observer catches
  CStack   debug.format_asynq_stack() inside the deepest task of a creator chain
  CRepr    str()/repr()/.dump() of every object kind, driven into a lifecycle state through the
           public API ("cell" cases) or put into an arbitrary attribute state (generated trees)
"""
import io
import os
import re
import sys
import traceback

import _common

import asynq
from asynq import asynq as asynq_dec
from asynq import debug, scheduler, batching
from asynq.futures import FutureBase, Future, ConstFuture, ErrorFuture
from asynq.batching import BatchBase, BatchItemBase, DebugBatch, DebugBatchItem
from asynq.scoped_value import AsyncScopedValue, async_override
from asynq.generator import async_generator, Value, list_of_generator
from asynq.async_task import AsyncTask

THIS = os.path.abspath(__file__).rstrip("c")


class Boom(Exception):
    pass


def S(x):
    return {"s": x}


def named(fn, name):
    fn.__code__ = fn.__code__.replace(co_name=name)
    try:
        fn.__code__ = fn.__code__.replace(co_qualname=name)
    except (TypeError, ValueError):
        pass
    fn.__name__ = name
    fn.__qualname__ = name
    return fn


def ctor(t):
    if isinstance(t, str):
        return t, []
    (k, a), = t.items()
    return k, a


def nat(t):
    return t["n"] if isinstance(t, dict) else int(t)


# ------------------------------------------------------------------------------------ (a) filter
def run_filter(lines):
    inp = [l["s"] for l in lines]
    before = list(inp)
    out = debug.filter_traceback(inp)
    ok = isinstance(out, list) and all(isinstance(x, str) for x in out)
    return {"out": {"RFilter": [[S(x) for x in out]]} if ok else {"RFilterBad": [S(repr(out)[:100])]},
            "obs": {"input_unchanged": inp == before}}


# ------------------------------------------------------------------------------------ (b) chains
def frame_of_name(name):
    if name == "caller_frame":
        return "FCaller"
    if name == "prep_site":
        return {"FHelper": [-1]}
    if name == "provider":
        return {"FHelper": [-2]}
    m = re.match(r"^lvl_(\d+)$", name)
    if m:
        return {"FTask": [int(m.group(1))]}
    m = re.match(r"^hlp_(\d+)$", name)
    if m:
        return {"FHelper": [int(m.group(1))]}
    m = re.match(r"^rdr_(\d+)_(\d+)$", name)
    if m:
        return {"FReader": [int(m.group(1)), int(m.group(2))]}
    return {"FOther": [S(name)]}


def prep_site():
    """An exception instance that was raised, caught and prepared for re-raising outside asynq."""
    try:
        raise Boom("prepared earlier")
    except Boom as e:
        from qcore.errors import prepare_for_reraise
        prepare_for_reraise(e)
        return e


def make_chain(ms, bottom, meta):
    d = len(ms) + 1
    fns = [None] * d
    bk, ba = ctor(bottom)
    pre_yields = int(meta.get("pre_yields", 1))
    shapes = meta.get("shapes") or []

    prepared = prep_site() if bk == "BPrepared" else None

    def new_exc():
        return prepared if prepared is not None else Boom("bottom")

    def make_helpers(k):
        helpers = {}

        def mkh(j):
            def h():
                if j == k:
                    raise new_exc()
                return helpers[j + 1]()
            return named(h, "hlp_%d" % j)
        for j in range(1, k + 1):
            helpers[j] = mkh(j)
        return helpers

    def wrap(i, fut):
        sh = shapes[i] if i < len(shapes) else "single"
        if sh == "list":
            return [ConstFuture(1), fut]
        if sh == "tuple":
            return (fut, ConstFuture(2))
        if sh == "dict":
            return {"a": ConstFuture(3), "b": fut}
        return fut

    def mk(i):
        if i == d - 1:
            if bk in ("BRaise", "BPrepared"):
                k = nat(ba[0])
                helpers = make_helpers(k)

                def body():
                    for _ in range(pre_yields):
                        yield None
                    if k == 0:
                        raise new_exc()
                    helpers[1]()
            else:
                def body():
                    for _ in range(pre_yields):
                        yield None
                    yield wrap(i, ErrorFuture(Boom("ef")))
            return asynq_dec()(named(body, "lvl_%d" % i))
        m, h = ms[i][""]
        if h == "HAwait":
            if m == "MPass":
                def body():
                    yield wrap(i, fns[i + 1].asynq())
            elif m == "MReraise":
                def body():
                    try:
                        yield wrap(i, fns[i + 1].asynq())
                    except Boom:
                        raise
            elif m == "MRaiseE":
                def body():
                    try:
                        yield wrap(i, fns[i + 1].asynq())
                    except Boom as e:
                        raise e
            elif m == "MLater":
                def body():
                    err = None
                    try:
                        yield wrap(i, fns[i + 1].asynq())
                    except Boom as e:
                        err = e
                    yield None
                    if err is not None:
                        raise err
            elif m == "MNew":
                def body():
                    try:
                        yield wrap(i, fns[i + 1].asynq())
                    except Boom:
                        raise Boom("new at %d" % i)
            elif m == "MSwallow":
                def body():
                    try:
                        yield wrap(i, fns[i + 1].asynq())
                    except Boom:
                        pass
            else:
                raise ValueError(m)
        else:
            if m == "MPass":
                def body():
                    if False:
                        yield None
                    fns[i + 1]()
            elif m == "MReraise":
                def body():
                    yield None
                    try:
                        fns[i + 1]()
                    except Boom:
                        raise
            elif m == "MRaiseE":
                def body():
                    yield None
                    try:
                        fns[i + 1]()
                    except Boom as e:
                        raise e
            elif m == "MLater":
                def body():
                    err = None
                    try:
                        fns[i + 1]()
                    except Boom as e:
                        err = e
                    yield None
                    if err is not None:
                        raise err
            elif m == "MNew":
                def body():
                    yield None
                    try:
                        fns[i + 1]()
                    except Boom:
                        raise Boom("new at %d" % i)
            elif m == "MSwallow":
                def body():
                    yield None
                    try:
                        fns[i + 1]()
                    except Boom:
                        pass
            else:
                raise ValueError(m)
        return asynq_dec()(named(body, "lvl_%d" % i))

    for i in range(d):
        fns[i] = mk(i)
    return fns


def try_format(label, fn):
    try:
        r = fn()
        if r is not None and not isinstance(r, str):
            return {"variant": label, "ok": False, "exc": "returned " + type(r).__name__, "text": None}
        return {"variant": label, "ok": True, "exc": None, "text": r}
    except _common.Hang:
        raise
    except BaseException as e:
        return {"variant": label, "ok": False, "exc": type(e).__name__, "text": None}


def format_variants(err, tb, depth):
    """format_error with and without traceback, highlighting and filtering on and off (deep chains:
    highlighting a traceback of hundreds of frames takes seconds, so only the default setting and
    the plain one are run)."""
    res = []
    old = (debug._use_syntax_highlighting, debug._should_filter_traceback)
    combos = [(False, True), (False, False), (True, True), (True, False)] if depth <= 40 else [(False, True)]
    try:
        if depth > 40:
            debug.enable_traceback_syntax_highlight(True)
            debug.enable_filter_traceback(True)
            res.append(try_format("stored-tb,hl=1,filter=1", lambda: debug.format_error(err)))
        for hl, flt in combos:
            if True:
                debug.enable_traceback_syntax_highlight(hl)
                debug.enable_filter_traceback(flt)
                tag = "hl=%d,filter=%d" % (hl, flt)
                res.append(try_format("stored-tb," + tag, lambda: debug.format_error(err)))
                if tb is not None:
                    res.append(try_format("explicit-tb," + tag, lambda: debug.format_error(err, tb=tb)))
                if tb is not None:
                    res.append(try_format("foreign-exc-explicit-tb," + tag, lambda: debug.format_error(Boom("not asynq's"), tb=tb)))
                    res.append(try_format("non-exception-explicit-tb," + tag, lambda: debug.format_error(KeyboardInterrupt(), tb=tb)))
                res.append(try_format("string-error," + tag, lambda: debug.format_error("just a string") or "<empty>"))
                res.append(try_format("fresh-no-tb," + tag, lambda: debug.format_error(Boom("never raised"))))
                res.append(try_format("with-traceback-None," + tag, lambda: debug.format_error(Boom("x"), tb=None)))
    finally:
        debug.enable_traceback_syntax_highlight(old[0])
        debug.enable_filter_traceback(old[1])
    return res


def names_in(text):
    # a chained exception (__context__/__cause__) is printed first; the traceback of the exception itself comes last
    text = re.split(r"another exception occurred:|direct cause of the following exception:", text or "")[-1]
    return re.findall(r"\bin ((?:lvl|hlp)_\d+|caller_frame|prep_site)\b", text or "")


def run_chain(ms, bottom, meta):
    fns = make_chain(ms, bottom, meta)

    def caller_frame():
        try:
            fns[0]()
        except Boom as e:
            return e, sys.exc_info()[2]
        return None, None
    named(caller_frame, "caller_frame")
    err, tb = caller_frame()
    if err is None:
        return {"out": {"RChain": ["None"]}, "obs": {"raised": False}}
    hide_aware = [f[2] for f in debug.extract_tb(tb)]
    raw = traceback.extract_tb(tb)
    user = [f.name for f in raw if os.path.abspath(f.filename).rstrip("c") == THIS]
    fmts = format_variants(err, tb, len(ms) + 1)
    light = []
    for f in fmts:
        g = dict(f)
        txt = g.pop("text")
        g["names"] = names_in(txt) if (txt is not None and "hl=0" in g["variant"]) else None
        g["has_text"] = bool(txt)
        light.append(g)
    return {"out": {"RChain": [{"Some": [[frame_of_name(n) for n in hide_aware]]}]},
            "obs": {"raised": True, "exc_type": type(err).__name__, "user_frames": user, "n_raw_frames": len(raw),
                    "has_task": hasattr(err, "_task"), "formats": light}}


# ------------------------------------------------------------------------------------ (b') observers
def make_readers(k, rs, fut, via_call, seen):
    """Reader tasks rdr_k_0 .. rdr_k_(r-1) of observer k, outermost first: the innermost one looks at
    the failed future, every other one at the reader below it -- by `yield` (HAwait) or synchronously
    (HSync); a level that `catches` has a try/except around that and records what it caught."""
    r = len(rs)
    fns = [None] * r

    def mk(j):
        h, catches = rs[j][""]
        catches = catches == "true"
        inner = j == r - 1
        early = (k + j) % 2 == 0          # synchronous look before / after the first yield of the reader

        def target_async():
            return fut if inner else fns[j + 1].asynq()

        # (the synchronous look is written out in the body: a helper would add a frame of its own)
        if h == "HAwait" and not catches:
            def body():
                yield target_async()
        elif h == "HAwait":
            def body():
                try:
                    yield target_async()
                except Boom as e:
                    seen[k] = (e, sys.exc_info()[2])
                    return "handled"
        elif not catches:
            def body():
                if not early:
                    yield None
                (fut() if via_call else fut.value()) if inner else fns[j + 1]()
                if early:
                    yield None
        else:
            def body():
                if not early:
                    yield None
                try:
                    (fut() if via_call else fut.value()) if inner else fns[j + 1]()
                except Boom as e:
                    seen[k] = (e, sys.exc_info()[2])
                    return "handled"
                if early:
                    yield None
        return asynq_dec()(named(body, "rdr_%d_%d" % (k, j)))

    for j in range(r):
        fns[j] = mk(j)
    return fns


def make_shared(fk, src, meta):
    """A failed future that is not a task, holding an exception instance it was handed: the error a
    failed task ended with / an instance prepared for re-raising outside any task / one never raised.
    None: the task did not fail."""
    sk, sa = ctor(src)
    if sk == "EOfTask":
        err = make_chain(sa[0], sa[1], meta)[0].asynq().error()
        if err is None:
            return None
    elif sk == "EPrepared":
        err = prep_site()
    elif sk == "EFresh":
        err = Boom("never raised")
    else:
        raise ValueError(sk)
    if fk == "KErrorFuture":
        return ErrorFuture(err)
    if fk == "KSetError":
        f = FutureBase()
        f.set_error(err)
        return f
    if fk == "KLazy":
        def provider():
            raise err
        return Future(named(provider, "provider"))
    if fk == "KItem":
        class SharedErrorBatch(BatchBase):
            def _try_switch_active_batch(self):
                pass

            def _flush(self):
                for item in self.items:
                    item.set_error(err)
        return BatchItemBase(SharedErrorBatch())
    raise ValueError(fk)


def run_shared(fk, src, drv, observers, meta):
    fut = make_shared(fk, src, meta)
    if fut is None:
        return {"out": {"RObserve": [["None"] * len(observers)]}, "obs": {"observers": [{"raised": False}] * len(observers)}}
    return observe_future(fut, drv, observers, meta)


def run_observe(ms, bottom, drv, observers, meta):
    fns = make_chain(ms, bottom, meta)
    fut = fns[0].asynq()                   # the one task every observer looks at
    return observe_future(fut, drv, observers, meta)


def observe_future(fut, drv, observers, meta):
    sync_via = meta.get("sync_via") or ["value"]
    seen = {}

    def via_call(k):
        return sync_via[k % len(sync_via)] == "call"

    if meta.get("precompute"):
        fut.error()                        # computes the task without raising its error
    readers = [make_readers(k, rs, fut, via_call(k), seen) for k, rs in enumerate(observers)]

    if drv == "HSync":
        def observe_one(k):
            try:
                if readers[k]:
                    readers[k][0]()
                elif via_call(k):
                    fut()
                else:
                    fut.value()
            except Boom as e:
                seen[k] = (e, sys.exc_info()[2])

        if meta.get("fresh_caller", True):
            # a new invocation of the calling function for every observation
            named(observe_one, "caller_frame")
            for k in range(len(observers)):
                observe_one(k)
        else:
            # one invocation of the calling function looks again and again
            def caller_frame():
                for k in range(len(observers)):
                    try:
                        if readers[k]:
                            readers[k][0]()
                        elif via_call(k):
                            fut()
                        else:
                            fut.value()
                    except Boom as e:
                        seen[k] = (e, sys.exc_info()[2])
            named(caller_frame, "caller_frame")()
    else:
        def caller_frame():
            for k in range(len(observers)):
                try:
                    if readers[k]:
                        yield readers[k][0].asynq()
                    else:
                        yield fut
                except Boom as e:
                    seen[k] = (e, sys.exc_info()[2])
        asynq_dec()(named(caller_frame, "caller_frame"))()

    out, per = [], []
    old = (debug._use_syntax_highlighting, debug._should_filter_traceback)
    try:
        debug.enable_traceback_syntax_highlight(False)
        debug.enable_filter_traceback(True)
        for k in range(len(observers)):
            if k not in seen:
                out.append("None")
                per.append({"raised": False})
                continue
            err, tb = seen[k]
            hide_aware = [f[2] for f in debug.extract_tb(tb)]
            raw = traceback.extract_tb(tb)
            user = [f.name for f in raw if os.path.abspath(f.filename).rstrip("c") == THIS]
            fm = []
            if k < 4:
                for f in (try_format("explicit-tb,hl=0,filter=1", lambda: debug.format_error(err, tb=tb)),
                          try_format("stored-tb,hl=0,filter=1", lambda: debug.format_error(err))):
                    txt = f.pop("text")
                    f["has_text"] = bool(txt)
                    fm.append(f)
            out.append({"Some": [[frame_of_name(n) for n in hide_aware]]})
            per.append({"raised": True, "exc_type": type(err).__name__, "user_frames": user, "formats": fm})
    finally:
        debug.enable_traceback_syntax_highlight(old[0])
        debug.enable_filter_traceback(old[1])
    return {"out": {"RObserve": [out]}, "obs": {"observers": per}}


# ------------------------------------------------------------------------------------ (c) stack
def sourceless(fn, how, tmpdir, tag):
    """Makes the source line of fn's frames unretrievable (inspect.getframeinfo(...).code_context is
    None), the way it is for a function built by exec/compile under a pseudo file name, one whose
    file has been removed, or one whose file is empty now."""
    if how == "exec":
        filename = "<c18-generated-%s>" % tag
    elif how == "missing-file":
        filename = os.path.join(tmpdir, "gone_%s.py" % tag)
    elif how == "empty-file":
        filename = os.path.join(tmpdir, "empty_%s.py" % tag)
        open(filename, "w").close()
    else:
        raise ValueError(how)
    fn.__code__ = fn.__code__.replace(co_filename=filename)
    return fn


def run_stack(s0, cs, meta):
    import shutil
    import tempfile
    tmpdir = tempfile.mkdtemp(prefix="c18src")
    try:
        return run_stack_in(s0, cs, meta, tmpdir)
    finally:
        shutil.rmtree(tmpdir, ignore_errors=True)


def run_stack_in(s0, cs, meta, tmpdir):
    cs = [tuple(x[""]) for x in cs]
    d = len(cs)
    srcs = [s0] + [s for _, s in cs]
    hows = meta.get("nosrc_how") or ["exec"]
    call_site = meta.get("call_site", "after-yield")
    fns = [None] * (d + 1)
    pre = {}
    got = {}

    def task_fn(body, name, src, tag):
        named(body, name)
        if src == "SrcNone":
            sourceless(body, hows[tag % len(hows)], tmpdir, "%s_%d" % (name, tag))
        elif src != "SrcFile":
            raise ValueError(src)
        return asynq_dec()(body)

    def take():
        try:
            got["stack"] = debug.format_asynq_stack()
        except _common.Hang:
            raise
        except BaseException as e:
            got["exc"] = type(e).__name__

    def plain_fn():
        take()

    def mk(i):
        if i == d:
            if call_site == "before-yield":
                def body():
                    take()
                    yield None
            elif call_site == "in-plain-fn":
                def body():
                    yield None
                    plain_fn()
            elif call_site == "after-yield":
                def body():
                    yield None
                    take()
            else:
                raise ValueError(call_site)
            return task_fn(body, "lvl_%d" % i, srcs[i], i)
        c, ca = ctor(cs[i][0])
        if c == "ByParent":
            def body():
                yield fns[i + 1].asynq()
        elif c == "BySync":
            def body():
                yield None
                fns[i + 1]()
        elif c == "Pre":
            def body():
                yield pre[i + 1]
        elif c == "ByHelper":
            def helper(box):
                box.append(fns[i + 1].asynq())
                return
                yield
            hfn = task_fn(helper, "hlp_%d" % (i + 1), "SrcFile", i)

            def body():
                box = []
                yield hfn.asynq(box)
                yield box[0]
        elif c == "ByFailedHelper":
            def helper(box):
                box.append(fns[i + 1].asynq())
                raise Boom("helper failed after creating the task")
                yield
            hfn = task_fn(helper, "hlp_%d" % (i + 1), ca[0], i)

            def body():
                box = []
                try:
                    yield hfn.asynq(box)
                except Boom:
                    pass
                yield box[0]
        else:
            raise ValueError(c)
        return task_fn(body, "lvl_%d" % i, srcs[i], i)

    for i in range(d + 1):
        fns[i] = mk(i)
    for i, (c, _) in enumerate(cs):
        if c == "Pre":
            pre[i + 1] = fns[i + 1].asynq()
    outside_before = debug.format_asynq_stack()
    top_exc = None
    try:
        fns[0]()
    except _common.Hang:
        raise
    except BaseException as e:
        top_exc = type(e).__name__
    outside_after = debug.format_asynq_stack()
    obs = {"exc": got.get("exc"), "top_exc": top_exc, "outside_none": outside_before is None and outside_after is None}
    st = got.get("stack")
    if st is None:
        return {"out": {"RStackRaised": [S(str(got.get("exc") or top_exc))]}, "obs": obs}
    if not isinstance(st, list):
        return {"out": {"RStackBad": [S(type(st).__name__)]}, "obs": obs}
    entries = []
    for entry in st:
        if not isinstance(entry, str):
            entries.append({"EOther": [S(str(entry)[:80])]})
            continue
        m = re.match(r'^File "[^\n]*", line \d+, in (lvl|hlp)_(\d+)\n', entry)
        if m:
            kind = "EFrame"
        else:
            m = re.match(r"^@asynq [\w.<>]*\b(lvl|hlp)_(\d+)\(", entry)
            kind = "EStr"
        if not m:
            entries.append({"EOther": [S(entry[:80])]})
        else:
            entries.append({kind: [{"TL" if m.group(1) == "lvl" else "TH": [int(m.group(2))]}]})
    obs["n"] = len(st)
    obs["fallback_entries"] = sum(1 for e in entries if "EStr" in e)
    return {"out": {"RStack": [entries]}, "obs": obs}


# ------------------------------------------------------------------------------------ (d) repr
class HBatch(BatchBase):
    def __init__(self, on_flush=None, fail=False, fail_with="flush failed"):
        BatchBase.__init__(self)
        self.on_flush = on_flush
        self.fail = fail
        self.fail_with = fail_with

    def _try_switch_active_batch(self):
        pass

    def _flush(self):
        if self.on_flush:
            self.on_flush(self)
        if self.fail:
            raise Boom(self.fail_with)
        for it in self.items:
            if not it.skip:
                it.set_value(it.k)


class HItem(BatchItemBase):
    def __init__(self, b, k=0, skip=False):
        BatchItemBase.__init__(self, b)
        self.k = k
        self.skip = skip


class Holder(object):
    p = 1


@asynq_dec()
def tsk(x=0):
    yield None
    return x


@asynq_dec()
def tsk_fail(x="t"):
    yield None
    raise Boom(x)


def task_returning(v):
    """tsk.asynq(v); a string with a line break is not passed as an argument (the task line quotes
    str(argument), which would break the line structure of dump())."""
    if isinstance(v, str) and "\n" in v:
        @asynq_dec()
        def tsk_nl():
            yield None
            return v
        return tsk_nl.asynq()
    return tsk.asynq(v)


def task_failing(v):
    if isinstance(v, str) and "\n" in v:
        @asynq_dec()
        def tsk_fail_nl():
            yield None
            raise Boom(v)
        return tsk_fail_nl.asynq()
    return tsk_fail.asynq(v)


# ---- user payloads (Diag.pval): the value a future holds, the argument its error was built with
class Multi(object):
    """A value with a well-behaved repr that spans several lines (like a table or an array)."""
    TEXT = "Multi(\n  rows=2\n)"
    FLAT = "Multi(<NL>  rows=2<NL>)"      # parse_dump joins the lines debug.write indented

    def __repr__(self):
        return Multi.TEXT

    def __eq__(self, other):
        return isinstance(other, Multi)

    def __hash__(self):
        return 7


def mkval(p):
    k, a = ctor(p)
    if k == "PInt":
        return int(a[0])
    if k == "PNone":
        return None
    if k == "PStr":
        return a[0]["s"]
    if k == "PMulti":
        return Multi()
    if k == "PTuple":
        return tuple(mkval(x) for x in a[0])
    if k == "PList":
        return [mkval(x) for x in a[0]]
    if k == "PDict":
        return {mkval(kv[""][0]): mkval(kv[""][1]) for kv in a[0]}
    if k == "PFut":
        return ConstFuture(1) if a[0] == "true" else ErrorFuture(Boom("n"))
    raise ValueError(k)


def tree_of(v, owner=None):
    """The pval tree of a live payload."""
    if owner is not None and v is owner:
        return "PSelf"
    if v is None:
        return "PNone"
    if isinstance(v, bool):
        return {"PUnknown": [S("bool")]}
    if isinstance(v, int):
        return {"PInt": [v]}
    if isinstance(v, str):
        return {"PStr": [S(v)]}
    if isinstance(v, Multi):
        return "PMulti"
    if isinstance(v, tuple):
        return {"PTuple": [[tree_of(x) for x in v]]}
    if isinstance(v, list):
        return {"PList": [[tree_of(x) for x in v]]}
    if isinstance(v, dict):
        return {"PDict": [[{"": [tree_of(k), tree_of(x)]} for k, x in v.items()]]}
    if isinstance(v, ConstFuture):
        return {"PFut": ["true"]}
    if isinstance(v, ErrorFuture):
        return {"PFut": ["false"]}
    return {"PUnknown": [S(type(v).__name__)]}


def err_arg(e):
    """The payload an exception was built with: its one argument, else the tuple of its arguments."""
    return e.args[0] if len(e.args) == 1 else tuple(e.args)


class _PV(object):
    """Reads the text of repr(payload) back into a pval tree (literals, containers, and the
    fixed texts of Multi / a computed ConstFuture(1) / ErrorFuture(Boom('n')) / '= self')."""
    _str = re.compile(r"""'(?:[^'\\]|\\.)*'|"(?:[^"\\]|\\.)*\"""", re.S)
    _int = re.compile(r"-?\d+")
    _fixed = [
        (re.compile(r"Multi\(\n  rows=2\n\)|" + re.escape(Multi.FLAT)), "PMulti"),
        (re.compile(r"<class '[\w.]*ConstFuture'> \(computed, = 1\)"), {"PFut": ["true"]}),
        (re.compile(r"<class '[\w.]*ErrorFuture'> \(computed, error = Boom\('n'\)\)"), {"PFut": ["false"]}),
        (re.compile(r"<class '[\w.<>]+'> \(computed, = self\)"), "PSelf"),
        (re.compile(r"None"), "PNone"),
    ]

    def __init__(self, text):
        self.t = text
        self.i = 0

    def fail(self):
        raise ValueError("cannot read %r at %d" % (self.t[:60], self.i))

    def lit(self, x):
        if self.t.startswith(x, self.i):
            self.i += len(x)
            return True
        return False

    def seq(self, close):
        """items separated by ', ' up to `close`; returns (items, ended with ',' + close)"""
        items = []
        if self.lit(close):
            return items, False
        while True:
            items.append(self.val())
            if self.lit(close):
                return items, False
            if self.lit(", "):
                continue
            if self.lit("," + close):
                return items, True
            self.fail()

    def val(self):
        for rx, tree in self._fixed:
            m = rx.match(self.t, self.i)
            if m:
                self.i = m.end()
                return tree
        m = self._str.match(self.t, self.i)
        if m:
            import ast
            self.i = m.end()
            return {"PStr": [S(ast.literal_eval(m.group(0)))]}
        m = self._int.match(self.t, self.i)
        if m:
            self.i = m.end()
            return {"PInt": [int(m.group(0))]}
        if self.lit("("):
            items, one = self.seq(")")
            if len(items) == 1 and not one:
                self.fail()
            return {"PTuple": [items]}
        if self.lit("["):
            items, _ = self.seq("]")
            return {"PList": [items]}
        if self.lit("{"):
            kvs = []
            while not self.lit("}"):
                if kvs and not self.lit(", "):
                    self.fail()
                k = self.val()
                if not self.lit(": "):
                    self.fail()
                kvs.append({"": [k, self.val()]})
            return {"PDict": [kvs]}
        self.fail()


def parse_val(text):
    try:
        p = _PV(text)
        v = p.val()
        if p.i != len(text):
            p.fail()
        return v
    except (ValueError, SyntaxError, RecursionError):
        return {"PUnparsed": [S(text[:80])]}


def parse_err(text):
    """'Boom(<args>)' -> the payload the exception was built with."""
    m = re.match(r"^[\w.]+\((.*)\)$", text, re.S)
    if not m:
        return {"PUnparsed": [S(text[:80])]}
    try:
        p = _PV(m.group(1) + ")")
        items, _ = p.seq(")")
        if p.i != len(p.t):
            p.fail()
    except (ValueError, SyntaxError, RecursionError):
        return {"PUnparsed": [S(text[:80])]}
    return items[0] if len(items) == 1 else {"PTuple": [items]}


def parse_shown(text, live, conv):
    """The payload a text shows where conv(payload) was put: the live payload if the text is
    exactly conv(live) (str() of a string has no quotes to read back), else whatever it reads as."""
    if live is not _NOTHING:
        try:
            if text == conv(live):
                return tree_of(live)
        except Exception:
            pass
    return parse_val(text)


_NOTHING = object()
_installed = {}      # id(override context) -> (context, the value it installs): its attributes are not readable in the compiled build


def override_of(ctx, v):
    _installed[id(ctx)] = (ctx, v)
    return ctx


def installed_value(ctx):
    return _installed[id(ctx)][1] if id(ctx) in _installed else getattr(ctx, "_value", None)

FUT_CLASSES = {"CFutureBase", "CFuture", "CConstFuture", "CErrorFuture", "CBatchItem", "CDebugBatchItem"}
_dbg_counter = [0]


def apply_out(f, o):
    if f.is_computed():
        f.reset_unsafe()
    k, a = ctor(o)
    if k == "Unc":
        return
    if k == "OkV":
        f.set_value(mkval(a[0]))
    elif k == "OkSelf":
        f.set_value(f)
    elif k == "ErrV":
        f.set_error(Boom(mkval(a[0])))
    else:
        raise ValueError(o)


def build(t, batch=None):
    """White-box construction of an object in the abstract state t."""
    k, a = ctor(t)
    if k == "OFut":
        c, o = a
        if c == "CFutureBase":
            f = FutureBase()
        elif c == "CFuture":
            f = Future(lambda: 5)
        elif c == "CConstFuture":
            f = ConstFuture(1)
        elif c == "CErrorFuture":
            f = ErrorFuture(Boom("ef"))
        elif c == "CBatchItem":
            f = HItem(batch if batch is not None else HBatch(), 1)
        elif c == "CDebugBatchItem":
            if batch is None:
                _dbg_counter[0] += 1
                f = DebugBatchItem("solo-%d" % _dbg_counter[0], 4)
            else:
                batching._debug_batch_state.batches[batch.name] = batch
                f = DebugBatchItem(batch.name, 4)
        else:
            raise ValueError(c)
        if batch is None:
            apply_out(f, o)
        return f
    if k == "OTask":
        o, it, gen_open, deps = a
        t_ = tsk.asynq(1)
        ds = [build(d) for d in deps]
        apply_out(t_, o)      # _computed closes the generator and drops the dependencies
        t_._dependencies = ds
        t_.iteration_index = it
        if gen_open == "true":
            if t_._generator is None:
                def g():
                    yield None
                t_._generator = g()
        elif t_._generator is not None:
            t_._generator.close()
            t_._generator = None
        return t_
    if k == "OBatch":
        c, o, items = a
        if c == "CBatch":
            b = HBatch()
        else:
            _dbg_counter[0] += 1
            b = DebugBatch("dbg-%d" % _dbg_counter[0])
        its = [build(i, batch=b) for i in items]
        apply_out(b, o)
        for i, spec in zip(its, items):
            apply_out(i, ctor(spec)[1][1])
        b.items = its
        return b
    if k == "OSched":
        ts, bs, act = a
        s = scheduler.TaskScheduler()
        s._tasks = [build(x) for x in ts]
        s._batches = set(build(x) for x in bs)
        s.active_task = None if act == "None" else build(act["Some"][0])
        return s
    if k == "OScoped":
        c = a[0]
        v = mkval(a[1])
        if c == "CScopedValue":
            return AsyncScopedValue(v)
        if c == "CSVOverride":
            return override_of(AsyncScopedValue(1).override(v), v)
        if c == "CPropOverride":
            return override_of(async_override(Holder(), "p", v), v)
        raise ValueError(c)
    if k == "OAGen":
        @async_generator()
        def g():
            yield Value(1)
        gen = g()
        gen.is_stopped = (a[0] == "true")
        return gen
    if k == "OValue":
        return Value(mkval(a[0]))
    raise ValueError(k)


def observe(x, depth=0):
    """The abstract state of a live object, read through public attributes."""
    if depth > 60:
        return "TooDeep"
    if isinstance(x, FutureBase):
        if not x.is_computed():
            o = "Unc"
        elif x.error() is not None:
            o = {"ErrV": [tree_of(err_arg(x.error()))]}
        elif x.value() is x:
            o = "OkSelf"
        else:
            o = {"OkV": [tree_of(x.value())]}
        if isinstance(x, AsyncTask):
            return {"OTask": [o, x.iteration_index, "true" if x._generator is not None else "false",
                              [observe(d, depth + 1) for d in x._dependencies]]}
        if isinstance(x, BatchBase):
            return {"OBatch": ["CDebugBatch" if isinstance(x, DebugBatch) else "CBatch", o,
                               [observe(i, depth + 1) for i in x.items]]}
        if isinstance(x, DebugBatchItem):
            c = "CDebugBatchItem"
        elif isinstance(x, BatchItemBase):
            c = "CBatchItem"
        elif isinstance(x, ConstFuture):
            c = "CConstFuture"
        elif isinstance(x, ErrorFuture):
            c = "CErrorFuture"
        elif isinstance(x, Future):
            c = "CFuture"
        else:
            c = "CFutureBase"
        return {"OFut": [c, o]}
    if isinstance(x, scheduler.TaskScheduler):
        return {"OSched": [[observe(t, depth + 1) for t in x._tasks], [observe(b, depth + 1) for b in x._batches],
                           "None" if x.active_task is None else {"Some": [observe(x.active_task, depth + 1)]}]}
    if isinstance(x, AsyncScopedValue):
        return {"OScoped": ["CScopedValue", tree_of(x.get())]}
    if type(x).__name__ == "_AsyncScopedValueOverrideContext":
        return {"OScoped": ["CSVOverride", tree_of(installed_value(x))]}
    if type(x).__name__ == "_AsyncPropertyOverrideContext":
        return {"OScoped": ["CPropOverride", tree_of(installed_value(x))]}
    if type(x).__name__ == "_AsyncGenerator":
        return {"OAGen": ["true" if x.is_stopped else "false"]}
    if isinstance(x, Value):
        return {"OValue": [tree_of(x.value)]}
    return {"Unknown": [S(type(x).__name__)]}


# ---- parsing of the printed forms back into summaries
# the status follows the ")" that closes the call text (a payload among the arguments or in the status can
# itself contain "(computed, = ..)": the repr of a future)
_task_re = re.compile(
    r"^@asynq .*?\) \((computed, = .*|computed, error = .*|blocked x(\d+)|waiting|almost finished \(generator is closed\)), "
    r"(before 1st yield|passed yield #(-?\d+))\)$", re.S)
_batch_re = re.compile(r"^[\w.<>]+ \((cancelled|flushed|pending), (\d+) items\)$")
_sched_re = re.compile(r"^<class 'asynq\.scheduler\.TaskScheduler'> '.*?' \((\d+) tasks, (\d+) batches; active task: (.*)\)$", re.S)
_fut_re = re.compile(r"^<class '[\w.<>]+'> \((.*)\)$", re.S)
_agen_re = re.compile(r"^<@async_generator\(\) <generator object .*> (stopped|)>$", re.S)


_sv_re = re.compile(r"^AsyncScopedValue\((.*)\)$", re.S)
_ov_re = re.compile(r"^_AsyncScopedValueOverrideContext\(target=AsyncScopedValue\(1\), value=(.*)\)$", re.S)
# while the override is active its target holds the same value
_ov_active_re = re.compile(r"^_AsyncScopedValueOverrideContext\(target=AsyncScopedValue\((.*)\), value=\1\)$", re.S)
_pov_re = re.compile(r"^_AsyncPropertyOverrideContext\(target=<[^>]*>, property_name='p', value=(.*)\)$", re.S)
_val_re = re.compile(r"^<Value: (.*)>$", re.S)


def parse_summary(s, live=_NOTHING, conv=repr):
    """The Diag.summary a printed text amounts to; which payload it shows is read back out of the
    text (live/conv: see parse_shown; only used for the scoped value, whose str() shows str(value))."""
    if not isinstance(s, str):
        return {"NotStr": [S(type(s).__name__)]}
    m = _sched_re.match(s)
    if m:
        act = m.group(3)
        return {"SSched": [int(m.group(1)), int(m.group(2)), "None" if act == "None" else {"Some": [parse_summary(act)]}]}
    m = _task_re.match(s)
    if m:
        st = m.group(1)
        if st.startswith("computed, = "):
            status = {"TOk": [parse_val(st[len("computed, = "):])]}
        elif st.startswith("computed, error = "):
            status = {"TErr": [parse_err(st[len("computed, error = "):])]}
        elif st.startswith("blocked x"):
            status = {"TBlocked": [int(m.group(2))]}
        elif st == "waiting":
            status = "TWaiting"
        else:
            status = "TAlmost"
        step = 0 if m.group(3) == "before 1st yield" else int(m.group(4))
        return {"STask": [status, step]}
    m = _batch_re.match(s)
    if m:
        return {"SBatch": [{"cancelled": "BCancelled", "flushed": "BFlushed", "pending": "BPending"}[m.group(1)], int(m.group(2))]}
    m = _fut_re.match(s)
    if m:
        st = m.group(1)
        if st == "isn't computed":
            return {"SFuture": ["FNot"]}
        if st == "computed, = self":
            return {"SFuture": ["FSelf"]}
        if st.startswith("computed, = "):
            return {"SFuture": [{"FOk": [parse_val(st[len("computed, = "):])]}]}
        if st.startswith("computed, error = "):
            return {"SFuture": [{"FErr": [parse_err(st[len("computed, error = "):])]}]}
    m = _sv_re.match(s)
    if m:
        return {"SScoped": [parse_shown(m.group(1), live, conv)]}
    m = _ov_re.match(s) or _ov_active_re.match(s)
    if m:
        return {"SOverride": [parse_val(m.group(1))]}
    m = _pov_re.match(s)
    if m:
        return {"SPropOverride": [parse_val(m.group(1))]}
    m = _agen_re.match(s)
    if m:
        return {"SAGen": ["true" if m.group(1) == "stopped" else "false"]}
    m = _val_re.match(s)
    if m:
        return {"SValue": [parse_val(m.group(1))]}
    return {"Unparsed": [S(s[:100])]}


CUT_AT = 240      # debug.options.DEBUG_STR_REPR_MAX_LENGTH
_DUMP_FIXED = {"Dependencies:": "DDeps", "No dependencies.": "DNoDeps", "Items:": "DItems", "No items.": "DNoItems",
               "Task queue:": "DTaskQueue", "No tasks in task queue.": "DNoTasks", "Batches:": "DBatches", "...": "DEllipsis"}


_multi_in_dump = re.compile(r"Multi\(\n *  rows=2\n *\)")


def parse_dump(text):
    lines = []
    text = _multi_in_dump.sub(Multi.FLAT, text)     # debug.write indents the lines of a multi-line text
    for ln in text.split("\n")[:-1] if text.endswith("\n") else text.split("\n"):
        body = ln.lstrip(" ")
        nsp = len(ln) - len(body)
        if nsp % 2:
            lines.append({"": [nsp, {"DOdd": [S(body[:60])]}]})
            continue
        if body in _DUMP_FIXED:
            d = _DUMP_FIXED[body]
        elif body.startswith("Priority: "):
            d = "DPriority"
        elif body.startswith("<n/a: str(...) raised"):
            d = {"DObj": ["None"]}
        elif len(body) == CUT_AT and body.endswith("..."):
            d = "DCut"
        else:
            d = {"DObj": [{"Some": [parse_summary(body)]}]}
        lines.append({"": [nsp // 2, d]})
    return lines


def holds(obj):
    """(role, payload) of what obj holds and its printed forms have to show; None if nothing."""
    if isinstance(obj, FutureBase):
        if not obj.is_computed():
            return None
        if obj.error() is not None:
            return ("error", obj.error())
        if obj.value() is obj:
            return None
        return ("value", obj.value())
    if isinstance(obj, AsyncScopedValue):
        return ("value", obj.get())
    if type(obj).__name__ in ("_AsyncScopedValueOverrideContext", "_AsyncPropertyOverrideContext"):
        return ("value", installed_value(obj))
    if isinstance(obj, Value):
        return ("value", obj.value)
    return None


def call3(obj):
    """str / repr / dump of obj: (results as Coq `res` trees, observation of what happened)."""
    obs = {"type": type(obj).__name__}
    h = holds(obj)
    live = _NOTHING
    if h is not None:
        # what a faithful text has to contain (user payloads have well-behaved reprs)
        obs["holds"] = {"role": h[0], "repr": repr(h[1]), "str": str(h[1])}
        if h[0] == "value":
            live = h[1]
    outs = []
    for nm in ("str", "repr", "dump"):
        if nm == "dump" and not hasattr(obj, "dump"):
            outs.append("NoMethod")
            obs[nm] = "n/a"
            continue
        buf = io.StringIO()
        old = (sys.stdout, debug.stdout)
        sys.stdout = buf
        debug.stdout = buf
        try:
            try:
                if nm == "str":
                    v = str(obj)
                elif nm == "repr":
                    v = repr(obj)
                else:
                    v = obj.dump()
                exc = None
            except _common.Hang:
                raise
            except BaseException as e:
                exc = type(e).__name__
        finally:
            sys.stdout, debug.stdout = old
        if exc is not None:
            outs.append("Raised")
            obs[nm] = exc
        elif nm == "dump":
            text = buf.getvalue()
            outs.append({"Returned": [parse_dump(text)]})
            obs[nm] = "ok"
            obs["dump_text"] = text[:4000]
            obs["dump_first_cut"] = len(text.split("\n")[0]) == CUT_AT and text.split("\n")[0].endswith("...")
            obs["dump_na_lines"] = len(re.findall(r"<n/a: (?:str|repr)\(\.\.\.\) raised", text))
        else:
            outs.append({"Returned": [parse_summary(v, live, str if nm == "str" else repr)]})
            obs[nm] = "ok"
            obs[nm + "_text"] = v[:4000] if isinstance(v, str) else None
    return {"RRepr": outs}, obs


# ---- lifecycle cells: objects driven into a state through the public API only
def cell(name, v=3):
    """Calls k(obj) with the live object while it is in the named state; returns k's result.
    v: the payload every value / error argument / scoped value of the cell is made of."""
    res = []

    def k(obj):
        res.append(call3(obj) + (observe(obj),))

    kind, state = name.split("/")
    if kind in ("FutureBase", "Future", "ConstFuture", "ErrorFuture"):
        if kind == "FutureBase":
            f = FutureBase()
        elif kind == "Future":
            def prov():
                if state.startswith("err"):
                    raise Boom(v)
                return v
            f = Future(prov)
        elif kind == "ConstFuture":
            f = ConstFuture(v)
        else:
            f = ErrorFuture(Boom(v))
        if state == "fresh":
            pass
        elif state == "ok":
            if kind == "FutureBase":
                f.set_value(v)
            else:
                f.value()
        elif state == "err":
            if kind == "FutureBase":
                f.set_error(Boom(v))
            else:
                f.error()
        elif state == "self":
            f.set_value(f)
        elif state == "reset":
            if kind == "FutureBase":
                f.set_value(1)
            else:
                f.error()
            f.reset_unsafe()
        elif state == "reset-then-err":
            f.error() if kind != "FutureBase" else f.set_value(1)
            f.reset_unsafe()
            f.set_error(Boom(v))
        else:
            raise ValueError(name)
        k(f)
    elif kind == "Task":
        if state == "fresh":
            k(tsk.asynq(1))
        elif state == "ok":
            t = task_returning(v)
            t.value()
            k(t)
        elif state == "err":
            t = task_failing(v)
            t.error()
            k(t)
        elif state == "reset":
            t = tsk.asynq(1)
            t.value()
            t.reset_unsafe()
            k(t)
        elif state == "running-first-step":
            @asynq_dec()
            def body():
                k(scheduler.get_active_task())
                yield None
            body()
        elif state == "running-after-yields":
            @asynq_dec()
            def body():
                yield None
                yield ConstFuture(1)
                k(scheduler.get_active_task())
            body()
        elif state == "blocked-on-item":
            @asynq_dec()
            def body():
                me = scheduler.get_active_task()
                b = HBatch(on_flush=lambda b: k(me))
                yield HItem(b, 7)
            body()
        elif state == "blocked-on-task":
            @asynq_dec()
            def body():
                me = scheduler.get_active_task()

                @asynq_dec()
                def inner():
                    k(me)
                    yield None
                yield inner.asynq(), ConstFuture(v)
            body()
        elif state == "blocked-on-two":
            @asynq_dec()
            def body():
                me = scheduler.get_active_task()
                yield None
                b = HBatch(on_flush=lambda b: k(me))
                yield [HItem(b, 7), task_returning(v), HItem(b, 8)]
            body()
        elif state == "in-on-computed":
            t = task_returning(v)
            t.on_computed.subscribe(lambda _t: k(t))
            t.value()
        elif state == "failed-in-on-computed":
            t = task_failing(v)
            t.on_computed.subscribe(lambda _t: k(t))
            t.error()
        elif state == "cancelled-generator-exit":
            @asynq_dec()
            def body():
                yield None
                raise asynq.async_task.AsyncTaskCancelledError()
            t = body.asynq()
            t.error()
            k(t)
        elif state == "returns-itself":
            @asynq_dec()
            def body():
                yield None
                return scheduler.get_active_task()
            t = body.asynq()
            t.value()
            k(t)
        else:
            raise ValueError(name)
    elif kind in ("Batch", "Item", "DebugBatch", "DebugItem"):
        dbg = kind.startswith("Debug")
        want_item = kind.endswith("Item")
        if dbg:
            _dbg_counter[0] += 1
            nm = "cell-%d" % _dbg_counter[0]

        def pick(b, it):
            k(it if want_item else b)
        if state == "empty":
            k(DebugBatch("e") if dbg else HBatch())
        elif state == "pending":
            if dbg:
                it = DebugBatchItem(nm, v)
                pick(it.batch, it)
            else:
                b = HBatch()
                it = HItem(b, v)
                HItem(b, 2)
                pick(b, it)
        elif state == "flushing":
            if dbg:
                # DebugBatch._flush cannot be observed from inside; observe from a second item's callback
                it = DebugBatchItem(nm, v)
                it2 = DebugBatchItem(nm, 4)
                it.on_computed.subscribe(lambda _f: pick(it.batch, it2))
                it.value()
            else:
                b = HBatch(on_flush=lambda b: pick(b, b.items[0]))
                it = HItem(b, v)
                it.value()
        elif state == "flushed":
            if dbg:
                it = DebugBatchItem(nm, v)
                b = it.batch
                it.value()
            else:
                b = HBatch()
                it = HItem(b, v)
                it.value()
            pick(b, it)
        elif state == "cancelled":
            if dbg:
                it = DebugBatchItem(nm, v)
                b = it.batch
            else:
                b = HBatch()
                it = HItem(b, v)
            b.cancel()
            pick(b, it)
        elif state == "flush-failed":
            b = HBatch(fail=True, fail_with=v)
            it = HItem(b, v)
            b.flush()
            pick(b, it)
        elif state == "not-set":
            b = HBatch()
            it = HItem(b, 1, skip=True)
            b.flush()
            pick(b, it)
        elif state == "reset":
            if dbg:
                it = DebugBatchItem(nm, v)
                b = it.batch
            else:
                b = HBatch()
                it = HItem(b, v)
            it.value()
            b.reset_unsafe()
            it.reset_unsafe()
            pick(b, it)
        elif state == "flushed-by-scheduler":
            got = {}

            @asynq_dec()
            def body():
                if dbg:
                    it = DebugBatchItem(nm, v)
                else:
                    it = HItem(HBatch(), v)
                got["it"] = it
                got["b"] = it.batch
                yield it
            body()
            pick(got["b"], got["it"])
        else:
            raise ValueError(name)
    elif kind == "Sched":
        if state == "idle":
            k(scheduler.get_scheduler())
        elif state == "new":
            k(scheduler.TaskScheduler())
        elif state == "running":
            @asynq_dec()
            def body():
                k(scheduler.get_scheduler())
                yield None
            body()
        elif state == "flushing":
            @asynq_dec()
            def body():
                b = HBatch(on_flush=lambda b: k(scheduler.get_scheduler()))
                yield HItem(b, 7)
            body()
        elif state == "nested-sync-call":
            @asynq_dec()
            def inner():
                k(scheduler.get_scheduler())
                yield None

            @asynq_dec()
            def body():
                yield None
                inner()
            body()
        elif state == "with-pending-batch":
            @asynq_dec()
            def other():
                k(scheduler.get_scheduler())
                yield None

            @asynq_dec()
            def body():
                yield [HItem(HBatch(), 7), other.asynq()]
            body()
        elif state == "after-error":
            try:
                tsk_fail()
            except Boom:
                pass
            k(scheduler.get_scheduler())
        else:
            raise ValueError(name)
    elif kind == "Scoped":
        sv = AsyncScopedValue(v if state == "default" else 1)
        if state == "default":
            k(sv)
        elif state == "set":
            sv.set(v)
            k(sv)
        elif state == "overridden":
            with sv.override(v):
                k(sv)
        elif state == "overridden-in-task":
            @asynq_dec()
            def body():
                with sv.override(v):
                    yield tsk.asynq(1)
                    k(sv)
            body()
        else:
            raise ValueError(name)
    elif kind == "Override":
        sv = AsyncScopedValue(1)
        ov = override_of(sv.override(v), v)
        if state == "fresh":
            k(ov)
        elif state == "active":
            with ov:
                k(ov)
        elif state == "exited":
            with ov:
                pass
            k(ov)
        elif state == "paused-in-task":
            @asynq_dec()
            def body():
                b = HBatch(on_flush=lambda b: k(ov))
                with ov:
                    yield HItem(b, 1)
            body()
        else:
            raise ValueError(name)
    elif kind == "PropOverride":
        po = override_of(async_override(Holder(), "p", v), v)
        if state == "fresh":
            k(po)
        elif state == "active":
            with po:
                k(po)
        elif state == "exited":
            with po:
                pass
            k(po)
        else:
            raise ValueError(name)
    elif kind == "AGen":
        @async_generator()
        def g():
            x = yield tsk.asynq(1)
            yield Value(x)
            yield Value(2)
        gen = g()
        if state == "fresh":
            k(gen)
        elif state == "mid":
            @asynq_dec()
            def consume():
                n = 0
                for t in gen:
                    yield t
                    n += 1
                    if n == 1:
                        k(gen)
            consume()
        elif state == "stopped":
            list_of_generator(gen)
            k(gen)
        else:
            raise ValueError(name)
    elif kind == "Value":
        k(Value(v))
    else:
        raise ValueError(name)
    if not res:
        return None
    return res[0]


def run_repr(tree, meta):
    name = meta.get("cell")
    if name:
        r = cell(name, mkval(meta["payload"]) if meta.get("payload") is not None else 3)
        if r is None:
            return {"out": {"NotDriven": [S(name)]}, "obs": {"cell": name, "driven": False}}
        out, obs, seen = r
        obs["cell"] = name
    else:
        obj = build(tree)
        seen = observe(obj)
        out, obs = call3(obj)
        obs["cell"] = None
    obs["driven"] = (seen == tree)
    if not obs["driven"]:
        obs["observed_state"] = seen
    return {"out": out, "obs": obs}


def run_case(c):
    k, a = ctor(c["tree"])
    meta = c.get("meta") or {}
    scheduler.reset()
    _installed.clear()
    if k == "CFilter":
        return run_filter(a[0])
    if k == "CChain":
        return run_chain(a[0], a[1], meta)
    if k == "CObserve":
        return run_observe(a[0], a[1], a[2], a[3], meta)
    if k == "CShared":
        return run_shared(a[0], a[1], a[2], a[3], meta)
    if k == "CStack":
        return run_stack(a[0], a[1], meta)
    if k == "CRepr":
        return run_repr(a[0], meta)
    raise ValueError(k)


if __name__ == "__main__":
    _common.main(run_case)
