"""Shared main loop of the implementation runners (run under /venv/bin/python with PYTHONPATH
pointing at a scratch build of /repo)."""
import io
import json
import os
import signal
import sys
import traceback


class Hang(BaseException):
    pass


def _alarm(signum, frame):
    raise Hang()


_NOTE = ""


def note(s):
    """records what the runner is doing inside the current case (read by the driver when it has to kill a
    worker that spins inside compiled code)"""
    global _NOTE
    _NOTE = s
    try:
        with open(sys.argv[2] + ".note", "w") as f:
            f.write(s)
    except Exception:
        pass


def exn_name(e):
    return type(e).__name__


def main(run_case, per_case_timeout=30):
    cases = json.load(open(sys.argv[1]))
    out = []
    real_stdout = sys.stdout
    signal.signal(signal.SIGALRM, _alarm)
    with open(sys.argv[2] + ".partial", "w") as pf:
        for c in cases:
            sys.stdout = io.StringIO()
            sys.stderr = io.StringIO()
            note("")
            try:
                signal.alarm(per_case_timeout)
                try:
                    r = run_case(c)
                finally:
                    signal.alarm(0)
            except Hang:
                r = {"Hang": [{"s": "per-case alarm", "note": _NOTE}]}
            except BaseException:
                r = {"HarnessCrash": [{"s": traceback.format_exc()[-2000:]}]}
            finally:
                sys.stdout = real_stdout
                sys.stderr = sys.__stderr__
            out.append(r)
            pf.write(json.dumps(r) + "\n")
            pf.flush()
    json.dump(out, open(sys.argv[2], "w"))


def asynq_location():
    import asynq
    return os.path.dirname(asynq.__file__)
