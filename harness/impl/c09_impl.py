"""C09 implementation runner: one cell of the product decorator x binding x argument pattern x
body kind (shape x return style) x calling context per case.  For every cell the callable is built afresh (exec for the bodies, closures
and type() for the rest) once per calling convention, so that caches / deduplication never
suppress a body run, and each convention is driven through asynq's public API only.

Every body records (body id, receiver identity, a, b, k); the runner returns, per convention,
(what became of the calling task, (status, [records], outcome)) and the answers of the five
classification helpers.

Calling context: every convention is executed at top level (CTop), inside the generator body of a
running task (CGen), inside the plain body of a running task (CPlain), or inside a plain-bodied task
that a generator task called synchronously (CNested).  The surrounding task returns (MARK, value);
if it comes back with anything else it was finished with somebody else's value.

Return style: the body ends in `return v` or in `result(v); return`.  The ...Own shapes put into v
whether get_active_task() is a task made for this very function (its .fn has the body's code).

Lookup history: the decorated attribute lives in a class hierarchy C, Sub(C), Sub2(C) (sibling).  A case
carries 0-3 warm-ups (path, act, value): earlier uses of the SAME attribute object through another class or
instance of the hierarchy - a bare lookup (WGet), t(v) (WSync), t.asynq(v).value() (WAsynq) or
async_call.asynq(t, v) (WAsyncCall) - made at top level, in order, on every freshly built callable before
the attribute is looked up for the form under test.  Their outcomes are reported too."""
import sys

import _common
import asynq
from asynq import asynq as asynq_deco, async_proxy, async_call, ConstFuture, result, get_active_task
from asynq.async_task import AsyncTaskResult
from asynq.futures import FutureBase
from asynq.batching import DebugBatchItem
from asynq.decorators import (make_async_decorator, is_async_fn, is_pure_async_fn, has_async_fn,
                              get_async_fn, get_async_or_sync_fn)
from asynq.tools import deduplicate, aretry, alru_cache, acached_per_instance


class VErr(Exception):
    def __init__(self, i):
        Exception.__init__(self, i)
        self.vid = i


@asynq_deco()
def helper(v):
    return v


BODY = '''
def body({recv}a, b=20, *, k=30):
    __log.append(("{tag}", {recvexpr}, a, b, k))
{stmts}
'''

TAIL = '''
    if a == 99:
        raise VErr(900 + {tagnum})
    {ret}({tagnum}, a, b, k, x){after}
'''


def own(base):
    """base if the active task was made for the calling function, base+1 for another task, base+2 for none."""
    t = get_active_task()
    if t is None:
        return base + 2
    return base if getattr(t.fn, "__code__", None) is sys._getframe(1).f_code else base + 1


YIELDS = {
    "BPlain": "    x = 0\n",
    "BGenConst": "    x = yield ConstFuture(5)\n",
    "BGenTask": "    x = yield helper.asynq(6)\n",
    "BBatch": "    x = yield DebugBatchItem('c09', 7)\n",
    "BPlainOwn": "    x = own(8)\n",
    "BGenOwn": "    yield ConstFuture(5)\n    x = own(11)\n",
}
RETS = {"RetReturn": ("return ", ""), "RetResult": ("result(", ")\n    return")}

INNER = '''
@asynq_deco()
def inner(a, b, k):
{yields}
    if a == 99:
        raise VErr(901)
    {ret}(1, a, b, k, x){after}
'''

PROXY_STMTS = "    return inner.asynq(a, b, k)\n"


def make_body(tag, tagnum, style, bk, log, proxy):
    shape, rs = bk
    ret, after = RETS[rs]
    recv, recvexpr = {"func": ("", "None"), "self": ("self, ", "self"), "cls": ("cls, ", "cls")}[style]
    ns = dict(__log=log, VErr=VErr, ConstFuture=ConstFuture, helper=helper, DebugBatchItem=DebugBatchItem,
              asynq_deco=asynq_deco, own=own, result=result)
    if proxy:
        exec(INNER.format(yields=YIELDS[shape], ret=ret, after=after), ns)
        stmts = PROXY_STMTS
    else:
        stmts = YIELDS[shape] + TAIL.format(tagnum=tagnum, ret=ret, after=after)
    exec(BODY.format(recv=recv, recvexpr=recvexpr, tag=tag, stmts=stmts), ns)
    return ns["body"]


FUNC_ONLY = ("DRetry", "DLru", "DCpi")
STYLE = {"BFunc": "func", "BInst": "self", "BClass": "self", "BSub": "self", "BCmClass": "cls", "BCmInst": "cls",
         "BCmSub": "cls", "BSmClass": "func", "BSmInst": "func", "BSub2": "self", "BCmSub2": "cls", "BCmSubInst": "cls"}
MTYPE = {"BCmClass": classmethod, "BCmInst": classmethod, "BCmSub": classmethod, "BSmClass": staticmethod,
         "BSmInst": staticmethod, "BCmSub2": classmethod, "BCmSubInst": classmethod}


class Cell(object):
    pass


def build(deco, binding, bk, explicit=True):
    """Returns a Cell with .lookup(path) -> (what the user calls, explicitly passed instance), .log,
    .names (identity -> receiver name).  Nothing is looked up yet: the attribute is only stored."""
    cell = Cell()
    log = cell.log = []
    style = STYLE[binding]
    mtype = MTYPE.get(binding)
    proxy = deco in ("DProxy", "DProxyPure")
    body = make_body("FnBody", 1, style, bk, log, proxy)
    raw = mtype(body) if mtype else body
    if deco == "DAsynq":
        attr = asynq_deco()(raw)
    elif deco == "DPure":
        attr = asynq_deco(pure=True)(raw)
    elif deco == "DProxy":
        attr = async_proxy()(raw)
    elif deco == "DProxyPure":
        attr = async_proxy(pure=True)(raw)
    elif deco == "DPair":
        sbody = make_body("SyncBody", 2, style, ("BPlain", "RetReturn"), log, False)
        sraw = mtype(sbody) if mtype else sbody
        attr = asynq_deco(sync_fn=sraw)(raw)
    elif deco == "DWrap":
        fun = asynq_deco()(raw)

        @asynq_deco(pure=True)
        def wrapper_fn(*args, **kwargs):
            r = cell.names.get(id(args[0])) if args else None
            log.append(("WrapBody", r, len(args) - (1 if r else 0), len(kwargs), 0))
            v = yield fun.asynq(*args, **kwargs)
            return (77, v)

        attr = make_async_decorator(fun, wrapper_fn, "c09wrap")
    elif deco == "DDedup":
        attr = deduplicate()(asynq_deco()(raw))
    elif deco == "DRetry":
        attr = aretry(VErr, max_tries=2, sleep=0)(asynq_deco()(raw))
    elif deco == "DLru":
        attr = alru_cache()(asynq_deco()(raw))
    elif deco == "DCpi":
        attr = acached_per_instance()(asynq_deco()(raw))
    else:
        raise ValueError(deco)
    cell.names = {}
    if binding == "BFunc":
        cell.lookup = lambda path, explicit=True: (attr, ())
        return cell
    # instances are falsy on purpose (an empty container class): binding must test `is None`, not truthiness
    C = type("C", (object,), {"m": attr, "__len__": lambda self: 0})
    Sub = type("Sub", (C,), {})
    Sub2 = type("Sub2", (C,), {})
    obj, subobj, sub2obj = C(), Sub(), Sub2()
    cell.keep = (C, Sub, Sub2, obj, subobj, sub2obj)
    cell.names = {id(obj): "RObj", id(subobj): "RSubObj", id(C): "RCls", id(Sub): "RSubCls",
                  id(sub2obj): "RSub2Obj", id(Sub2): "RSub2Cls"}

    def lookup(path, explicit=True):
        """one attribute lookup through `path` (a binding of the same method kind)"""
        if STYLE[path] != style or MTYPE.get(path) is not mtype or path == "BFunc":
            raise ValueError("path %s is not a lookup of a %s attribute" % (path, binding))
        if path in ("BInst", "BCmInst", "BSmInst"):
            return obj.m, ()
        if path in ("BSub", "BCmSubInst"):
            return subobj.m, ()
        if path == "BSub2":
            return sub2obj.m, ()
        if path == "BCmSub":
            return Sub.m, ()
        if path == "BCmSub2":
            return Sub2.m, ()
        return C.m, ((obj,) if path == "BClass" and explicit else ())
    cell.lookup = lookup
    return cell


def exn_id(e):
    if isinstance(e, VErr):
        return e.vid
    if isinstance(e, TypeError):
        return -1
    if isinstance(e, AttributeError):
        return -20
    if isinstance(e, AsyncTaskResult):
        return -30
    return {"Unexpected": [{"s": type(e).__name__ + ":" + str(e)[:80]}]}


TAGS = {1: "FnBody", 2: "SyncBody"}


def argtree(cell, v):
    if isinstance(v, int) and not isinstance(v, bool):
        return {"AVal": [v]}
    r = cell.names.get(id(v))
    if r:
        return {"AObj": [r]}
    return {"AOther": [{"s": repr(v)[:40]}]}


def valtree(cell, v):
    if isinstance(v, FutureBase):
        return "VFuture"
    if isinstance(v, tuple) and len(v) == 5 and v[0] in TAGS:
        return {"VBody": [TAGS[v[0]], argtree(cell, v[1]), argtree(cell, v[2]), argtree(cell, v[3]), v[4]]}
    if isinstance(v, tuple) and len(v) == 2 and v[0] == 77:
        return {"VWrapped": [valtree(cell, v[1])]}
    return {"VOther": [{"s": repr(v)[:60]}]}


def records(cell):
    out = []
    for tag, recv, a, b, k in cell.log:
        if tag == "WrapBody":
            out.append({"CWrap": [{"Some": [recv]} if recv else "None", a, b]})
        else:
            r = "None" if recv is None else {"Some": [argtree(cell, recv)]}
            out.append({"CBody": [tag, r, argtree(cell, a), argtree(cell, b), argtree(cell, k)]})
    return out


MARK = ("C09-calling-task",)
MID = ("C09-nested-task",)


def in_context(ctx, thunk):
    """Executes thunk() in the calling context; returns (what became of the calling task, value)."""
    if ctx == "CTop":
        return "CallerNone", thunk()
    if ctx == "CGen":
        @asynq_deco()
        def outer():
            yield ConstFuture(0)
            r = thunk()
            return (MARK, r)
    elif ctx == "CPlain":
        @asynq_deco()
        def outer():
            return (MARK, thunk())
    elif ctx == "CNested":
        @asynq_deco()
        def mid():
            return (MID, thunk())

        @asynq_deco()
        def outer():
            yield ConstFuture(0)
            r = mid()
            return (MARK, r)
    else:
        raise ValueError(ctx)
    v = outer()
    if not (isinstance(v, tuple) and len(v) == 2 and v[0] is MARK):
        return "CallerHijacked", v
    v = v[1]
    if ctx == "CNested":
        if not (isinstance(v, tuple) and len(v) == 2 and v[0] is MID):
            return "CallerHijacked", v
        v = v[1]
    return "CallerOwn", v


def outcome_of(cell, status, ctx, thunk):
    try:
        caller, v = in_context(ctx, thunk)
        return caller, {"ROk": [valtree(cell, v)]}
    except BaseException as e:
        if isinstance(e, _common.Hang):
            raise
        if status[0] not in ("SNoAsynqAttr", "SNoAsyncFn"):
            status[0] = "SRaised"
        return ("CallerNone" if ctx == "CTop" else "CallerOwn"), {"RErr": [exn_id(e)]}


WFORM = {"WSync": "Sync", "WAsynq": "AsynqValue", "WAsyncCall": "AsyncCall"}


def warm_up(cell, hist, report=None):
    """the earlier uses of the same attribute, in order, at top level"""
    for path, act, v in hist:
        if act == "WGet":
            t, _ = cell.lookup(path)
            getattr(t, "asynq", None)
            out = "None"
        else:
            t, prefix = cell.lookup(path)
            del cell.log[:]
            r = run_form(cell, WFORM[act], t, prefix + (v,), {}, "CTop")
            out = {"Some": [r[""][1]]}
        if report is not None:
            report.append(out)
    del cell.log[:]


def run_convention(conv, deco, binding, explicit, pos, kw, bk, ctx, hist, report=None):
    cell = build(deco, binding, bk, explicit)
    warm_up(cell, hist, report)
    t, prefix = cell.lookup(binding, explicit)
    return run_form(cell, conv, t, prefix + tuple(pos), kw, ctx)


def run_form(cell, conv, t, args, kw, ctx):
    status = ["SRetFuture"]

    def direct(keep_value):
        r = t(*args, **kw)
        if isinstance(r, FutureBase):
            status[0] = "SRetFuture"
            return r.value()
        status[0] = "SRetValue" if keep_value else "SNotAFuture"
        return r

    if conv == "Sync":
        o = outcome_of(cell, status, ctx, lambda: direct(True))
    elif conv == "AsynqValue":
        def th():
            try:
                a = t.asynq
            except AttributeError:
                status[0] = "SNoAsynqAttr"
                raise
            return a(*args, **kw).value()
        o = outcome_of(cell, status, ctx, th)
    elif conv == "YieldAsynq":
        @asynq_deco()
        def drv():
            try:
                a = t.asynq
            except AttributeError:
                status[0] = "SNoAsynqAttr"
                raise
            v = yield a(*args, **kw)
            return v
        o = outcome_of(cell, status, ctx, drv)
    elif conv == "AsyncCall":
        @asynq_deco()
        def drv2():
            v = yield async_call.asynq(t, *args, **kw)
            return v
        o = outcome_of(cell, status, ctx, drv2)
    elif conv == "YieldDirect":
        def th2():
            r = t(*args, **kw)
            if not isinstance(r, FutureBase):
                status[0] = "SNotAFuture"
                return r

            @asynq_deco()
            def drv3():
                v = yield r
                return v
            return drv3()
        o = outcome_of(cell, status, ctx, th2)
    elif conv == "ViaGetAsync":
        def th3():
            g = get_async_fn(t)
            if g is None:
                status[0] = "SNoAsyncFn"
                raise AttributeError("get_async_fn returned None")
            r = g(*args, **kw)
            if not isinstance(r, FutureBase):
                status[0] = "SNotAFuture"
                return r
            return r.value()
        o = outcome_of(cell, status, ctx, th3)
    elif conv == "ViaGetAsyncOrSync":
        def th4():
            r = get_async_or_sync_fn(t)(*args, **kw)
            if isinstance(r, FutureBase):
                return r.value()
            status[0] = "SRetValue"
            return r
        o = outcome_of(cell, status, ctx, th4)
    else:
        raise ValueError(conv)
    return {"": [o[0], {"": [status[0], records(cell), o[1]]}]}


CONVS = ["Sync", "AsynqValue", "YieldAsynq", "AsyncCall", "YieldDirect", "ViaGetAsync", "ViaGetAsyncOrSync"]


def b(x):
    return "true" if x else "false"


def safe(f, t):
    try:
        return b(f(t))
    except Exception as e:
        return {"ClassifierRaised": [{"s": type(e).__name__}]}


def fn_kind(t, g, has_attr):
    if g is None:
        return "GNone"
    if g is t:
        return "GSelf"
    if has_attr and g == t.asynq:
        return "GAsynqAttr"
    return "GOther"


def classify(deco, binding, bk, hist):
    cell = build(deco, binding, bk)
    warm_up(cell, hist)
    t, _ = cell.lookup(binding)
    has_attr = hasattr(t, "asynq")
    gk = fn_kind(t, get_async_fn(t), has_attr)
    hk = fn_kind(t, get_async_or_sync_fn(t), has_attr)
    w = get_async_fn(t, wrap_if_none=True)
    cls = {"": [safe(is_async_fn, t), safe(is_pure_async_fn, t), safe(has_async_fn, t), gk, hk]}
    extra = {"wrap_if_none_pure": bool(w is not None and is_pure_async_fn(w)), "log_len": len(cell.log)}
    # how the callable can actually be called, observed with arguments that bind (a=1): does the direct
    # call hand back a future, is there a usable .asynq
    probe = build(deco, binding, bk)
    warm_up(probe, hist)
    try:
        t, prefix = probe.lookup(binding)
        r = t(*(prefix + (1,)))
        extra["probe_direct"] = "future" if isinstance(r, FutureBase) else "value"
        if isinstance(r, FutureBase):
            r.value()
    except BaseException as e:          # AsyncTaskResult is a GeneratorExit
        if isinstance(e, _common.Hang):
            raise
        extra["probe_direct"] = "raised:" + type(e).__name__
    probe = build(deco, binding, bk)
    warm_up(probe, hist)
    try:
        t, prefix = probe.lookup(binding)
        r = t.asynq(*(prefix + (1,)))
        extra["probe_asynq"] = "future" if isinstance(r, FutureBase) else "value"
        if isinstance(r, FutureBase):
            r.value()
    except AttributeError:
        extra["probe_asynq"] = "absent"
    except BaseException as e:
        if isinstance(e, _common.Hang):
            raise
        extra["probe_asynq"] = "raised:" + type(e).__name__
    return cls, extra


def run_case(c):
    deco, binding, explicit, pos, kwl, bk, ctx, histl = c["args"]
    hist = [tuple(w[""]) for w in histl]
    bk = tuple(bk["BK"])
    explicit = explicit == "true"
    kw = {}
    for item in kwl:
        name, v = item[""]
        kw[{"Ka": "a", "Kb": "b", "Kk": "k", "Kz": "z"}[name]] = v
    report = []
    convs = [run_convention(cv, deco, binding, explicit, pos, kw, bk, ctx, hist, report if cv == "Sync" else None) for cv in CONVS]
    cl, extra = classify(deco, binding, bk, hist)
    return {"out": {"": [convs, cl, report]}, "extra": extra}


if __name__ == "__main__":
    _common.main(run_case)
