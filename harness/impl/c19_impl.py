"""C19 implementation runner: drives asynq.mock.patch / patch.object over a fresh namespace per case.

case = {"tks": [target kind...], "ps": [[target, replacement kind, behaviour, share]...], "api": ["patch"|"object"...],
        "ops": [op...], "reuse": bool}  with the op constructors of Mock.v (OEnter/OExit/OStart/OStop/OStopAll/OProbe).
"share" (default: the patcher's own index) = the lowest patcher that is given the SAME caller-supplied object as new=
(only for explicit replacements; every patch()/patch.object() call is still made separately, so _maybe_wrap_new
wraps a shared function / bound method once per patcher).
"reuse" (default true): a patcher used as a decorator decorates ONE function / class, which is then called once per
activation (false: a new function / class is decorated for every activation).
Object identity: the object a patcher installs is {"ONew": [p, g]}; for a replacement that unittest.mock builds per
activation (default mock, new_callable) g = number of earlier successful activations of p, otherwise 0; an explicit
object that is installed as is and shared by several patchers is {"ONew": [share, 0]} in every slot.  Every given /
per-activation object carries its own body, so a call records WHICH object's code it reached (a shared function
wrapped once per patcher records {"ONew": [share, 0]}).
Behaviour (what the replacement's body does): BRaise | BRet (a plain tuple naming the object whose code ran and what it
received) | a result of another KIND, made per call and remembered so that the probe can tell by IDENTITY whether a
convention delivered the very object the body returned: BRetNone (None), BRetExc (an exception instance as data), BRetFut
(a computed ConstFuture AS THE RESULT), BRetTask (a not yet started AsyncTask), BRetBatch (an unflushed batch item).
Output: {"out": (per-op results, final own slot per target, #patches still registered as started),
         "obs": per-op observations for the monitors, "construct": per-patcher construction notes}
"""
import asyncio
import functools
import sys
import types
from unittest import mock

import _common
from asynq import asynq, ConstFuture, BatchBase, BatchItemBase
from asynq.mock_ import patch

SELF, CLS = -100, -200
ABSENT = object()
_counter = [0]


class VErr(Exception):
    def __init__(self, i):
        Exception.__init__(self, i)
        self.vid = i


class Marker(Exception):
    """the exception that leaves a with-block / decorated function / start-stop region"""


class Env(object):
    pass


def b(x):
    return x == "true" or x is True


def opname(o):
    if isinstance(o, str):
        return o, []
    (k, a), = o.items()
    return k, a


def exn_id(e):
    if isinstance(e, AttributeError):
        return -19
    if isinstance(e, TypeError):
        return -1
    if isinstance(e, RuntimeError):
        return -9
    return {"Unexpected": [{"s": type(e).__name__}]}


RESULT_KINDS = ("BRetNone", "BRetExc", "BRetFut", "BRetTask", "BRetBatch")


class _ResultBatch(BatchBase):
    def _try_switch_active_batch(self):
        pass

    def _flush(self):
        for item in self.items:
            item.set_value(item.payload)

    def _cancel(self):
        pass


class _ResultItem(BatchItemBase):
    def __init__(self, batch, payload):
        BatchItemBase.__init__(self, batch)
        self.payload = payload


def make_result(beh, payload):
    """the object a replacement with a non-plain result kind returns for one call; `payload` is what a future among
    them holds / would compute (so that 'one level too many was taken off' is recognisable)"""
    if beh == "BRetNone":
        return None
    if beh == "BRetExc":
        e = VErr(payload[2])
        e.payload = payload
        return e
    if beh == "BRetFut":
        return ConstFuture(payload)
    if beh == "BRetTask":
        @asynq()
        def inner():
            return payload
        return inner.asynq()
    if beh == "BRetBatch":
        return _ResultItem(_ResultBatch(), payload)
    raise ValueError(beh)


PER_ACTIVATION = ("RDefault", "RNcMock", "RNcObj", "RNcSlots", "RNcNonCallable", "RNcFrozen", "RNcType", "RNcRaiser")
REFUSING = ("RNcSlots", "RNcFrozen", "RNcType", "RNcRaiser")


def build_env(case):
    env = Env()
    _counter[0] += 1
    env.modname = "c19_tmod_%d" % _counter[0]
    env.mod = types.ModuleType(env.modname)
    sys.modules[env.modname] = env.mod
    env.calls = []
    env.results = []       # (behaviour, object, payload) per call of a replacement with a non-plain result kind
    env.tks = case["tks"]

    def canon(args):
        out = []
        for a in args:
            if a is env.inst:
                out.append(SELF)
            elif a is env.Cls:
                out.append(CLS)
            elif isinstance(a, int):
                out.append(a)
            else:
                out.append({"s": type(a).__name__})
        return out
    env.canon = canon

    def orig_body(t):
        def original(*a):
            yield ConstFuture(None)
            rec = canon(a)
            env.calls.append(({"OOrig": [t]}, rec))
            return ("ret", "orig", [t], tuple(map(str, rec)))
        original.__name__ = "original%d" % t
        return original

    ns = {}
    env.names = []
    env.orig = []
    for t, tk in enumerate(env.tks):
        name = "x%d" % t
        env.names.append(name)
        if tk == "TModFn":
            o = asynq()(orig_body(t))
            setattr(env.mod, name, o)
        elif tk in ("TMethod", "TInstMethod"):
            o = asynq()(orig_body(t))
            ns[name] = o
        elif tk == "TClassmethod":
            o = asynq()(classmethod(orig_body(t)))
            ns[name] = o
        elif tk == "TStaticmethod":
            o = asynq()(staticmethod(orig_body(t)))
            ns[name] = o
        elif tk == "TAttr":
            o = "plain-attribute-%d" % t
            ns[name] = o
        else:
            raise ValueError(tk)
        env.orig.append(o)
    env.Cls = type("Cls", (object,), ns)
    env.Cls.__module__ = env.modname
    env.mod.Cls = env.Cls
    env.inst = env.Cls()
    env.mod.inst = env.inst
    return env


def own_dict(env, t):
    tk = env.tks[t]
    if tk == "TModFn":
        return env.mod.__dict__
    if tk == "TInstMethod":
        return env.inst.__dict__
    return env.Cls.__dict__


def access_holder(env, t):
    tk = env.tks[t]
    if tk == "TModFn":
        return env.mod
    if tk in ("TMethod", "TInstMethod"):
        return env.inst
    return env.Cls


def make_replacement(env, p, rk, beh, share=None):
    """returns (kwargs for patch(), given object or None)"""
    if share is not None and share != p and rk not in PER_ACTIVATION and env.given.get(share) is not None:
        # the very object patcher `share` was given; its code records {"ONew": [share, 0]}
        return {"new": env.given[share]}, env.given[share]
    def gbody(g, *a):
        """the code of the object made by activation g of patcher p (g = 0: the one explicit object)"""
        rec = env.canon(a)
        env.calls.append(({"ONew": [p, g]}, rec))
        if beh == "BRaise":
            raise VErr([p, g])
        payload = ("ret", "new", [p, g], tuple(map(str, rec)))
        if beh == "BRet":
            return payload
        r = make_result(beh, payload)
        env.results.append((beh, r, payload))
        return r
    env.bodies[p] = gbody

    def body(*a):
        return gbody(0, *a)

    def gen_of(o):
        for g, x in enumerate(env.installed.get(p, [])):
            if x is o:
                return g
        return -1           # an object that was never handed out by a successful activation

    def plain(*a):
        return body(*a)

    class Holder(object):
        def method(self, *a):
            return body(*a)

    class CallableObj(object):
        def __call__(self, *a):
            return gbody(gen_of(self) if rk in PER_ACTIVATION else 0, *a)

    class SlotsCallable(object):
        __slots__ = ()

        def __call__(self, *a):
            return gbody(gen_of(self) if rk in PER_ACTIVATION else 0, *a)

    class FrozenCallable(object):      # like a Cython cdef class: TypeError
        def __setattr__(self, k, v):
            raise TypeError("cannot set %r" % k)

        def __call__(self, *a):
            return gbody(gen_of(self) if rk in PER_ACTIVATION else 0, *a)

    class RaisingCallable(object):     # a __setattr__ with its own exception class
        def __setattr__(self, k, v):
            raise RuntimeError("attributes are frozen: %r" % k)

        def __call__(self, *a):
            return gbody(gen_of(self), *a)

    SlotsObj = SlotsCallable if p % 2 else FrozenCallable

    if rk == "RDefault":
        return {}, None
    if rk == "RFunc":
        return {"new": plain}, plain
    if rk == "RClassmethod":
        def cplain(cls, *a):
            return body(cls, *a)
        g = classmethod(cplain)
        return {"new": g}, g
    if rk == "RStaticmethod":
        g = staticmethod(plain)
        return {"new": g}, g
    if rk == "RAsynqFn":
        g = asynq()(plain)
        return {"new": g}, g
    if rk == "RBound":
        g = Holder().method
        return {"new": g}, g
    if rk == "RCallableObj":
        g = CallableObj()
        return {"new": g}, g
    if rk == "RMockObj":
        # a Mock / MagicMock instance given as new= (not made by unittest.mock per activation)
        g = (mock.MagicMock if p % 2 == 0 else mock.Mock)(side_effect=body)
        return {"new": g}, g
    if rk == "RClassObj":
        class FakeClass(object):
            def __new__(cls, *a):
                return body(*a)
        return {"new": FakeClass}, FakeClass
    if rk == "RSlotsObj":
        g = SlotsObj()
        return {"new": g}, g
    if rk == "RNonCallable":
        g = "replacement-%d" % p
        return {"new": g}, g
    if rk == "RNcMock":
        return {"new_callable": mock.MagicMock}, None
    if rk == "RNcObj":
        return {"new_callable": lambda: CallableObj()}, None
    if rk == "RNcSlots":
        return {"new_callable": lambda: SlotsCallable()}, None
    if rk == "RNcFrozen":
        return {"new_callable": lambda: FrozenCallable()}, None
    if rk == "RNcType":
        # an immutable builtin type is callable and rejects attribute assignment with TypeError
        return {"new_callable": lambda: (dict, int, frozenset)[p % 3]}, None
    if rk == "RNcRaiser":
        return {"new_callable": lambda: RaisingCallable()}, None
    if rk == "RNcNonCallable":
        return {"new_callable": mock.NonCallableMock}, None
    raise ValueError(rk)


def construct(env, p, spec, api):
    t, rk, beh, share = spec
    kw, given = make_replacement(env, p, rk, beh, share)
    env.given[p] = given
    tk = env.tks[t]
    name = env.names[t]
    note = []

    def mk(extra):
        k = dict(kw)
        k.update(extra)
        if tk == "TInstMethod":
            return patch.object(env.inst, name, **k)
        if api == "object":
            return patch.object(env.mod if tk == "TModFn" else env.Cls, name, **k)
        if tk == "TModFn":
            return patch("%s.%s" % (env.modname, name), **k)
        return patch("%s.Cls.%s" % (env.modname, name), **k)
    try:
        return mk({}), note
    except Exception as e:
        note.append(type(e).__name__)
        if "new_callable" in kw:
            # keep exercising the rest of the case: the documented stdlib default for autospec
            return mk({"autospec": None}), note
        raise


def run_case(c):
    env = build_env(c)
    env.bodies = {}
    env.given = {}
    env.installed = {}
    ops = c["ops"]
    specs = [list(s[""] if isinstance(s, dict) else s) for s in c["ps"]]
    specs = [s if len(s) > 3 else s + [p] for p, s in enumerate(specs)]
    api = c.get("api") or ["object"] * len(specs)
    patchers = []
    construct_notes = []
    for p, s in enumerate(specs):
        pt, note = construct(env, p, s, api[p])
        patchers.append(pt)
        construct_notes.append(note)
    res = [None] * len(ops)
    obs = [None] * len(ops)
    default_like = PER_ACTIVATION
    reuse = c.get("reuse", True)
    decorated = {}

    def ident(o):
        if o is ABSENT:
            return "None"
        for t, x in enumerate(env.orig):
            if o is x:
                return {"Some": [{"OOrig": [t]}]}
        # an explicit replacement: what patch() kept as .new (the given object itself, or this patcher's own
        # AsyncAndSyncPairDecorator / Wrapper around it); a shared as-is object is named after its first patcher
        for p in range(len(specs)):
            if specs[p][1] not in PER_ACTIVATION and o is patchers[p].new:
                return {"Some": [{"ONew": [p, 0]}]}
        for p in sorted(env.installed, reverse=True):
            for g, x in enumerate(env.installed[p]):
                if o is x:
                    return {"Some": [{"ONew": [p, g if specs[p][1] in PER_ACTIVATION else 0]}]}
        return {"Unknown": [{"s": type(o).__name__}]}

    def own_slots():
        return [ident(own_dict(env, t).get(env.names[t], ABSENT)) for t in range(len(env.tks))]

    def observe(k):
        obs[k] = {"own": own_slots()}

    def on_entered(p, m):
        env.installed.setdefault(p, []).append(m)   # a DEFAULT patcher makes a new mock per activation
        rk = specs[p][1]
        if rk in ("RDefault", "RNcMock"):
            m.side_effect = functools.partial(env.bodies[p], len(env.installed[p]) - 1)

    def probe(k, t, args):
        name = env.names[t]
        slot = own_dict(env, t).get(name, ABSENT)
        cur = slot if slot is not ABSENT else env.Cls.__dict__.get(name, ABSENT)
        holder = access_holder(env, t)
        o = {"own": own_slots(), "convs": [], "as_is": []}
        for p, g in sorted(env.given.items()):
            if g is not None and cur is g:
                o["as_is"].append(p)
        acc = getattr(holder, name, ABSENT)
        if acc is ABSENT or not callable(acc):
            res[k] = {"RProbe": [ident(cur), []]}
            obs[k] = o
            return

        def c_sync():
            return getattr(holder, name)(*args)

        def c_value():
            return getattr(holder, name).asynq(*args).value()

        def c_yield():
            @asynq()
            def task():
                r = yield getattr(holder, name).asynq(*args)
                return r
            return task()

        def c_asyncio():
            return asyncio.run(getattr(holder, name).asyncio(*args))
        cs = []
        for cname, f in (("CSync", c_sync), ("CValue", c_value), ("CYield", c_yield), ("CAsyncio", c_asyncio)):
            del env.calls[:]
            del env.results[:]
            try:
                r = f()
                if len(env.results) == 1:
                    # the body returned a remembered object: did the caller get that very object?
                    rb, robj, rpay = env.results[0]
                    if r is robj:
                        outcome = ["ret", [rb, "new", rpay[2], list(rpay[3])]]
                    elif r == rpay and rb != "BRetNone":
                        outcome = ["ret", {"s": "inner value of the returned %s" % type(robj).__name__}, "unwrapped-" + rb]
                    else:
                        outcome = ["ret", {"s": repr(r)[:60]}, "not-the-returned-object-" + rb]
                else:
                    outcome = ["ret", [r[0], r[1], r[2], list(r[3])] if isinstance(r, tuple) and len(r) == 4 and r[0] == "ret" else {"s": repr(r)[:60]}]
            except _common.Hang:
                raise
            except BaseException as e:
                outcome = ["raise", type(e).__name__, getattr(e, "vid", None)]
            calls = [[w, rec] for (w, rec) in env.calls]
            o["convs"].append({"conv": cname, "calls": calls, "outcome": outcome})
            if len(calls) == 1:
                who, rec = calls[0]
                wid = list(who.values())[0]
                wtag = "orig" if "OOrig" in who else "new"
                if outcome[0] == "ret" and outcome[1] == ["ret", wtag, wid, [str(x) for x in rec]]:
                    cs.append({"CReached": [who, rec, "BRet"]})
                    continue
                if outcome[0] == "ret" and len(outcome) == 2 and isinstance(outcome[1], list) and outcome[1][0] in RESULT_KINDS \
                        and wtag == "new" and outcome[1][1:] == ["new", wid, [str(x) for x in rec]]:
                    cs.append({"CReached": [who, rec, outcome[1][0]]})
                    continue
                if outcome[0] == "raise" and outcome[1] == "VErr" and wtag == "new" and outcome[2] == wid:
                    cs.append({"CReached": [who, rec, "BRaise"]})
                    continue
            if not calls and outcome[0] == "raise" and outcome[1] == "TypeError":
                cs.append("CNotCallable")
                continue
            if not calls and outcome[0] == "raise" and outcome[1] == "AttributeError" and cname != "CSync":
                cs.append("CDetached")
                continue
            cs.append({"CBad": [{"s": "%d calls, outcome %s" % (len(calls), outcome[:2])}]})
        res[k] = {"RProbe": [ident(cur), cs]}
        obs[k] = o

    def find_exit(k, hi):
        depth = 0
        for j in range(k + 1, hi):
            n, a = opname(ops[j])
            if n == "OEnter":
                depth += 1
            elif n == "OExit":
                if depth == 0:
                    return j
                depth -= 1
        return None

    def block(k, j, enter_fn):
        """ops[k] = OEnter p sty, ops[j] = matching OExit.  enter_fn(body) runs `body(m)` inside the
        activation (with-block / decorated function / decorated class method)."""
        n, (p, sty) = opname(ops[k])
        n2, (p2, sty2, exc) = opname(ops[j])
        if p2 != p:
            raise ValueError("enter/exit brackets do not nest")
        st = {"entered": False, "body_done": False}

        def body(m):
            st["entered"] = True
            res[k] = {"RO": ["RDone"]}
            on_entered(p, m)
            observe(k)
            run_ops(k + 1, j)
            st["body_done"] = True
            if b(exc):
                raise Marker()
        try:
            enter_fn(body)
            res[j] = {"RO": ["RDone"]}
        except Marker:
            res[j] = {"RO": ["RDone"]}
        except _common.Hang:
            raise
        except BaseException as e:
            if not st["entered"]:
                # activation failed: the flat op sequence goes on outside the block
                res[k] = {"RO": [{"RFail": [exn_id(e)]}]}
                observe(k)
                run_ops(k + 1, j)
                try:
                    patchers[p].__exit__(None, None, None)
                    res[j] = {"RO": ["RDone"]}
                except BaseException as e2:
                    res[j] = {"RO": [{"RFail": [exn_id(e2)]}]}
            elif st["body_done"]:
                res[j] = {"RO": [{"RFail": [exn_id(e)]}]}
            else:
                raise
        observe(j)

    def stacked_chain(k, j):
        """[(k, j, p)...] for `@p1 @p2 .. def f`: OEnter p SDecor directly followed by OEnter q SDecorStack
        whose exits are directly adjacent and leave the same way."""
        chain = [(k, j, opname(ops[k])[1][0])]
        while True:
            k2, j2 = chain[-1][0] + 1, chain[-1][1] - 1
            if k2 >= j2:
                break
            n, a = opname(ops[k2])
            if n != "OEnter" or a[1] != "SDecorStack" or find_exit(k2, j2 + 1) != j2:
                break
            if opname(ops[j2])[1][2] != opname(ops[j])[1][2] or opname(ops[j2])[1][0] != a[0]:
                break
            chain.append((k2, j2, a[0]))
        if any(specs[p][1] in REFUSING for _, _, p in chain) or len(set(p for _, _, p in chain)) != len(chain):
            return chain[:1]
        return chain

    def run_stacked(chain):
        k0, j0, _ = chain[0]
        kl, jl, _ = chain[-1]
        exc = opname(ops[j0])[1][2]
        st = {"entered": False, "body_done": False}

        def fn(*margs):
            st["entered"] = True
            margs = list(margs)
            for kk, jj, p in chain:
                res[kk] = {"RO": ["RDone"]}
                on_entered(p, margs.pop(0) if specs[p][1] in default_like else patchers[p].new)
                obs[kk] = None          # the states between the stacked activations cannot be observed
            observe(kl)
            run_ops(kl + 1, jl)
            st["body_done"] = True
            if b(exc):
                raise Marker()
        f = fn
        for kk, jj, p in chain:          # the first applied decorator is entered first
            f = patchers[p](f)
        try:
            try:
                f()
            except Marker:
                pass
            for kk, jj, p in chain:
                res[jj] = {"RO": ["RDone"]}
        except _common.Hang:
            raise
        except BaseException as e:
            if not st["entered"]:
                return False            # an activation failed: run the block again, one function per decorator
            if not st["body_done"]:
                raise
            for kk, jj, p in chain:
                res[jj] = {"RO": [{"RFail": [exn_id(e)]}]}
        for kk, jj, p in chain:
            obs[jj] = None
        observe(j0)
        return True

    def run_ops(lo, hi):
        k = lo
        while k < hi:
            n, a = opname(ops[k])
            if n == "OEnter":
                p, sty = a
                j = find_exit(k, hi)
                if j is None:
                    raise ValueError("unmatched OEnter")
                pt = patchers[p]
                dl = specs[p][1] in default_like
                if sty == "SWith":
                    def enter_fn(body, pt=pt):
                        with pt as m:
                            body(m)
                elif sty in ("SDecor", "SDecorStack"):
                    chain = stacked_chain(k, j)
                    if len(chain) > 1 and run_stacked(chain):
                        k = j + 1
                        continue

                    def enter_fn(body, pt=pt, dl=dl, p=p):
                        # one decorated function per patcher, called once per activation (decorate_callable
                        # keeps the patcher in fn.patchings); with reuse=false a new function each time
                        if not reuse or (p, "fn") not in decorated:
                            cell = {}

                            def fn(*margs):
                                cell["body"](margs[-1] if dl else pt.new)
                            decorated[(p, "fn")] = (pt(fn), cell)
                        f, cell = decorated[(p, "fn")]
                        cell["body"] = body
                        f()
                elif sty == "SDecorCls":
                    def enter_fn(body, pt=pt, dl=dl, p=p):
                        # decorate_class installs a copy() of the patcher on every test_ method; calling the
                        # method again re-activates that copy
                        if not reuse or (p, "cls") not in decorated:
                            cell = {}

                            class T(object):
                                def test_it(self, *margs):
                                    cell["body"](margs[-1] if dl else pt.new)

                                def helper(self):
                                    return None
                            decorated[(p, "cls")] = (pt(T), cell)
                        T2, cell = decorated[(p, "cls")]
                        cell["body"] = body
                        T2().test_it()
                else:
                    raise ValueError(sty)
                block(k, j, enter_fn)
                k = j + 1
                continue
            if n == "OExit":
                raise ValueError("unmatched OExit")
            if n == "OStart":
                p = a[0]
                try:
                    m = patchers[p].start()
                    on_entered(p, m)
                    res[k] = {"RO": ["RDone"]}
                except _common.Hang:
                    raise
                except BaseException as e:
                    res[k] = {"RO": [{"RFail": [exn_id(e)]}]}
                observe(k)
            elif n in ("OStop", "OStopAll"):
                exc = a[-1]
                fn = patchers[a[0]].stop if n == "OStop" else patch.stopall
                try:
                    if b(exc):
                        try:
                            try:
                                raise Marker()
                            finally:
                                fn()
                        except Marker:
                            pass
                    else:
                        fn()
                    res[k] = {"RO": ["RDone"]}
                except _common.Hang:
                    raise
                except BaseException as e:
                    res[k] = {"RO": [{"RFail": [exn_id(e)]}]}
                observe(k)
            elif n == "OProbe":
                probe(k, a[0], a[1])
            else:
                raise ValueError(n)
            k += 1

    try:
        run_ops(0, len(ops))
        final = own_slots()
        nactive = len(mock._patch._active_patches)
    finally:
        try:
            mock.patch.stopall()
        except BaseException:
            del mock._patch._active_patches[:]
        sys.modules.pop(env.modname, None)
    return {"out": {"": [res, final, nactive]}, "obs": obs, "construct": construct_notes}


if __name__ == "__main__":
    _common.main(run_case)
