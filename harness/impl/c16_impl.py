"""C16 implementation runner: N real threads, each running a generated asynq program (op list) on the
real library, concurrently (tiny switch interval, repeated) and alone; per-thread event traces.

Everything the traces contain is read through public surface: DebugBatchItem / batch.index / item.index,
scheduler.on_before_batch_flush, get_active_task(), get_scheduler() + str(), profiler.flush(),
AsyncContext subclasses, AsyncScopedValue, deduplicate, fn.asyncio().  (`scheduler._batches` is read only
to flag priority ties, which make the flush order legitimately unspecified.)"""
import asyncio
import contextlib
import re
import sys
import threading

import _common
import asynq
from asynq import asynq as asynq_deco, AsyncContext, AsyncScopedValue
from asynq.tools import deduplicate
from asynq import scheduler as asched, profiler, _debug
from asynq.batching import DebugBatchItem
from asynq.asynq_to_async import is_asyncio_mode

tl = threading.local()          # the runner's own per-thread handle on "its" environment
RUN = None                      # the run in progress (runs are sequential)


def T(b):
    return "true" if b else "false"


class Env(object):
    def __init__(self, run, tid):
        self.run = run
        self.tid = tid
        self.trace = []          # list (one per op) of event lists: compared with the model
        self.cur = None
        self.extra = []          # compared solo vs concurrent only (full profiler names, ...)
        self.anoms = []          # observations of another thread's state
        self.tie = False
        self.sv = AsyncScopedValue(0)
        self.top_items = []
        self.last_item = {}
        self.thread = None
        self.sched = None
        self.exc = None

    def log(self, ev):
        self.cur.append(ev)

    def anomaly(self, what):
        self.anoms.append(what)
        self.cur.append({"EAnomaly": [{"s": what}]})


class Run(object):
    def __init__(self, n):
        self.envs = [Env(self, i) for i in range(n)]
        self.task_owner = {}     # id(dleaf task) -> (task, tid)   (strong refs: ids stay unique)
        self.sched_owner = {}    # id(scheduler) -> (scheduler, tid)
        self.lock = threading.Lock()


def here(E, what):
    """The code of thread E.tid's program must run on E's thread."""
    if getattr(tl, "env", None) is not E:
        other = getattr(tl, "env", None)
        E.anomaly("%s:ran-on-foreign-thread" % what)
        if other is not None:
            other.anomaly("%s:ran-foreign-code" % what)
        return False
    return True


def task_name(E, t):
    """Name of an observed task, as this thread's program knows it; flags tasks of other threads."""
    if t is None:
        return "None"
    fn = getattr(t.fn, "__name__", "?")
    if fn in ("node", "leaf"):
        if t.args[0] != E.tid:
            E.anomaly("active-task:foreign-%s" % fn)
        return {"Some": [{"TN": [t.args[1]]}]}
    if fn == "dleaf":
        own = E.run.task_owner.get(id(t))
        if own is not None and own[0] is t and own[1] != E.tid:
            E.anomaly("active-task:foreign-dleaf")
        return {"Some": [{"TD": [t.args[0], t.args[1]]}]}
    return {"Some": [{"TOther": [{"s": fn}]}]}


def probe(E, nm, pt):
    at = asynq.scheduler.get_active_task()
    s = asynq.scheduler.get_scheduler()
    if s is not E.sched:
        E.anomaly("scheduler:changed-under-program")
    if is_asyncio_mode():
        E.anomaly("asyncio-mode:visible-in-asynq-thread")
    E.log({"EProbe": [nm, pt, task_name(E, at), E.sv.get()]})


class LogCtx(AsyncContext):
    def __init__(self, E, cid):
        self.E = E
        self.cid = cid

    def resume(self):
        here(self.E, "context-resume")
        self.E.log({"ECtx": ["true", self.cid]})

    def pause(self):
        here(self.E, "context-pause")
        self.E.log({"ECtx": ["false", self.cid]})


def mkctx(E, ctx):
    if ctx == "CNone":
        return contextlib.nullcontext()
    (k, a), = ctx.items()
    if k == "CLog":
        return LogCtx(E, a[0])
    if k == "COv":
        return E.sv.override(a[0])
    raise ValueError(ctx)


def new_item(E, kind, key):
    it = DebugBatchItem("k%d" % kind, (E.tid, kind, key))
    b = it.batch
    for other in b.items:
        if other._result[0] != E.tid:
            E.anomaly("debug-batch:foreign-item-in-my-batch")
            break
    E.last_item[kind] = it
    E.log({"EItem": [kind, key, b.index, it.index, it._id]})
    return it


def item_value(E, v):
    if not (isinstance(v, tuple) and len(v) == 3):
        return {"RBad": [{"s": repr(v)[:40]}]}
    if v[0] != E.tid:
        E.anomaly("result:foreign-value")
    return {"RInt": [v[2]]}


def mk(E, c):
    (k, a), = c.items()
    if k == "Node":
        return node.asynq(E.tid, a[0], a[1], a[2])
    if k == "Leaf":
        return leaf.asynq(E.tid, a[0], a[1], a[2], a[3])
    if k == "DLeaf":
        t = dleaf.asynq(a[0], a[1])
        with E.run.lock:
            own = E.run.task_owner.setdefault(id(t), (t, E.tid))
        if own[0] is t and own[1] != E.tid:
            E.anomaly("deduplicate:got-foreign-task")
        return t
    raise ValueError(c)


@asynq_deco()
def node(tid, n, ctx, children):
    E = RUN.envs[tid]
    here(E, "task-body")
    nm = {"TN": [n]}
    probe(E, nm, 0)
    with mkctx(E, ctx):
        futs = [mk(E, c) for c in children]
        rs = yield futs
        probe(E, nm, 1)
    probe(E, nm, 2)
    return {"RList": [rs]}


@asynq_deco()
def leaf(tid, n, ctx, kind, key):
    E = RUN.envs[tid]
    here(E, "task-body")
    nm = {"TN": [n]}
    probe(E, nm, 0)
    with mkctx(E, ctx):
        v = yield new_item(E, kind, key)
        probe(E, nm, 1)
    probe(E, nm, 2)
    return item_value(E, v)


@deduplicate()
@asynq_deco()
def dleaf(kind, key):
    E = tl.env
    nm = {"TD": [kind, key]}
    probe(E, nm, 0)
    v = yield new_item(E, kind, key)
    probe(E, nm, 1)
    probe(E, nm, 2)
    return item_value(E, v)


@asynq_deco()
def aio_fn(v):
    tl.env.aio_inside = is_asyncio_mode()
    return v


def on_flush(E, s):
    def cb(batch):
        here(E, "batch-flush")
        keys = []
        for it in batch.items:
            r = it._result
            if r[0] != E.tid:
                E.anomaly("debug-batch:foreign-item-flushed")
            keys.append(r[2])
        n = len(batch.items)
        for b in s._batches:
            if b is not batch and not b.is_flushed() and len(b.items) == n:
                E.tie = True
        E.log({"EFlush": ["false", int(batch.name[1:]), batch.index, keys]})
    return cb


def adopt_scheduler(E):
    s = asynq.scheduler.get_scheduler()
    E.sched = s
    with E.run.lock:
        own = E.run.sched_owner.setdefault(id(s), (s, E.tid))
    if own[0] is s and own[1] != E.tid:
        E.anomaly("scheduler:shared-with-another-thread")
    s.on_before_batch_flush.subscribe(on_flush(E, s))


_sched_re = re.compile(r"\((\d+) tasks, (\d+) batches; active task: (.*)\)$", re.S)


def exec_op(E, op):
    if isinstance(op, str):
        k, a = op, []
    else:
        (k, a), = op.items()
    if k == "OItem":
        E.top_items.append(new_item(E, a[0], a[1]))
    elif k == "OFlush":
        it = E.last_item.get(a[0])
        if it is None or it.batch.is_flushed():
            E.log({"ENoFlush": [a[0]]})
        else:
            b = it.batch
            keys = []
            for x in b.items:
                if x._result[0] != E.tid:
                    E.anomaly("debug-batch:foreign-item-flushed")
                keys.append(x._result[2])
            E.log({"EFlush": ["true", a[0], b.index, keys]})
            b.flush()
    elif k == "ORun":
        root = mk(E, a[0])
        r = root.value()
        E.log({"EResult": [r]})
    elif k == "OProf":
        ents = []
        for st in profiler.flush():
            name = st.get("name", "")
            if len(name) > 7 and name[:6].isdigit() and name[6] == ".":
                ents.append({"PTask": [int(name[:6])]})
            else:
                ents.append("PBatch")
            E.extra.append([name, st.get("num_deps"), [d[0] for d in st.get("dependencies", [])]])
        E.log({"EProf": [ents]})
    elif k == "OSched":
        s = asynq.scheduler.get_scheduler()
        if s is not E.sched:
            E.anomaly("scheduler:changed-under-program")
        tname, _, sid = s.name.rpartition(" / ")
        if tname != threading.current_thread().name:
            E.anomaly("scheduler:named-after-another-thread")
        m = _sched_re.search(str(s))
        at = asynq.scheduler.get_active_task()
        if m is None:
            E.log({"ESched": [int(sid), -1, -1, task_name(E, at)]})
        else:
            if (m.group(3) == "None") != (at is None):
                E.anomaly("scheduler:str-and-get_active_task-disagree")
            E.log({"ESched": [int(sid), int(m.group(1)), int(m.group(2)), task_name(E, at)]})
    elif k == "OReset":
        asynq.scheduler.reset()
        adopt_scheduler(E)
    elif k == "OAio":
        E.aio_inside = None
        r = asyncio.run(aio_fn.asyncio(a[0]))
        E.log({"EAio": [T(E.aio_inside), T(is_asyncio_mode()), r]})
    else:
        raise ValueError(op)


def thread_main(E, prog, barrier):
    try:
        tl.env = E
        E.thread = threading.current_thread()
        barrier.wait()
        E.cur = []
        adopt_scheduler(E)
        if asynq.scheduler.get_active_task() is not None:
            E.anomaly("active-task:not-None-on-a-fresh-thread")
        if profiler.flush():
            E.anomaly("profiler:buffer-not-empty-on-a-fresh-thread")
        for op in prog:
            E.cur = []
            try:
                exec_op(E, op)
            except _common.Hang:
                raise
            except BaseException as e:
                E.log({"EExc": [{"s": type(e).__name__}]})
            E.trace.append(E.cur)
        E.cur = []
        E.log({"EFinal": [[T(it.is_computed()) for it in E.top_items]]})
        E.trace.append(E.cur)
    except BaseException as e:      # outside any op (barrier, first use of the scheduler): part of the trace
        E.trace.append([{"EExc": [{"s": "thread-main:" + type(e).__name__}]}])


def run_threads(progs, which, fast):
    """Runs progs[i] on a fresh thread for each i in `which`, all at the same time."""
    global RUN
    run = Run(len(progs))
    RUN = run
    barrier = threading.Barrier(len(which))
    ths = [threading.Thread(target=thread_main, args=(run.envs[i], progs[i], barrier), name="vt%d" % i, daemon=True)
           for i in which]
    old = sys.getswitchinterval()
    if fast:
        sys.setswitchinterval(1e-6)
    try:
        for t in ths:
            t.start()
        for t in ths:
            t.join()
    finally:
        sys.setswitchinterval(old)
    return run


def first_diff(a, b):
    """Event class at the first difference between two traces (lists of per-op event lists)."""
    for i, (x, y) in enumerate(zip(a, b)):
        if x != y:
            for u, v in zip(x, y):
                if u != v:
                    ku = u if isinstance(u, str) else next(iter(u))
                    kv = v if isinstance(v, str) else next(iter(v))
                    return [i, ku if ku == kv else ku + "/" + kv]
            return [i, "length"]
    return [min(len(a), len(b)), "ops"]


CASE_DEADLINE = 12.0


def run_case(c):
    """Each case runs in a forked child: a hang or threads left spinning by a broken library cannot
    leak into the next case; the parent kills the child at the deadline and reports {"Hang": []}."""
    import json
    import os
    import select
    import signal
    import time
    import traceback
    r, w = os.pipe()
    pid = os.fork()
    if pid == 0:
        try:
            os.close(r)
            signal.alarm(0)
            try:
                out = run_case_here(c)
            except BaseException:
                out = {"ChildError": traceback.format_exc()[-3000:]}
            data = json.dumps(out).encode()
            off = 0
            while off < len(data):
                off += os.write(w, data[off:off + 65536])
        finally:
            os._exit(0)
    os.close(w)
    t0 = time.time()
    chunks = []
    hung = False
    try:
        while True:
            left = CASE_DEADLINE - (time.time() - t0)
            if left <= 0:
                hung = True
                break
            rd, _, _ = select.select([r], [], [], left)
            if not rd:
                hung = True
                break
            b = os.read(r, 1 << 20)
            if not b:
                break
            chunks.append(b)
    finally:
        os.close(r)
        if hung:
            try:
                os.kill(pid, signal.SIGKILL)
            except OSError:
                pass
        os.waitpid(pid, 0)
    if hung:
        return {"Hang": []}
    out = json.loads(b"".join(chunks).decode())
    if "ChildError" in out:
        raise RuntimeError("runner failed in the child process:\n" + out["ChildError"])
    out["wall_s"] = round(time.time() - t0, 3)
    return out


def run_case_here(c):
    progs = c["threads"]
    n = len(progs)
    old = _debug.options.COLLECT_PERF_STATS
    _debug.options.COLLECT_PERF_STATS = bool(c.get("perf"))
    try:
        solo = []
        for i in range(n):
            r = run_threads(progs, [i], False)
            solo.append(r.envs[i])
        conc = []
        for _ in range(c.get("reps", 1)):
            r = run_threads(progs, list(range(n)), True)
            rep = []
            for i in range(n):
                E = r.envs[i]
                S = solo[i]
                d = {"tie": E.tie or S.tie, "anoms": E.anoms}
                if E.trace == S.trace and E.extra == S.extra:
                    d["trace"] = "same"
                else:
                    d["trace"] = E.trace
                    d["diff"] = first_diff(S.trace, E.trace) if E.trace != S.trace else [len(E.trace), "profiler-names"]
                rep.append(d)
            conc.append(rep)
    finally:
        _debug.options.COLLECT_PERF_STATS = old
    return {"solo": [{"trace": S.trace, "tie": S.tie, "anoms": S.anoms, "extra_n": len(S.extra)} for S in solo],
            "conc": conc}


if __name__ == "__main__":
    _common.main(run_case)
