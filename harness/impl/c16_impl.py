"""C16 implementation runner: N real threads, each running a generated asynq program (op list) on the
real library, concurrently (tiny switch interval, repeated) and alone; per-thread event traces.
The threads of a case come in GENERATIONS: the threads of one generation are released together, the next
generation is started only after all of them have been joined (so the OS may hand their idents to the new
threads, and whatever they left behind - un-awaited deduplicated tasks, profiler entries - is still there).

Everything the traces contain is read through public surface: DebugBatchItem / batch.index / item.index,
scheduler.on_before_batch_flush, get_active_task(), get_scheduler() + str(), profiler.flush(),
AsyncContext subclasses, AsyncScopedValue, deduplicate, fn.asyncio().  (`scheduler._batches` is read only
to flag priority ties, which make the flush order legitimately unspecified.)"""
import asyncio
import contextlib
import re
import sys
import threading

import _common
import asynq
from asynq import asynq as asynq_deco, AsyncContext, AsyncScopedValue
from asynq.tools import deduplicate
from asynq import scheduler as asched, profiler, _debug
from asynq.batching import DebugBatchItem
from asynq.asynq_to_async import is_asyncio_mode

tl = threading.local()          # the runner's own per-thread handle on "its" environment
RUN = None                      # the run in progress (runs are sequential)
PERF = False                    # _debug.options.COLLECT_PERF_STATS of the case
LOCK = threading.Lock()
TASK_OWNER = {}                 # id(dleaf task) -> (task, Env that got it first): for the whole case, all runs and
                                # generations (strong refs: ids stay unique)
IDENTS = []                     # threading.get_ident() of every thread of the case that has finished
REUSED = [0]                    # how many threads were given the ident of a finished thread of the case


def T(b):
    return "true" if b else "false"


class Env(object):
    def __init__(self, run, tid):
        self.run = run
        self.tid = tid
        self.trace = []          # list (one per op) of event lists: compared with the model
        self.cur = None
        self.extra = []          # compared solo vs concurrent only (full profiler names, ...)
        self.anoms = []          # observations of another thread's state
        self.tie = False
        self.sv = AsyncScopedValue(0)
        self.top_items = []
        self.last_item = {}
        self.thread = None
        self.sched = None
        self.exc = None

    def log(self, ev):
        self.cur.append(ev)

    def anomaly(self, what):
        self.anoms.append(what)
        self.cur.append({"EAnomaly": [{"s": what}]})


class Req(object):
    """Argument of the deduplicated function: a request compared by (kind, key) only, so two threads asking
    for the same thing build equal, not identical, arguments; remembers the environment that built it."""
    __slots__ = ("kind", "key", "env")

    def __init__(self, kind, key, env):
        self.kind = kind
        self.key = key
        self.env = env

    def __eq__(self, other):
        return isinstance(other, Req) and (self.kind, self.key) == (other.kind, other.key)

    def __ne__(self, other):
        return not self == other

    def __hash__(self):
        return hash((self.kind, self.key))

    def __repr__(self):
        return "Req(%d, %d, t%d)" % (self.kind, self.key, self.env.tid)


def task_id(t):
    """The profiler id handed to a task at creation (async_task.py:85-86); 0 without the option."""
    return getattr(t, "_id", 0) if PERF else 0


class Run(object):
    def __init__(self, n):
        self.envs = [Env(self, i) for i in range(n)]
        self.sched_owner = {}    # id(scheduler) -> (scheduler, tid)
        self.lock = threading.Lock()


def here(E, what):
    """The code of thread E.tid's program must run on E's thread."""
    if getattr(tl, "env", None) is not E:
        other = getattr(tl, "env", None)
        E.anomaly("%s:ran-on-foreign-thread" % what)
        if other is not None:
            other.anomaly("%s:ran-foreign-code" % what)
        return False
    return True


def task_name(E, t):
    """Name of an observed task, as this thread's program knows it; flags tasks of other threads."""
    if t is None:
        return "None"
    fn = getattr(t.fn, "__name__", "?")
    if fn in ("node", "leaf"):
        if t.args[0] != E.tid:
            E.anomaly("active-task:foreign-%s" % fn)
        return {"Some": [{"TN": [t.args[1]]}]}
    if fn == "dleaf":
        own = TASK_OWNER.get(id(t))
        if own is not None and own[0] is t and own[1] is not E:
            E.anomaly("active-task:foreign-dleaf")
        return {"Some": [{"TD": [t.args[0].kind, t.args[0].key]}]}
    return {"Some": [{"TOther": [{"s": fn}]}]}


def probe(E, nm, pt):
    at = asynq.scheduler.get_active_task()
    s = asynq.scheduler.get_scheduler()
    if s is not E.sched:
        E.anomaly("scheduler:changed-under-program")
    if is_asyncio_mode():
        E.anomaly("asyncio-mode:visible-in-asynq-thread")
    E.log({"EProbe": [nm, pt, task_name(E, at), E.sv.get()]})


class LogCtx(AsyncContext):
    def __init__(self, E, cid):
        self.E = E
        self.cid = cid

    def resume(self):
        here(self.E, "context-resume")
        self.E.log({"ECtx": ["true", self.cid]})

    def pause(self):
        here(self.E, "context-pause")
        self.E.log({"ECtx": ["false", self.cid]})


def mkctx(E, ctx):
    if ctx == "CNone":
        return contextlib.nullcontext()
    (k, a), = ctx.items()
    if k == "CLog":
        return LogCtx(E, a[0])
    if k == "COv":
        return E.sv.override(a[0])
    raise ValueError(ctx)


def new_item(E, kind, key):
    it = DebugBatchItem("k%d" % kind, (E.tid, kind, key))
    b = it.batch
    for other in b.items:
        if other._result[0] != E.tid:
            E.anomaly("debug-batch:foreign-item-in-my-batch")
            break
    E.last_item[kind] = it
    E.log({"EItem": [kind, key, b.index, it.index, it._id]})
    return it


def item_value(E, v):
    if not (isinstance(v, tuple) and len(v) == 3):
        return {"RBad": [{"s": repr(v)[:40]}]}
    if v[0] != E.tid:
        E.anomaly("result:foreign-value")
    return {"RInt": [v[2]]}


def call_dleaf(E, kind, key):
    """One call of the shared deduplicated function by E's program; says whether the call made a new
    task or returned an existing one, and whose."""
    t = dleaf.asynq(Req(kind, key, E))
    with LOCK:
        known = id(t) in TASK_OWNER
        own = TASK_OWNER.setdefault(id(t), (t, E))
    if own[0] is t and own[1] is not E:
        E.anomaly("deduplicate:got-foreign-task")
    E.log({"EOld" if known else "ENew": [{"TD": [kind, key]}, task_id(t)]})
    return t


def mk(E, c):
    (k, a), = c.items()
    if k == "Node":
        t = node.asynq(E.tid, a[0], a[1], a[2])
    elif k == "Leaf":
        t = leaf.asynq(E.tid, a[0], a[1], a[2], a[3])
    elif k in ("DLeaf", "Spec"):
        return call_dleaf(E, a[0], a[1])
    else:
        raise ValueError(c)
    E.log({"ENew": [{"TN": [a[0]]}, task_id(t)]})
    return t


@asynq_deco()
def node(tid, n, ctx, children):
    E = RUN.envs[tid]
    here(E, "task-body")
    nm = {"TN": [n]}
    probe(E, nm, 0)
    with mkctx(E, ctx):
        futs = [mk(E, c) for c in children]
        # a Spec child is created (and registered by deduplicate) but not awaited
        rs = yield [f for f, c in zip(futs, children) if "Spec" not in c]
        probe(E, nm, 1)
    probe(E, nm, 2)
    return {"RList": [rs]}


@asynq_deco()
def leaf(tid, n, ctx, kind, key):
    E = RUN.envs[tid]
    here(E, "task-body")
    nm = {"TN": [n]}
    probe(E, nm, 0)
    with mkctx(E, ctx):
        v = yield new_item(E, kind, key)
        probe(E, nm, 1)
    probe(E, nm, 2)
    return item_value(E, v)


@deduplicate()
@asynq_deco()
def dleaf(req):
    E = tl.env
    kind, key = req.kind, req.key
    if req.env is not E:
        E.anomaly("deduplicate:task-made-for-another-thread-ran-here")
    nm = {"TD": [kind, key]}
    probe(E, nm, 0)
    v = yield new_item(E, kind, key)
    probe(E, nm, 1)
    probe(E, nm, 2)
    return item_value(E, v)


@asynq_deco()
def aio_fn(v):
    tl.env.aio_inside = is_asyncio_mode()
    return v


def on_flush(E, s):
    def cb(batch):
        here(E, "batch-flush")
        keys = []
        for it in batch.items:
            r = it._result
            if r[0] != E.tid:
                E.anomaly("debug-batch:foreign-item-flushed")
            keys.append(r[2])
        n = len(batch.items)
        for b in s._batches:
            if b is not batch and not b.is_flushed() and len(b.items) == n:
                E.tie = True
        E.log({"EFlush": ["false", int(batch.name[1:]), batch.index, keys]})
    return cb


def adopt_scheduler(E):
    s = asynq.scheduler.get_scheduler()
    E.sched = s
    with E.run.lock:
        own = E.run.sched_owner.setdefault(id(s), (s, E.tid))
    if own[0] is s and own[1] != E.tid:
        E.anomaly("scheduler:shared-with-another-thread")
    s.on_before_batch_flush.subscribe(on_flush(E, s))


_entry_re = re.compile(r"^\d{6}\.[\w.<>]*?\b(?:(node|leaf)\(\((\d+), (\d+),|dleaf\(\(Req\((\d+), (\d+), t(\d+)\))")


def entry_task(E, name):
    """Which task a profiler entry is about: "%06d.<function>(<args> <kwargs>)" (async_task.py:123-137)."""
    m = _entry_re.match(name)
    if m is None:
        return {"TOther": [{"s": name[7:40]}]}
    if m.group(1):
        if int(m.group(2)) != E.tid:
            E.anomaly("profiler:entry-of-another-thread's-task")
        return {"TN": [int(m.group(3))]}
    if int(m.group(6)) != E.tid:
        E.anomaly("profiler:entry-of-another-thread's-task")
    return {"TD": [int(m.group(4)), int(m.group(5))]}


_sched_re = re.compile(r"\((\d+) tasks, (\d+) batches; active task: (.*)\)$", re.S)


def exec_op(E, op):
    if isinstance(op, str):
        k, a = op, []
    else:
        (k, a), = op.items()
    if k == "OItem":
        E.top_items.append(new_item(E, a[0], a[1]))
    elif k == "OFlush":
        it = E.last_item.get(a[0])
        if it is None or it.batch.is_flushed():
            E.log({"ENoFlush": [a[0]]})
        else:
            b = it.batch
            keys = []
            for x in b.items:
                if x._result[0] != E.tid:
                    E.anomaly("debug-batch:foreign-item-flushed")
                keys.append(x._result[2])
            E.log({"EFlush": ["true", a[0], b.index, keys]})
            b.flush()
    elif k == "ORun":
        c = a[0]
        if "Spec" in c:
            c = {"DLeaf": c["Spec"]}
        root = mk(E, c)
        r = root.value()
        E.log({"EResult": [r]})
    elif k == "OProf":
        ents = []
        for st in profiler.flush():
            name = st.get("name", "")
            if len(name) > 7 and name[:6].isdigit() and name[6] == ".":
                ents.append({"PTask": [entry_task(E, name), int(name[:6])]})
            else:
                ents.append("PBatch")
            E.extra.append([name, st.get("num_deps"), [d[0] for d in st.get("dependencies", [])]])
        E.log({"EProf": [ents]})
    elif k == "OPReset":
        profiler.reset()
    elif k == "OSpec":
        call_dleaf(E, a[0], a[1])        # created outside any task and dropped: never awaited
    elif k == "OSched":
        s = asynq.scheduler.get_scheduler()
        if s is not E.sched:
            E.anomaly("scheduler:changed-under-program")
        tname, _, sid = s.name.rpartition(" / ")
        if tname != threading.current_thread().name:
            E.anomaly("scheduler:named-after-another-thread")
        m = _sched_re.search(str(s))
        at = asynq.scheduler.get_active_task()
        if m is None:
            E.log({"ESched": [int(sid), -1, -1, task_name(E, at)]})
        else:
            if (m.group(3) == "None") != (at is None):
                E.anomaly("scheduler:str-and-get_active_task-disagree")
            E.log({"ESched": [int(sid), int(m.group(1)), int(m.group(2)), task_name(E, at)]})
    elif k == "OReset":
        asynq.scheduler.reset()
        adopt_scheduler(E)
    elif k == "OAio":
        E.aio_inside = None
        r = asyncio.run(aio_fn.asyncio(a[0]))
        E.log({"EAio": [T(E.aio_inside), T(is_asyncio_mode()), r]})
    else:
        raise ValueError(op)


def thread_main(E, prog, barrier):
    try:
        tl.env = E
        E.thread = threading.current_thread()
        barrier.wait()
        E.cur = []
        adopt_scheduler(E)
        me = threading.get_ident()
        with LOCK:
            if me in IDENTS:
                REUSED[0] += 1
        if asynq.scheduler.get_active_task() is not None:
            E.anomaly("active-task:not-None-on-a-fresh-thread")
        # (no profiler.reset()/flush() here: whether a thread starts with one is the program's business)
        for op in prog:
            E.cur = []
            try:
                exec_op(E, op)
            except _common.Hang:
                raise
            except BaseException as e:
                E.log({"EExc": [{"s": type(e).__name__}]})
            E.trace.append(E.cur)
        E.cur = []
        E.log({"EFinal": [[T(it.is_computed()) for it in E.top_items]]})
        E.trace.append(E.cur)
    except BaseException as e:      # outside any op (barrier, first use of the scheduler): part of the trace
        E.trace.append([{"EExc": [{"s": "thread-main:" + type(e).__name__}]}])
    finally:
        with LOCK:
            IDENTS.append(threading.get_ident())


def run_threads(progs, gens, fast):
    """Runs progs[i] on a fresh thread for each i in gens[0], all at the same time; when all of them have
    exited, the same for gens[1], ..."""
    global RUN
    run = Run(len(progs))
    RUN = run
    old = sys.getswitchinterval()
    if fast:
        sys.setswitchinterval(1e-6)
    try:
        for which in gens:
            barrier = threading.Barrier(len(which))
            ths = [threading.Thread(target=thread_main, args=(run.envs[i], progs[i], barrier), name="vt%d" % i, daemon=True)
                   for i in which]
            for t in ths:
                t.start()
            for t in ths:
                t.join()
            del ths
    finally:
        sys.setswitchinterval(old)
    return run


def first_diff(a, b):
    """Event class at the first difference between two traces (lists of per-op event lists)."""
    for i, (x, y) in enumerate(zip(a, b)):
        if x != y:
            for u, v in zip(x, y):
                if u != v:
                    ku = u if isinstance(u, str) else next(iter(u))
                    kv = v if isinstance(v, str) else next(iter(v))
                    return [i, ku if ku == kv else ku + "/" + kv]
            return [i, "length"]
    return [min(len(a), len(b)), "ops"]


CASE_DEADLINE = 10.0
RETRY_DEADLINE = 16.0       # both together stay under the driver's 30 s per-case alarm


def run_case(c):
    """A case that does not finish within CASE_DEADLINE is run once more (fresh child, longer deadline):
    with 16 runner processes of up to 16 threads each under a 1 us switch interval, a heavy case on a loaded
    machine was seen to take 25x its usual 0.2 s; {"Hang": []} is reported when both attempts hang."""
    out = run_case_once(c, CASE_DEADLINE)
    if "Hang" in out:
        out = run_case_once(c, RETRY_DEADLINE)
        if "Hang" not in out:
            out["retried_after_deadline"] = True
    return out


def run_case_once(c, deadline):
    """Each case runs in a forked child: a hang or threads left spinning by a broken library cannot
    leak into the next case; the parent kills the child at the deadline and reports {"Hang": []}."""
    import json
    import os
    import select
    import signal
    import time
    import traceback
    r, w = os.pipe()
    pid = os.fork()
    if pid == 0:
        try:
            os.close(r)
            signal.alarm(0)
            dump = os.environ.get("C16_HANG_DUMP")      # debugging aid: thread stacks of a hung child
            if dump:
                import faulthandler
                faulthandler.register(signal.SIGUSR1, file=open("%s.%d" % (dump, os.getpid()), "w"), all_threads=True)
            try:
                out = run_case_here(c)
            except BaseException:
                out = {"ChildError": traceback.format_exc()[-3000:]}
            data = json.dumps(out).encode()
            off = 0
            while off < len(data):
                off += os.write(w, data[off:off + 65536])
        finally:
            os._exit(0)
    os.close(w)
    t0 = time.time()
    chunks = []
    hung = False
    try:
        while True:
            left = deadline - (time.time() - t0)
            if left <= 0:
                hung = True
                break
            rd, _, _ = select.select([r], [], [], left)
            if not rd:
                hung = True
                break
            b = os.read(r, 1 << 20)
            if not b:
                break
            chunks.append(b)
    finally:
        os.close(r)
        if hung:
            try:
                if os.environ.get("C16_HANG_DUMP"):
                    os.kill(pid, signal.SIGUSR1)
                    time.sleep(1.0)
                os.kill(pid, signal.SIGKILL)
            except OSError:
                pass
        os.waitpid(pid, 0)
    if hung:
        return {"Hang": []}
    out = json.loads(b"".join(chunks).decode())
    if "ChildError" in out:
        raise RuntimeError("runner failed in the child process:\n" + out["ChildError"])
    out["wall_s"] = round(time.time() - t0, 3)
    return out


def run_case_here(c):
    global PERF
    progs = c["threads"]
    n = len(progs)
    sizes = [z for z in c.get("gens", [n]) if z > 0]
    gens, at = [], 0
    for z in sizes:
        gens.append(list(range(at, min(at + z, n))))
        at += z
    if at < n:
        gens.append(list(range(at, n)))
    gens = [g for g in gens if g]
    old = _debug.options.COLLECT_PERF_STATS
    PERF = bool(c.get("perf"))
    _debug.options.COLLECT_PERF_STATS = PERF
    try:
        solo = []
        for i in range(n):
            r = run_threads(progs, [[i]], False)
            solo.append(r.envs[i])
        conc = []
        for _ in range(c.get("reps", 1)):
            r = run_threads(progs, gens, True)
            rep = []
            for i in range(n):
                E = r.envs[i]
                S = solo[i]
                d = {"tie": E.tie or S.tie, "anoms": E.anoms}
                if E.trace == S.trace and E.extra == S.extra:
                    d["trace"] = "same"
                else:
                    d["trace"] = E.trace
                    d["diff"] = first_diff(S.trace, E.trace) if E.trace != S.trace else [len(E.trace), "profiler-names"]
                rep.append(d)
            conc.append(rep)
    finally:
        _debug.options.COLLECT_PERF_STATS = old
    return {"solo": [{"trace": S.trace, "tie": S.tie, "anoms": S.anoms, "extra_n": len(S.extra)} for S in solo],
            "conc": conc, "ident_reuse": REUSED[0]}


if __name__ == "__main__":
    _common.main(run_case)
