"""C14 implementation runner: calls amap / afilter / afilterfalse / asorted / amax / amin / asift /
aretry of asynq.tools on a generated input and the corresponding builtin on a fresh copy of the same
input, counting batch flushes of the harness batch the key/predicate function blocks on."""
import itertools

import _common
from asynq import asynq, scheduler
from asynq.batching import BatchBase, BatchItemBase
import asynq.tools as T


class VErr(Exception):
    def __init__(self, i):
        Exception.__init__(self, i)
        self.vid = i


class Obj(object):
    """plain object: identity equality, no ordering methods"""
    __slots__ = ("oid",)

    def __init__(self, oid):
        self.oid = oid

    def __repr__(self):
        return "Obj(%d)" % self.oid


class Bag(object):
    """re-iterable collection that is neither a list nor a tuple"""

    def __init__(self, l):
        self._l = list(l)

    def __iter__(self):
        return iter(list(self._l))


# ------------------------------------------------------------------ harness batch
class State(object):
    cur = None
    flush_sizes = []
    events = []


class CountBatch(BatchBase):
    def _try_switch_active_batch(self):
        if State.cur is self:
            State.cur = CountBatch()

    def _flush(self):
        State.flush_sizes.append(len(self.items))
        State.events.append("flush")
        for it in self.items:
            it.set_value(it.payload)

    def _cancel(self):
        pass


class Item(BatchItemBase):
    def __init__(self, payload):
        super(Item, self).__init__(State.cur)
        self.payload = payload


# ------------------------------------------------------------------ tree <-> python
def pyelt(t, pool):
    if t == "ENone":
        return None
    (k, a), = t.items()
    if k == "EInt":
        return a[0]
    if k == "EBool":
        return a[0] == "true"
    if k == "EObj":
        return pool.setdefault(a[0], Obj(a[0]))
    raise ValueError(t)


def treeelt(v):
    if v is None:
        return "ENone"
    if isinstance(v, bool):
        return {"EBool": ["true" if v else "false"]}
    if isinstance(v, int):
        return {"EInt": [v]}
    if isinstance(v, Obj):
        return {"EObj": [v.oid]}
    return {"EOther": [{"s": repr(v)[:60]}]}


def keyof(v):
    if v is None:
        return ("N",)
    if isinstance(v, bool):
        return ("B", v)
    if isinstance(v, int):
        return ("I", v)
    if isinstance(v, Obj):
        return ("O", v.oid)
    return ("?", id(v))


def exn_tree(e):
    if isinstance(e, VErr):
        return {"Exc": [e.vid]}
    if type(e) is TypeError:
        return {"Exc": [-1]}
    if type(e) is ValueError:
        return {"Exc": [-11]}
    if type(e) is AssertionError:
        return {"Exc": [-12]}
    return {"Exc": [{"Unexpected": [{"s": type(e).__name__}]}]}


def tree_list(v):
    if type(v) is not list:
        return {"ROther": [{"s": type(v).__name__}]}
    return {"RList": [[treeelt(x) for x in v]]}


def tree_pair(v):
    if type(v) is not tuple or len(v) != 2 or type(v[0]) is not list or type(v[1]) is not list:
        return {"ROther": [{"s": repr(v)[:60]}]}
    return {"RPair": [[treeelt(x) for x in v[0]], [treeelt(x) for x in v[1]]]}


def tree_elt(v):
    return {"RElt": [treeelt(v)]}


def guarded(thunk, conv):
    try:
        return {"Val": [conv(thunk())]}
    except _common.Hang:
        raise
    except BaseException as e:
        return exn_tree(e)


def mk_iterable(t, pool, meta):
    """-> a fresh Python object for the iterable tree t"""
    if t == "NotIter":
        return 5
    (k, a), = t.items()
    if k == "Seq":
        l = [pyelt(x, pool) for x in a[1]]
        return l if a[0] == "SList" else tuple(l) if a[0] == "STuple" else Bag(l)
    if k == "OneShot":
        l = [pyelt(x, pool) for x in a[0]]
        if meta.get("oneshot") == "gen":
            return (x for x in l)
        return iter(l)
    raise ValueError(t)


def form_args(form, pool, meta):
    (k, a), = form.items()
    if k == "Single":
        return (mk_iterable(a[0], pool, meta),)
    return tuple(pyelt(x, pool) for x in a[0])


def make_fns(table, pool, meta):
    lookup = {}
    for ent in table:
        x, (b, ko) = ent[""][0], ent[""][1][""]
        lookup.setdefault(keyof(pyelt(x, pool)), (b == "true", ko))
    calls = []
    scalls = []

    def outcome(x):
        return lookup.get(keyof(x), (False, {"KVal": ["ENone"]}))

    def finish(ko):
        (k, a), = ko.items()
        if k == "KRaise":
            raise VErr(a[0])
        return pyelt(a[0], pool)

    if meta.get("plain") and not any(b for b, _ in lookup.values()):
        @asynq()
        def afn(x):
            calls.append(treeelt(x))
            State.events.append("call")
            return finish(outcome(x)[1])
    else:
        @asynq()
        def afn(x):
            calls.append(treeelt(x))
            State.events.append("call")
            b, ko = outcome(x)
            if b:
                got = yield Item(("payload", len(calls)))
                assert got[0] == "payload"
            return finish(ko)

    def sfn(x):
        scalls.append(treeelt(x))
        return finish(outcome(x)[1])

    return afn, sfn, calls, scalls


def invoke(helper, args, kwargs, meta):
    if meta.get("via") == "yield":
        @asynq()
        def root():
            r = yield helper.asynq(*args, **kwargs)
            return r
        return root()
    return helper(*args, **kwargs)


def run_helper(call, table, meta):
    pool = {}
    afn, sfn, calls, scalls = make_fns(table, pool, meta)
    State.cur = CountBatch()
    State.flush_sizes = []
    State.events = []
    hook = []
    sch = scheduler.get_scheduler()

    def on_flush(batch):
        hook.append(1)
    sch.on_before_batch_flush.subscribe(on_flush)
    (name, a), = call.items()
    leftover = None
    try:
        if name == "CAmap":
            it = mk_iterable(a[0], pool, meta)
            res = guarded(lambda: invoke(T.amap, (afn, it), {}, meta), tree_list)
            spec = guarded(lambda: list(map(sfn, mk_iterable(a[0], pool, meta))), tree_list)
        elif name == "CAfilter":
            has_fn = a[0] == "true"
            it = mk_iterable(a[1], pool, meta)
            res = guarded(lambda: invoke(T.afilter, (afn if has_fn else None, it), {}, meta), tree_list)
            spec = guarded(lambda: list(filter(sfn if has_fn else None, mk_iterable(a[1], pool, meta))), tree_list)
        elif name == "CAfilterfalse":
            it = mk_iterable(a[0], pool, meta)
            res = guarded(lambda: invoke(T.afilterfalse, (afn, it), {}, meta), tree_list)
            spec = guarded(lambda: list(itertools.filterfalse(sfn, mk_iterable(a[0], pool, meta))), tree_list)
        elif name == "CAsorted":
            has_key, rev = a[1] == "true", a[2] == "true"
            it = mk_iterable(a[0], pool, meta)
            if meta.get("defaults") and not has_key and not rev:
                res = guarded(lambda: invoke(T.asorted, (it,), {}, meta), tree_list)
            else:
                res = guarded(lambda: invoke(T.asorted, (it,), {"key": afn if has_key else None, "reverse": rev}, meta), tree_list)
            spec = guarded(lambda: sorted(mk_iterable(a[0], pool, meta), key=sfn if has_key else None, reverse=rev), tree_list)
        elif name in ("CAmax", "CAmin"):
            has_key, extra = a[1] == "true", a[2] == "true"
            h, b = (T.amax, max) if name == "CAmax" else (T.amin, min)
            args = form_args(a[0], pool, meta)
            it = args[0] if len(args) == 1 else None
            kw = {}
            skw = {}
            if has_key:
                kw["key"] = afn
                skw["key"] = sfn
            if extra:
                kw["bogus"] = 1
                skw["bogus"] = 1
            res = guarded(lambda: invoke(h, args, kw, meta), tree_elt)
            spec = guarded(lambda: b(*form_args(a[0], pool, meta), **skw), tree_elt)
        elif name == "CAsift":
            it = mk_iterable(a[0], pool, meta)
            res = guarded(lambda: invoke(T.asift, (afn, it), {}, meta), tree_pair)

            def partition():
                yes, no = [], []
                for x in mk_iterable(a[0], pool, meta):
                    (yes if sfn(x) else no).append(x)
                return (yes, no)
            spec = guarded(partition, tree_pair)
        else:
            raise ValueError(name)
    finally:
        sch.on_before_batch_flush.unsubscribe(on_flush)
    return {"out": {"": [res, spec, [len(State.flush_sizes), 0, 0, 0]]},
            "obs": {"flush_sizes": list(State.flush_sizes), "hook_flushes": len(hook), "calls": calls, "sync_calls": scalls,
                    "events": "".join("F" if e == "flush" else "c" for e in State.events)}}


# ------------------------------------------------------------------ aretry
class EA(VErr):
    pass


class EA1(EA):
    pass


class EB(VErr):
    pass


class EC(VErr):
    pass


CLASSES = {0: EA, 1: EA1, 2: EB, 3: EC, 99: Exception}


class FakeTime(object):
    def __init__(self):
        self.sleeps = []

    def sleep(self, s):
        self.sleeps.append(s)


def run_retry(listed, max_tries, script, meta):
    pool = {}
    State.cur = CountBatch()
    State.flush_sizes = []
    State.events = []
    runs = [0]
    seen_args = []
    classes = [CLASSES[c] for c in listed]
    exception_cls = classes[0] if (len(classes) == 1 and not meta.get("tuple1")) else tuple(classes)
    blocking = bool(meta.get("blocking"))

    def one_run(args):
        i = runs[0]
        runs[0] += 1
        seen_args.append(args)
        if i >= len(script):
            return None
        (k, a), = script[i].items()
        if k == "ARet":
            return pyelt(a[0], pool)
        raise CLASSES[a[0]](a[1])

    if blocking:
        @asynq()
        def body(*args):
            yield Item(("payload", 0))
            return one_run(args)
    else:
        @asynq()
        def body(*args):
            return one_run(args)

    fake = FakeTime()
    real_time = T.time
    T.time = fake
    try:
        def go():
            if meta.get("default_tries"):
                wrapped = T.aretry(exception_cls, sleep=0.25)(body)
            else:
                wrapped = T.aretry(exception_cls, max_tries=max_tries, sleep=0.25)(body)
            return invoke(wrapped, (1, 2), {}, meta)
        res = guarded(go, tree_elt)
    finally:
        T.time = real_time
    # the statement, evaluated on the script with real issubclass
    k = 0
    for at in script:
        (kk, a), = at.items()
        if kk == "ARaise" and issubclass(CLASSES[a[0]], exception_cls):
            k += 1
        else:
            break
    if max_tries <= 0:
        spec, spec_runs = {"Exc": [-12]}, 0
    else:
        j = min(k, max_tries - 1)
        if j >= len(script):
            spec = {"Val": [{"RElt": ["ENone"]}]}
        else:
            (kk, a), = script[j].items()
            spec = {"Val": [{"RElt": [a[0]]}]} if kk == "ARet" else {"Exc": [a[1]]}
        spec_runs = min(k + 1, max_tries)
    return {"out": {"": [res, spec, [0, runs[0], len(fake.sleeps), spec_runs]]},
            "obs": {"k": k, "args_ok": all(a == (1, 2) for a in seen_args), "sleep_args": sorted(set(fake.sleeps)),
                    "flush_sizes": list(State.flush_sizes)}}


def run_case(c):
    (kind, a), = c["tree"].items()
    meta = c.get("meta") or {}
    if kind == "Helper":
        return run_helper(a[0], a[1], meta)
    return run_retry(a[0], a[1], a[2], meta)


if __name__ == "__main__":
    _common.main(run_case)
