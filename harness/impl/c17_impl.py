"""C17 implementation runner: builds a real @async_generator() body from a step tree, drives it through
next / task.value() / list_of_generator / take_first (public API only) and reports, per op, the
result, the number of generator.send calls made on the underlying generator and is_stopped."""
import _common
from asynq import asynq, AsyncTask, ConstFuture
from asynq.futures import ErrorFuture, Future
from asynq.batching import DebugBatchItem
from asynq.generator import END_OF_GENERATOR, Value, async_generator, list_of_generator, take_first


class VErr(Exception):
    def __init__(self, i):
        Exception.__init__(self, i)
        self.vid = i


def pyval(t):
    if t == "VNone":
        return None
    (k, a), = t.items()
    if k == "VInt":
        return a[0]
    raise ValueError(t)


# ------------------------------------------------------------------ payloads of Values
# What a body puts into Value(...) is any Python object: data (None, ints, tuples / lists) or a FUTURE the
# consumer is meant to receive as an object (an unstarted task it wants to batch, a computed task, a
# ConstFuture / ErrorFuture, a lazy Future, an unflushed batch item).  Every future payload of a case is
# registered here by id, so that results can be canonicalised by IDENTITY (label = the id, never the
# future's result) and so that "was it started" can be observed.
PKINDS = ("PTaskNew", "PTaskDone", "PConst", "PErr", "PLazy", "PBatch")


def plabel(i):
    return {"VTuple": [[{"VInt": [-1]}, {"VInt": [i]}]]}


class Payloads(object):
    def __init__(self):
        self.objs = {}          # id -> (kind, object)
        self.ran = []           # ids of payload tasks / lazy futures whose function has run

    def get(self, kind, i):
        if i in self.objs:
            return self.objs[i][1]          # the same object yielded again
        ran = self.ran

        @asynq()
        def payload_task():
            ran.append(i)
            return 2000 + i

        def provider():
            ran.append(i)
            return 2000 + i

        if kind == "PTaskNew":
            o = payload_task.asynq()
        elif kind == "PTaskDone":
            o = payload_task.asynq()
            o.value()
            del ran[-1:]                    # computed by the body itself, before it is yielded
        elif kind == "PConst":
            o = ConstFuture(2000 + i)
        elif kind == "PErr":
            o = ErrorFuture(VErr(3000 + i))
        elif kind == "PLazy":
            o = Future(provider)
        elif kind == "PBatch":
            o = DebugBatchItem("c17-payload", 2000 + i)
        else:
            raise ValueError(kind)
        self.objs[i] = (kind, o)
        return o

    def find(self, v):
        for i, (_, o) in self.objs.items():
            if o is v:
                return i
        return None

    def started(self):
        """ids of the payload futures that were NOT computed when the body yielded them and that somebody
        has started / computed since"""
        out = []
        for i, (kind, o) in sorted(self.objs.items()):
            if kind in ("PTaskNew", "PLazy"):
                if i in self.ran or o.is_computed():
                    out.append(i)
            elif kind == "PBatch":
                if o.is_computed() or o.batch.is_flushed():
                    out.append(i)
        return out


PAYLOADS = Payloads()


def make_payload(p):
    if p == "VNone":
        return None
    (k, a), = p.items()
    if k == "VInt":
        return a[0]
    if k == "VTuple":
        return tuple(make_payload(x) for x in a[0])
    if k == "VList":
        return [make_payload(x) for x in a[0]]
    if k == "PFut":
        return PAYLOADS.get(a[0], a[1])
    raise ValueError(p)


def treeval(v):
    pid = PAYLOADS.find(v)
    if pid is not None:
        return plabel(pid)
    if v is None:
        return "VNone"
    if isinstance(v, int) and not isinstance(v, bool):
        return {"VInt": [v]}
    if type(v) is tuple:
        return {"VTuple": [[treeval(x) for x in v]]}
    if type(v) is list:
        return {"VList": [[treeval(x) for x in v]]}
    if type(v) is dict:
        return {"VDict": [[{"": [k, treeval(x)]} for k, x in v.items()]]}
    return {"VOther": [{"s": repr(v)[:60]}]}


def item(v):
    """a value delivered by a task of the generator / received by the body"""
    if v is END_OF_GENERATOR:
        return "TEnd"
    return {"TVal": [treeval(v)]}


def exn_id(e):
    if isinstance(e, VErr):
        return e.vid
    if isinstance(e, StopIteration):
        return -10
    if isinstance(e, RuntimeError):
        return -9
    return {"Unexpected": [{"s": type(e).__name__}]}


class CountingGen(object):
    """The object _AsyncGenerator drives: forwards send() to the real generator and counts."""

    def __init__(self, gen):
        self.gen = gen
        self.sent = []

    def send(self, v):
        self.sent.append(item(v))
        return self.gen.send(v)


class Ctx(object):
    def __init__(self):
        self.agen = None
        self.counter = None
        self.probes = []
        self.yielded = []       # the objects the (outermost) body has put into a Value, in program order


def make_future(kind, tres, ctx):
    """A future whose outcome is `tres`.  Kinds ATask / ABatch run `probe` while the generator's
    task is waiting for them: a second consumer trying to advance the generator."""
    if tres == "TEnd":
        ok, payload = True, END_OF_GENERATOR
    else:
        (k, a), = tres.items()
        if k == "TVal":
            ok, payload = True, pyval(a[0])
        else:
            ok, payload = False, a[0]
    if kind == "AConst":
        return ConstFuture(payload) if ok else ErrorFuture(VErr(payload))

    def probe(tag):
        before = len(ctx.counter.sent) if ctx.counter is not None else None
        try:
            next(ctx.agen)
            r = "advanced"
        except BaseException as e:
            if isinstance(e, _common.Hang):
                raise
            r = type(e).__name__
        after = len(ctx.counter.sent) if ctx.counter is not None else None
        ctx.probes.append({"tag": tag, "result": r, "pulled": (after - before) if before is not None else 0})

    @asynq()
    def aw():
        probe(kind + ":before")
        if kind == "ABatch":
            yield DebugBatchItem("c17")
            probe(kind + ":after-flush")
        elif False:
            yield None
        if ok:
            return payload
        raise VErr(payload)

    return aw.asynq()


def make_awaitable(w, ctx):
    """What a body hands to `yield` when it is not a Value: None, a future, a tuple / list / dict of those."""
    if w == "WNone":
        return None
    (k, a), = w.items()
    if k == "WFut":
        (ok, pa), = a[1].items()
        return make_future(a[0], {"TVal": pa} if ok == "Ok" else {"TErr": pa}, ctx)
    if k == "WTuple":
        return tuple(make_awaitable(x, ctx) for x in a[0])
    if k == "WList":
        return [make_awaitable(x, ctx) for x in a[0]]
    if k == "WDict":
        return {kv[""][0]: make_awaitable(kv[""][1], ctx) for kv in a[0]}
    raise ValueError(k)


def make_agen(steps, top_ctx=None):
    """An @async_generator() built from the step tree; nested trees iterate the inner generator the
    way the documentation of async_generator prescribes."""
    ctx = top_ctx or Ctx()

    def body():
        for st in steps:
            (k, a), = st.items()
            if k == "NAwait":
                yield make_future(a[0], a[1], ctx)
            elif k == "NYield":
                yield make_awaitable(a[0], ctx)        # None: the same as a bare `yield`
            elif k == "NValue":
                obj = make_payload(a[0])
                if top_ctx is not None:
                    top_ctx.yielded.append(obj)
                yield Value(obj)
            elif k == "NRaise":
                raise VErr(a[0])
            elif k == "NNest":
                inner = make_agen(a[0])
                for task in inner:
                    x = yield task
                    if x is END_OF_GENERATOR:
                        continue
                    if top_ctx is not None:
                        top_ctx.yielded.append(x)
                    yield Value(x)
            else:
                raise ValueError(k)

    def fun():
        g = body()
        if top_ctx is not None:
            top_ctx.counter = CountingGen(g)
            return top_ctx.counter
        return g

    agen = async_generator()(fun)()
    ctx.agen = agen
    return agen


def lt_state(agen):
    t = agen.last_task
    if t is None:
        return "none"
    return "computed" if t.is_computed() else "pending"


def which(ctx, x):
    """indices (in the order of the body's Value yields so far) of the yielded objects that x IS"""
    return [j for j, o in enumerate(ctx.yielded) if o is x]


def run_case(c):
    global PAYLOADS
    PAYLOADS = Payloads()
    body, ops = c["body"], c["ops"]
    via = c.get("meta", {}).get("via", "sync")
    ctx = Ctx()
    agen = make_agen(body, ctx)
    handle = None
    res = []
    obs = []

    @asynq()
    def through_task(fn, *args):
        r = yield fn.asynq(*args)
        return r

    for op in ops:
        if isinstance(op, str):
            name, a = op, []
        else:
            (name, a), = op.items()
        pre = {"pulls": len(ctx.counter.sent), "stopped": bool(agen.is_stopped), "last": lt_state(agen)}
        nprobe = len(ctx.probes)
        extra = {}
        try:
            if name == "ONext":
                h = next(agen)
                handle = h
                pid = PAYLOADS.find(h)
                if pid is not None:
                    extra["handle_is_payload"] = pid          # the future handed out IS an object the body put into a Value
                if isinstance(h, AsyncTask):
                    r = "RTask"
                    extra["task_computed_on_return"] = bool(h.is_computed())
                    extra["handle_is_last_task"] = h is agen.last_task
                elif isinstance(h, ConstFuture):
                    r = {"RConst": [treeval(h.value())]}
                    extra["ident"] = [which(ctx, h.value())]
                    if h.value() is END_OF_GENERATOR:
                        r = {"RConst": [{"VOther": [{"s": "END_OF_GENERATOR"}]}]}
                else:
                    r = {"ROther": [{"s": type(h).__name__}]}
            elif name == "OCompute":
                if handle is None:
                    r = "RNoHandle"
                else:
                    v = handle.value()
                    r = {"RItem": [item(v)]}
                    extra["ident"] = [which(ctx, v)]
            elif name == "OList":
                l = through_task(list_of_generator, agen) if via == "task" else list_of_generator(agen)
                r = {"RList": [[item(x) for x in l]]} if isinstance(l, list) else {"ROther": [{"s": type(l).__name__}]}
                if isinstance(l, list):
                    extra["ident"] = [which(ctx, x) for x in l]
            elif name == "OTake":
                l = through_task(take_first, agen, a[0]) if via == "task" else take_first(agen, a[0])
                r = {"RList": [[item(x) for x in l]]} if isinstance(l, list) else {"ROther": [{"s": type(l).__name__}]}
                if isinstance(l, list):
                    extra["ident"] = [which(ctx, x) for x in l]
            else:
                r = None
        except BaseException as e:
            if isinstance(e, _common.Hang):
                raise
            r = {"RRaise": [exn_id(e)]}
        if r is None:
            raise ValueError(name)
        post = {"pulls": len(ctx.counter.sent), "stopped": bool(agen.is_stopped), "last": lt_state(agen)}
        res.append({"": [r, post["pulls"], "true" if post["stopped"] else "false"]})
        obs.append(dict(op=name, pre=pre, post=post, probes=ctx.probes[nprobe:], nyielded=len(ctx.yielded),
                        payload_started=PAYLOADS.started(), **extra))
    return {"out": {"": [res, list(ctx.counter.sent)]}, "obs": obs}


if __name__ == "__main__":
    _common.main(run_case)
