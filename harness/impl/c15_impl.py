"""C15 implementation runner.

A case is a batch-free tree program (JSON AST, see harness/props/c15.py).  Every call node becomes a
real @asynq() function / method / @async_proxy() function whose body is an interpreter closure
over the node's statement list (real `yield`, real try/except, real `raise`).  The root is then run
twice through the public API only:

    root(arg)                               on the asynq scheduler
    asyncio.run(main())  with  `await root.asyncio(arg)` inside main, after which main keeps running:
                         is_asyncio_mode(), then the case's "probes" - plain synchronous calls g(arg)

Function identity: a call node may carry "fn": key.  All nodes with the same key are activations of ONE
decorated function object (one @asynq() decorator, one cached converted coroutine function, one holder
instance for methods); the function looks its statement list up by its argument, the way a recursive
function branches on its argument.  Without "fn" a node has a function of its own.

and everything observable is logged by the generated bodies themselves: body start (with
is_asyncio_mode()), call completion (value / exception instance id), what each yield delivered,
what each except clause caught, what each plain synchronous call did.
"""
import asyncio

import _common
from asynq import asynq, async_proxy, ConstFuture
from asynq.asynq_to_async import is_asyncio_mode, AsyncioMode


class VErr(Exception):
    def __init__(self, i):
        Exception.__init__(self, i)
        self.vid = i


class VBase(BaseException):
    """an exception instance outside the Exception hierarchy; only ever used as a *value*"""

    def __init__(self, i):
        BaseException.__init__(self, i)
        self.vid = i


LOG = []
LOG_CAP = 60000


class Runaway(BaseException):
    """The case's own programs are finite trees (at most a few hundred log entries).  A log that keeps growing means the
    bridge runs something else than the case's functions (e.g. another function's body, in a cycle); stop at once instead
    of filling memory until the 30 s alarm - the driver reports the case as one that could not be run."""


def log_body(i):
    if len(LOG) > LOG_CAP:
        raise Runaway("more than %d log entries" % LOG_CAP)
    LOG.append(["body", i, flag()])


def mkval(v):
    """AST value -> Python value.  {"x": i}: a fresh VErr(i) instance, {"bx": i}: a fresh VBase(i)
    instance - exception objects used as data (returned / held by a ConstFuture), never raised."""
    if isinstance(v, dict):
        if "x" in v:
            return VErr(v["x"])
        if "bx" in v:
            return VBase(v["bx"])
        raise ValueError(v)
    return v


def treeval(v):
    if v is None:
        return "VNone"
    if isinstance(v, bool):
        return {"VOther": [{"s": repr(v)}]}
    if isinstance(v, int):
        return {"VInt": [v]}
    if type(v) is tuple:
        return {"VTuple": [[treeval(x) for x in v]]}
    if type(v) is list:
        return {"VList": [[treeval(x) for x in v]]}
    if type(v) is dict:
        return {"VDict": [[{"": [k, treeval(x)]} for k, x in v.items()]]}
    if isinstance(v, BaseException):
        code = exn_code(v)
        if code is not None:
            return {"VExc": [code]}
    return {"VOther": [{"s": type(v).__name__}]}


def exn_code(e):
    if isinstance(e, (VErr, VBase)):
        return e.vid
    if type(e) is TypeError:
        return -1
    if type(e) is RuntimeError:
        return -9
    return None


def exn_tree(e):
    c = exn_code(e)
    if c is None:
        return {"Unexpected": [{"s": type(e).__name__ + ": " + str(e)[:80]}]}
    return c


def flag():
    return "true" if is_asyncio_mode() else "false"


class Prog:
    """All decorated callables of one case."""

    def __init__(self, root):
        self.fns = {}       # activation id -> callable object supporting (), .asynq(), .asyncio()
        self.objs = {}      # function key -> the decorated object shared by all activations of that function
        self.bodies = {}    # activation id -> statement list
        self.delays = {}    # activation id -> suspensions of the native asyncio_fn
        self.declare_leaf(root)

    # ---- declaration: walk the AST once, create every function before anything runs
    def declare_leaf(self, s):
        if "t" in s:
            self.declare_fn(s["t"])
        elif "px" in s:
            self.declare_px(s["px"])

    def declare_struct(self, s):
        if s is None:
            return
        if "t" in s or "px" in s:
            self.declare_leaf(s)
        elif "tuple" in s or "list" in s:
            for x in s.get("tuple", s.get("list")):
                self.declare_struct(x)
        elif "dict" in s:
            for _, x in s["dict"]:
                self.declare_struct(x)

    def declare_stmts(self, stmts):
        for st in stmts:
            if "y" in st:
                self.declare_struct(st["y"])
            elif "try" in st:
                self.declare_stmts(st["try"])
                self.declare_stmts(st["exc"])
            elif "sync" in st:
                self.declare_leaf(st["sync"])

    def declare_px(self, px):
        prog = self
        ret = px["ret"]
        if "t" in ret:
            self.declare_fn(ret["t"])

        def pxfn(*a):
            log_body(a[-1])
            if "c" in ret:
                return ConstFuture(mkval(ret["c"]))
            t = ret["t"]
            return prog.fns[t["id"]].asynq(t["id"])

        if px["kind"] == "method":
            holder = type("PxHolder%d" % px["id"], (), {"m": async_proxy()(pxfn)})
            self.fns[px["id"]] = holder().m
        else:
            self.fns[px["id"]] = async_proxy()(pxfn)

    def declare_fn(self, fn):
        prog = self
        nid = fn["id"]
        self.bodies[nid] = fn["body"]
        self.delays[nid] = fn.get("delay", 0)
        key = fn.get("fn", ("own", nid))
        if key in self.objs:
            # another activation of an already declared function
            self.fns[nid] = self.objs[key]
            self.declare_stmts(fn["body"])
            return

        def finish(acc, ret):
            # ret: None when the body fell off its end (-> the accumulator), else (value,) of the return statement
            return list(acc) if ret is None else ret[0]

        if fn["kind"] == "plain":
            def f(*a):
                log_body(a[-1])
                acc = []
                try:
                    ret = prog.run_plain(prog.bodies[a[-1]], acc, a[-1])
                except Exception as e:
                    LOG.append(["done", a[-1], {"Err": [exn_tree(e)]}])
                    raise
                r = finish(acc, ret)
                LOG.append(["done", a[-1], {"Ok": [treeval(r)]}])
                return r
        else:
            def f(*a):
                log_body(a[-1])
                acc = []
                try:
                    ret = yield from prog.run(prog.bodies[a[-1]], acc, a[-1])
                except Exception as e:
                    LOG.append(["done", a[-1], {"Err": [exn_tree(e)]}])
                    raise
                r = finish(acc, ret)
                LOG.append(["done", a[-1], {"Ok": [treeval(r)]}])
                return r

        afn = None
        if fn["afn"] == "native":
            async def afn(*a):
                # the user's own coroutine function: same meaning as the body, written natively (run_async):
                # `x = await g.asyncio(arg)` where the asynq body has `x = yield g.asynq(arg)`, the same plain
                # synchronous calls `x = g(arg)`, try/except, raise, return.  It is NOT under AsyncioMode itself.
                log_body(a[-1])
                for _ in range(prog.delays[a[-1]]):
                    await asyncio.sleep(0)
                acc = []
                try:
                    ret = await prog.run_async(prog.bodies[a[-1]], acc, a[-1])
                except Exception as e:
                    LOG.append(["done", a[-1], {"Err": [exn_tree(e)]}])
                    raise
                r = finish(acc, ret)
                LOG.append(["done", a[-1], {"Ok": [treeval(r)]}])
                return r
        elif fn["afn"] == "twin":
            twin = asynq()(f)

            async def afn(*a):
                return await twin.asyncio(*a)

        kw = {}
        if afn is not None:
            kw["asyncio_fn"] = afn
        if fn.get("allow"):
            kw["allow_sync_call"] = True
        dec = asynq(**kw)(f)
        if fn["kind"] == "method":
            holder = type("Holder%d" % nid, (), {"m": dec})
            obj = holder().m
        else:
            obj = dec
        self.objs[key] = obj
        self.fns[nid] = obj
        self.declare_stmts(fn["body"])

    # ---- building what a yield statement yields
    def mk_leaf(self, s):
        if "t" in s:
            return self.fns[s["t"]["id"]].asynq(s["t"]["id"])
        return self.fns[s["px"]["id"]].asynq(s["px"]["id"])

    def mk_struct(self, s):
        if s is None:
            return None
        if "c" in s:
            return ConstFuture(mkval(s["c"]))
        if "bad" in s:
            return s["bad"]
        if "t" in s or "px" in s:
            return self.mk_leaf(s)
        if "tuple" in s:
            return tuple(self.mk_struct(x) for x in s["tuple"])
        if "list" in s:
            return [self.mk_struct(x) for x in s["list"]]
        if "dict" in s:
            return {k: self.mk_struct(x) for k, x in s["dict"]}
        raise ValueError(s)

    # ---- the body interpreter (generator); returns (value,) when a return statement ran, else None
    def run(self, stmts, acc, me):
        for st in stmts:
            if "y" in st:
                LOG.append(["yield", me, st["site"]])
                try:
                    v = yield self.mk_struct(st["y"])
                except Exception as e:
                    LOG.append(["resume", me, st["site"], {"Err": [exn_tree(e)]}, flag()])
                    raise
                LOG.append(["resume", me, st["site"], {"Ok": [treeval(v)]}, flag()])
                acc.append(v)
            elif "try" in st:
                try:
                    r = yield from self.run(st["try"], acc, me)
                    if r is not None:
                        return r
                except Exception as e:
                    code = exn_code(e)
                    LOG.append(["caught", me, exn_tree(e)])
                    if st.get("keep"):
                        acc.append(e)           # the caught instance itself is kept as data
                    else:
                        acc.append({-1: code if code is not None else -999})
                    r = yield from self.run(st["exc"], acc, me)
                    if r is not None:
                        return r
            elif "push" in st:
                acc.append(mkval(st["push"]))
            elif "raise" in st:
                raise VErr(st["raise"])
            elif "ret" in st:
                return (list(acc),)
            elif "retv" in st:
                return (mkval(st["retv"][0]),)      # return <value>   (AST: {"retv": [V]})
            elif "retlast" in st:
                return (acc[-1] if acc else None,)  # return the last thing received / caught
            elif "sync" in st:
                acc.append(self.sync_call(st["sync"], me))
            else:
                raise ValueError(st)
        return None

    async def run_async(self, stmts, acc, me):
        """The same statement list as the body of a user-written `async def` (explicit asyncio_fn): a yield of a call
        leaf is `await g.asyncio(arg)`; everything else is the same Python."""
        for st in stmts:
            if "y" in st:
                s = st["y"]
                node = s["t"] if "t" in s else s["px"]
                LOG.append(["yield", me, st["site"]])
                try:
                    v = await self.fns[node["id"]].asyncio(node["id"])
                except Exception as e:
                    LOG.append(["resume", me, st["site"], {"Err": [exn_tree(e)]}, flag()])
                    raise
                LOG.append(["resume", me, st["site"], {"Ok": [treeval(v)]}, flag()])
                acc.append(v)
            elif "try" in st:
                try:
                    r = await self.run_async(st["try"], acc, me)
                    if r is not None:
                        return r
                except Exception as e:
                    code = exn_code(e)
                    LOG.append(["caught", me, exn_tree(e)])
                    if st.get("keep"):
                        acc.append(e)
                    else:
                        acc.append({-1: code if code is not None else -999})
                    r = await self.run_async(st["exc"], acc, me)
                    if r is not None:
                        return r
            elif "push" in st:
                acc.append(mkval(st["push"]))
            elif "raise" in st:
                raise VErr(st["raise"])
            elif "ret" in st:
                return (list(acc),)
            elif "retv" in st:
                return (mkval(st["retv"][0]),)
            elif "retlast" in st:
                return (acc[-1] if acc else None,)
            elif "sync" in st:
                acc.append(self.sync_call(st["sync"], me))
            else:
                raise ValueError(st)
        return None

    def run_plain(self, stmts, acc, me):
        """Bodies without yield (plain functions, native coroutines)."""
        g = self.run(stmts, acc, me)
        try:
            next(g)
        except StopIteration as s:
            return s.value
        raise AssertionError("a plain body must not yield")

    def sync_call(self, s, me=None):
        """x = g(arg): a plain synchronous call made by activation `me` (None: the caller after the await).
        Logged as ["sync", what-happened, me, callee id]."""
        node = s["t"] if "t" in s else s["px"]
        n0 = len(LOG)
        try:
            v = self.fns[node["id"]](node["id"])            # plain synchronous call
        except RuntimeError:
            if any(ev[0] == "body" for ev in LOG[n0:]):
                LOG.append(["sync", "SRan", me, node["id"]])
            else:
                LOG.append(["sync", "SRefused", me, node["id"]])
            raise
        except Exception:
            LOG.append(["sync", "SRan" if any(ev[0] == "body" for ev in LOG[n0:]) else "SOther", me, node["id"]])
            raise
        LOG.append(["sync", "SRan" if any(ev[0] == "body" for ev in LOG[n0:]) else "SAllowed", me, node["id"]])
        return v


def events(log):
    ev = []
    for e in log:
        if e[0] == "body":
            ev.append({"EvBody": [e[1], e[2]]})
        elif e[0] == "done":
            ev.append({"EvDone": [e[1], e[2]]})
        elif e[0] == "sync":
            ev.append({"EvSync": [e[1]]})
    return ev


def run_case(c):
    root = c["root"]
    node = root["t"] if "t" in root else root["px"]
    rid = node["id"]
    P = Prog(root)
    probes = c.get("probes", [])
    for pr in probes:
        P.declare_leaf(pr)
    target = P.fns[rid]

    # --- asynq
    del LOG[:]
    pre_seq = flag()
    try:
        seq_out = {"Ok": [treeval(target(rid))]}
    except Exception as e:
        seq_out = {"Err": [exn_tree(e)]}
    seq_log = list(LOG)
    post_seq = flag()

    # --- asyncio
    del LOG[:]
    rec = {}

    async def main():
        mode = AsyncioMode() if c["mode0"] else None
        if mode is not None:
            mode.__enter__()
        try:
            rec["before"] = flag()
            try:
                rec["out"] = {"Ok": [treeval(await target.asyncio(rid))]}
            except Exception as e:
                rec["out"] = {"Err": [exn_tree(e)]}
            rec["after"] = flag()
            rec["aio_len"] = len(LOG)
            # the caller keeps running: plain synchronous calls of @asynq() functions after the await
            rec["probes"] = []
            for pr in probes:
                n0 = len(LOG)
                try:
                    o = {"Ok": [treeval(P.sync_call(pr))]}
                except Exception as e:
                    o = {"Err": [exn_tree(e)]}
                rec["probes"].append({"out": o, "flag": flag(), "log": LOG[n0:]})
        finally:
            if mode is not None:
                mode.__exit__(None, None, None)
        rec["after_exit"] = flag()

    outer_before = flag()
    asyncio.run(main())
    outer_after = flag()
    aio_log = list(LOG[:rec["aio_len"]])
    del LOG[:]

    out = {"": [seq_out, events(seq_log), {"": [rec["out"], rec["after"], events(aio_log)]},
                [{"": [pr["out"], pr["flag"], events(pr["log"])]} for pr in rec["probes"]]]}
    return {"out": out,
            "seq": {"out": seq_out, "log": seq_log, "flag_before": pre_seq, "flag_after": post_seq},
            "aio": {"out": rec["out"], "log": aio_log, "before": rec["before"], "after": rec["after"],
                    "after_exit": rec["after_exit"], "outer_before": outer_before, "outer_after": outer_after,
                    "probes": rec["probes"]}}


if __name__ == "__main__":
    _common.main(run_case)
