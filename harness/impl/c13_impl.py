"""C13 implementation runner: drives alru_cache / acached_per_instance / alazy_constant of the build on
PYTHONPATH through one history of operations.

Every operation of the history is gated by its own single-item batch whose priority decreases with
the operation index; the scheduler flushes the highest-priority pending batch only when nothing can
run, so the operations happen in exactly the order of the history, in one scheduler run, and bodies
that block (on the gate of their Finish operation) overlap with later calls.  Public API only, plus
read-only peeks at the cache sizes (closure cell of the pure-Python wrapper /
__acached_per_instance_cache__, the attribute asynq's own tests use)."""
import gc
import weakref

import _common
import asynq.tools as T
from asynq import asynq, BatchBase, BatchItemBase

try:
    from qcore.caching import LRUCache
except Exception:  # pragma: no cover
    LRUCache = None

BIG = 10 ** 6
LETTERS = "abcdefghijklmnopqrstuvwxyz"


def pname(n):
    return "self" if n == 99 else LETTERS[n]


# Values bodies return.  A body script ["ret", x] with x < 9000 returns the integer x itself (100 + call id: unique, so
# that the provenance of a served value is visible); x >= 9001 names a *payload* - a value kind a cache must store
# and serve like any other, in particular None and the other falsy values.  The digest maps returned objects back to
# their codes by exact type and value.
PAYLOADS = {9001: lambda: None, 9002: lambda: 0, 9003: lambda: False, 9004: lambda: "", 9005: lambda: (),
            9006: lambda: [], 9007: lambda: (None,), 9008: lambda: 2 ** 70, 9009: lambda: 0.0, 9010: lambda: {}}


def payload(x):
    f = PAYLOADS.get(x)
    return x if f is None else f()


def encode(v):
    """the code of a returned object; None if it is nothing a body of this harness returns"""
    if v is None:
        return 9001
    t = type(v)
    if t is bool:
        return 9003 if v is False else None
    if t is int:
        return 9002 if v == 0 else 9008 if v == 2 ** 70 else (v if v < 9000 else None)
    if t is str:
        return 9004 if v == "" else None
    if t is tuple:
        return 9005 if v == () else 9007 if (len(v) == 1 and v[0] is None) else None
    if t is list:
        return 9006 if v == [] else None
    if t is float:
        return 9009 if v == 0.0 else None
    if t is dict:
        return 9010 if v == {} else None
    return None


class VErr(Exception):
    def __init__(self, i):
        Exception.__init__(self, i)
        self.vid = i


class H:
    """per-case state"""
    log = None
    current = None
    instances = None
    inflight = None
    now = 0


class Gate(BatchBase):
    def __init__(self, k):
        BatchBase.__init__(self)
        self.k = k

    def get_priority(self):
        return (-self.k,)

    def _try_switch_active_batch(self):
        pass

    def _flush(self):
        H.log.append(["snap", H.snap()])
        H.log.append(["op", self.k])
        for it in self.items:
            it.set_value(None)


def gate(k):
    return BatchItemBase(Gate(k))


def enter(bound, fn=None):
    """called first thing by every decorated body; fn = index of the function this body belongs to (families)"""
    c = H.current
    H.current = None
    if c is None:
        H.log.append(["run", -1, bound, fn])
        return {"id": -1, "bl": False, "body": ["ret", -1], "fin": BIG, "inst": None}
    H.log.append(["run", c["id"], bound, fn])
    return c


H.enter = staticmethod(enter)


@asynq()
def run(c):
    if c["bl"]:
        H.inflight.add((c["id"], c.get("inst")))
        try:
            yield gate(c["fin"])
        finally:
            H.inflight.discard((c["id"], c.get("inst")))
    kind, x = c["body"]
    if kind == "ret":
        return payload(x)
    raise VErr(x)


H.run = run


def params_src(sig, with_self):
    parts = ["self"] if with_self else []
    for n, d in sig["pos"]:
        parts.append(pname(n) if d is None else "%s=%d" % (pname(n), d))
    if sig["kw"]:
        parts.append("*")
        for n, d in sig["kw"]:
            parts.append(pname(n) if d is None else "%s=%d" % (pname(n), d))
    if sig["varkw"]:
        parts.append("**kwargs")
    names = [pname(n) for n, _ in sig["pos"] + sig["kw"]]
    bound = "{" + ", ".join(["%r: %s" % (n, n) for n in names] + (["'**': dict(kwargs)"] if sig["varkw"] else [])) + "}"
    return ", ".join(parts), bound


def key_fn_of(km):
    if km == "default":
        return None
    if km == "first":
        return lambda args, kwargs: args[0] if args else -1
    if km == "const":
        return lambda args, kwargs: 0
    if isinstance(km, list) and km[0] == "sum":
        m = km[1]
        return lambda args, kwargs: (sum(args) + sum(kwargs.values())) % m
    raise ValueError(km)


def find_lru(fn):
    """the LRUCache in the closure of alru_cache's wrapper (tools.py is pure Python in both builds)"""
    seen = 0
    while fn is not None and seen < 6:
        seen += 1
        for cell in getattr(fn, "__closure__", None) or ():
            try:
                v = cell.cell_contents
            except ValueError:
                continue
            if LRUCache is not None and isinstance(v, LRUCache):
                return v
        fn = getattr(fn, "fn", None) or getattr(fn, "__wrapped__", None)
    return None


def build(case):
    """returns (caller, snap, w) where caller(op) -> future of the call; w = the decorated callable(s)"""
    if "fns" in case:
        return build_family(case)
    kind = case["kind"]
    ns = {"asynq": asynq, "H": H, "T": T}
    if kind == "lazy":
        src = ("@T.alazy_constant(ttl=%d)\n@asynq()\ndef body():\n    _c = H.enter({})\n    return (yield H.run.asynq(_c))\n" % case["ttl"])
        exec(src, ns)
        w = ns["body"]
        ns["_w"] = w
        return (lambda op: w.asynq()), (lambda: None), w
    sig = case["sig"]
    if kind == "alru" and case["target"] == "fn":
        ps, bound = params_src(sig, False)
        ns["_kf"] = key_fn_of(case["km"])
        src = ("@T.alru_cache(maxsize=%d, key_fn=_kf)\n@asynq()\ndef body(%s):\n    _c = H.enter(%s)\n    return (yield H.run.asynq(_c))\n"
               % (case["maxsize"], ps, bound))
        exec(src, ns)
        w = ns["body"]
        cache = find_lru(getattr(w, "fn", None))

        def caller(op):
            return w.asynq(*op["args"], **{pname(n): v for n, v in op["kw"]})
        return caller, (lambda: None if cache is None else len(cache)), w
    # methods
    ps, bound = params_src(sig, True)
    if kind == "alru":
        ns["_kf"] = key_fn_of(case["km"])
        deco = "@T.alru_cache(maxsize=%d, key_fn=_kf)" % case["maxsize"]
    else:
        deco = "@T.acached_per_instance()"
    src = ("class Obj(object):\n    def __init__(self, k):\n        self.k = k\n    %s\n    @asynq()\n    def m(%s):\n"
           "        _c = H.enter(%s)\n        return (yield H.run.asynq(_c))\n" % (deco, ps, bound))
    exec(src, ns)
    Obj = ns["Obj"]
    deco_obj = Obj.__dict__["m"]

    def caller(op):
        i = op["inst"]
        if i not in H.instances:
            H.instances[i] = Obj(i)
            H.wrefs[i] = weakref.ref(H.instances[i])
        return H.instances[i].m.asynq(*op["args"], **{pname(n): v for n, v in op["kw"]})
    if kind == "alru":
        cache = find_lru(getattr(deco_obj, "fn", None))
        return caller, (lambda: None if cache is None else len(cache)), deco_obj
    pc = getattr(deco_obj, "__acached_per_instance_cache__", None)
    if pc is None:
        pc = getattr(getattr(Obj.m, "decorator", None), "__acached_per_instance_cache__", None)

    def snap():
        if pc is None:
            return None
        return [len(pc), sum(len(v[1]) for v in pc.values())]
    return caller, snap, deco_obj


def build_family(case):
    """Several functions (or methods of one class) decorated through explicit decorator objects:
    case["decos"][d] configures decorator object d (created once: `_d0 = T.alru_cache(...)`), case["fns"][f]["deco"]
    says which object function f is decorated with - two functions may name the same object (`@_d0` twice) or
    objects created by separate, possibly identical, decorator calls."""
    kind = case["kind"]
    fns = case["fns"]
    ns = {"asynq": asynq, "H": H, "T": T}
    lines = []
    if kind == "alru":
        for d, cfg in enumerate(case["decos"]):
            ns["_kf%d" % d] = key_fn_of(cfg["km"])
            lines.append("_d%d = T.alru_cache(maxsize=%d, key_fn=_kf%d)" % (d, cfg["maxsize"], d))
    elif kind == "inst":
        for d in range(case["decos"]):
            lines.append("_d%d = T.acached_per_instance()" % d)
    else:
        for d, cfg in enumerate(case["decos"]):
            lines.append("_d%d = T.alazy_constant(ttl=%d)" % (d, cfg["ttl"]))
    method = kind == "inst" or (kind == "alru" and case["target"] == "method")
    if method:
        lines.append("class Obj(object):")
        lines.append("    def __init__(self, k):")
        lines.append("        self.k = k")
    ind = "    " if method else ""
    for f, fd in enumerate(fns):
        if kind == "lazy":
            ps, bound = "", "{}"
        else:
            ps, bound = params_src(fd["sig"], method)
        lines.append("%s@_d%d" % (ind, fd["deco"]))
        lines.append("%s@asynq()" % ind)
        lines.append("%sdef %s%d(%s):" % (ind, "m" if method else "body", f, ps))
        lines.append("%s    _c = H.enter(%s, %d)" % (ind, bound, f))
        lines.append("%s    return (yield H.run.asynq(_c))" % ind)
    exec("\n".join(lines) + "\n", ns)
    if not method:
        ws = [ns["body%d" % f] for f in range(len(fns))]
        if kind == "lazy":
            return (lambda op: ws[op["fn"]].asynq()), (lambda: None), ws
        caches = [find_lru(getattr(w, "fn", None)) for w in ws]

        def caller(op):
            return ws[op["fn"]].asynq(*op["args"], **{pname(n): v for n, v in op["kw"]})
        return caller, (lambda: [-1 if c is None else len(c) for c in caches]), ws
    Obj = ns["Obj"]
    decos = [Obj.__dict__["m%d" % f] for f in range(len(fns))]

    def caller(op):
        i = op["inst"]
        if i not in H.instances:
            H.instances[i] = Obj(i)
            H.wrefs[i] = weakref.ref(H.instances[i])
        return getattr(H.instances[i], "m%d" % op["fn"]).asynq(*op["args"], **{pname(n): v for n, v in op["kw"]})
    if kind == "alru":
        caches = [find_lru(getattr(d, "fn", None)) for d in decos]
        return caller, (lambda: [-1 if c is None else len(c) for c in caches]), decos
    pcs = [getattr(d, "__acached_per_instance_cache__", None) for d in decos]

    def snap():
        return [[-1, -1] if pc is None else [len(pc), sum(len(v[1]) for v in pc.values())] for pc in pcs]
    return caller, snap, decos


def run_case(case):
    H.log = []
    H.current = None
    H.instances = {}
    H.wrefs = {}
    H.inflight = set()
    H.now = case.get("now0", 0)
    old_utime = T.utime
    T.utime = lambda: H.now
    try:
        try:
            caller, snap, w = build(case)
        except ValueError as e:
            return {"out": "OBadMaxsize", "why": str(e)[:100]}
        H.snap = staticmethod(snap)
        ops = case["ops"]
        # finish index of every call: the first matching finish after it
        fin = {}
        for k, op in enumerate(ops):
            if op["op"] == "call":
                f = BIG + k
                for k2 in range(k + 1, len(ops)):
                    o2 = ops[k2]
                    if (o2["op"] == "finish" and o2["id"] == op["id"] and (case["kind"] != "inst" or o2.get("inst") == op.get("inst"))
                            and o2.get("fn") == op.get("fn")):
                        f = k2
                        break
                fin[k] = f
        used = set()
        for k in sorted(fin):            # a finish op serves the first call that claims it
            if fin[k] < BIG:
                if fin[k] in used:
                    fin[k] = BIG + k
                else:
                    used.add(fin[k])

        @asynq()
        def actor(k, op):
            yield gate(k)
            kind = op["op"]
            if kind == "call":
                H.current = {"id": op["id"], "bl": op["bl"], "body": op["body"], "fin": fin[k], "inst": op.get("inst")}
                try:
                    v = yield caller(op)
                    H.log.append(["ret", op["id"], v])
                except Exception as e:
                    H.log.append(["exc", op["id"], e.vid if isinstance(e, VErr) else type(e).__name__])
                    # the traceback holds the frames of the method (and so `self`); a harness that kept it
                    # would keep the instance alive after Drop
                    e.__traceback__ = None
                    e.__context__ = None
                    for a in ("_traceback", "_task"):
                        if getattr(e, a, None) is not None:
                            setattr(e, a, None)
                    e = None
                H.current = None
            elif kind == "drop":
                i = op["inst"]
                if any(j == i for (_, j) in H.inflight):
                    H.log.append(["sync", "RBusy"])
                else:
                    # the runner's only reference to the instance (completed calls hold none: results are integers /
                    # payloads, exception tracebacks are cleared above).  The next call on slot i creates a fresh
                    # instance - the next generation - which CPython places at the dead one's address if the cache
                    # under test did not keep the dead one alive (alru_cache on a method: its key tuple does).
                    H.instances.pop(i, None)
                    wr = H.wrefs.pop(i, None)
                    if wr is not None and wr() is not None:
                        gc.collect()          # the instance is only kept by garbage cycles
                    H.log.append(["sync", "RUnit"])
            elif kind == "dirty":
                (w[op["fn"]] if "fns" in case else w).dirty()
                H.log.append(["sync", "RUnit"])
            elif kind == "tick":
                H.now += op["dt"]
                H.log.append(["sync", "RUnit"])

        @asynq()
        def top():
            yield [actor.asynq(k, op) for k, op in enumerate(ops) if op["op"] != "finish"]

        top()
        H.log.append(["snap", snap()])
    finally:
        T.utime = old_utime
        H.instances = {}
    return digest(case, H.log)


def digest(case, log):
    ops = case["ops"]
    kind = case["kind"]
    # windows
    win = {}
    snaps_after = {}
    cur = None
    for ev in log:
        if ev[0] == "op":
            cur = ev[1]
            win[cur] = []
        elif ev[0] == "snap":
            if cur is not None and cur not in snaps_after:
                snaps_after[cur] = ev[1]
        elif cur is not None:
            win[cur].append(ev)
    fam = "fns" in case
    nf = len(case["fns"]) if fam else 0
    if fam:     # (call id, index of the function whose body ran)
        ran = [{"": [ev[1], ev[3] if ev[3] is not None else -1]} for ev in log if ev[0] == "run"]
    else:
        ran = [ev[1] for ev in log if ev[0] == "run"]
    bodyargs = {str(ev[1]): ev[2] for ev in log if ev[0] == "run"}
    order = [ev[1] for ev in log if ev[0] == "op" and ev[1] < BIG]
    rs = []
    last_snap = 0 if kind == "alru" else [0, 0]
    if fam:
        last_snap = [0] * nf if kind == "alru" else [[0, 0]] * nf
    ran_before = set()
    for k, op in enumerate(ops):
        evs = win.get(k)
        if evs is None:
            r = "RNoop" if op["op"] == "finish" else "RNotReached"
        elif op["op"] in ("drop", "dirty", "tick"):
            r = evs[0][1] if evs and evs[0][0] == "sync" else "RNotReached"
        else:
            i = op["id"]
            comp = [e for e in evs if e[0] in ("ret", "exc") and e[1] == i]
            didrun = any(e[0] == "run" and e[1] == i for e in evs)
            stray = [e for e in evs if e[0] in ("ret", "exc", "run") and e[1] != i]
            if stray:
                r = {"RStray": [{"s": repr(stray)[:80]}]}
            elif comp:
                e = comp[0]
                if e[0] == "ret":
                    v = encode(e[2])
                    if v is None:
                        r = {"RUnexpected": [{"s": repr(e[2])[:40]}]}
                    elif op["op"] == "finish":
                        r = {"RDone": [v]}
                    elif didrun:
                        r = {"RMiss": [v]}
                    else:
                        r = {"RHit": [v]}
                else:
                    if isinstance(e[2], int):
                        r = {"RRaise": [e[2]]}
                    elif e[2] == "TypeError":
                        r = "RTypeError"
                    else:
                        r = {"RUnexpected": [{"s": e[2]}]}
            elif didrun:
                r = "RPending"
            else:
                r = "RStuck"
        if k in snaps_after and snaps_after[k] is not None:
            last_snap = snaps_after[k]
        elif k in snaps_after and snaps_after[k] is None and kind != "lazy":
            last_snap = None
        if fam and kind == "alru":
            rs.append({"": [r, list(last_snap)]})
        elif fam and kind == "inst":
            rs.append({"": [r, [{"": list(x)} for x in last_snap]]})
        elif kind == "alru":
            rs.append({"": [r, last_snap if last_snap is not None else -1]})
        elif kind == "inst":
            s = last_snap if last_snap is not None else [-1, -1]
            rs.append({"": [r, s[0], s[1]]})
        else:
            rs.append(r)
    ctor = {"alru": "OAlru", "inst": "OInst", "lazy": "OLazy"}[kind] + ("M" if fam else "")
    return {"out": {ctor: [rs, ran]}, "bodyargs": bodyargs, "order": order}


if __name__ == "__main__":
    gc.collect()
    gc.freeze()
    _common.main(run_case)
