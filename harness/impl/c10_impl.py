"""C10 implementation runner: drives Future / ConstFuture / ErrorFuture / FutureBase / AsyncTask
through an op list using the public API only."""
import _common
from asynq import asynq
from asynq.futures import FutureBase, Future, ConstFuture, ErrorFuture, FutureIsAlreadyComputed


class VErr(Exception):
    def __init__(self, i):
        Exception.__init__(self, i)
        self.vid = i


class VBase(BaseException):
    def __init__(self, i):
        BaseException.__init__(self, i)
        self.vid = i


def pyval(t):
    if t == "VNone":
        return None
    (k, a), = t.items()
    if k == "VInt":
        return a[0]
    raise ValueError(t)


def treeval(v):
    if v is None:
        return "VNone"
    if isinstance(v, int) and not isinstance(v, bool):
        return {"VInt": [v]}
    return {"VOther": [{"s": repr(v)[:60]}]}


def exn_id(e):
    if isinstance(e, (VErr, VBase)):
        return e.vid
    if isinstance(e, FutureIsAlreadyComputed):
        return -3
    if isinstance(e, NotImplementedError):
        return -4
    return {"Unexpected": [{"s": type(e).__name__}]}


def peek(fut):
    """Outcome of a computed future, through side-effect-free public reads."""
    if not fut.is_computed():
        return None
    e = fut.error()
    if e is not None:
        return {"Err": [exn_id(e)]}
    return {"Ok": [treeval(fut.value())]}


def run_case(c):
    kind, prov, o0, ops = c["args"]
    script = list(prov)
    runs = [0]
    log = []

    def one_run():
        runs[0] += 1
        if not script:
            return None
        (k, a), = script.pop(0).items()
        if k == "PRet":
            return pyval(a[0])
        if k == "PRaise":
            raise VErr(a[0])
        raise VBase(a[0])

    if kind == "KPlain":
        fut = FutureBase()
    elif kind == "KLazy":
        fut = Future(one_run)
    elif kind == "KTask":
        @asynq()
        def body():
            if False:
                yield None
            return one_run()
        fut = body.asynq()
    elif kind == "KConst":
        fut = ConstFuture(pyval(o0["Ok"][0]))
    elif kind == "KError":
        fut = ErrorFuture(VErr(o0["Err"][0]))
    else:
        raise ValueError(kind)

    res = []
    obs = []
    for op in ops:
        if isinstance(op, str):
            name, a = op, []
        else:
            (name, a), = op.items()
        pre = peek(fut)
        pre_runs = runs[0]
        try:
            if name == "OValue":
                r = {"RVal": [treeval(fut.value())]}
            elif name == "OCall":
                r = {"RVal": [treeval(fut())]}
            elif name == "OError":
                e = fut.error()
                r = "RNoError" if e is None else {"RErr": [exn_id(e)]}
            elif name == "OIsComputed":
                r = {"RBool": ["true" if fut.is_computed() else "false"]}
            elif name == "OSetValue":
                fut.set_value(pyval(a[0]))
                r = "RUnit"
            elif name == "OSetError":
                fut.set_error(VErr(a[0]))
                r = "RUnit"
            elif name == "OReset":
                fut.reset_unsafe()
                r = "RUnit"
            elif name == "OSubscribe":
                sid, k = a

                def cb(f, sid=sid, k=k):
                    log.append({"": [sid, peek(f) or "NotVisible"]})
                    if k == "CbRaise":
                        raise VErr(900 + sid)
                fut.on_computed.subscribe(cb)
                r = "RUnit"
            else:
                raise ValueError(name)
        except BaseException as e:
            if isinstance(e, _common.Hang):
                raise
            r = {"RRaise": [exn_id(e)]}
        res.append(r)
        obs.append({"op": name, "pre": pre, "post": peek(fut), "runs": runs[0] - pre_runs, "nlog": len(log)})
    return {"out": {"": [res, log, runs[0]]}, "obs": obs}


if __name__ == "__main__":
    _common.main(run_case)
