"""C10 implementation runner: drives Future / ConstFuture / ErrorFuture / FutureBase / AsyncTask
through an op list using the public API only.

on_computed subscribers carry a behaviour script (model: Futures.cbkind): after recording the outcome
they see, they return, raise an Exception of a given class (model: Futures.xcls - the harness's own class,
AssertionError from a failing assert, a subclass of it, ValueError, KeyError, ..., StopIteration,
FutureIsAlreadyComputed, BatchingError, a user-defined class; _raise_cls), unsubscribe a subscriber (themselves, a later or an earlier one) from
fut.on_computed, subscribe a new one, or do several of these in sequence (class _Subscribers).

Kind "KSusp" (model: TaskFut.v) is an AsyncTask whose body yields one dependency per phase inside a
try/except GeneratorExit; the dependency's own computation (provider of a lazy Future, or _flush of
the batch of a batch item) issues the phase's inner operations on the suspended task."""
import _common
import asynq as asynq_pkg
from asynq import asynq
from asynq.futures import FutureBase, Future, ConstFuture, ErrorFuture, FutureIsAlreadyComputed
from asynq.batching import BatchBase, BatchItemBase, BatchingError, BatchCancelledError

E_RUNTIME = -9
E_SKIPPED = -20


class VErr(Exception):
    def __init__(self, i):
        Exception.__init__(self, i)
        self.vid = i


class VBase(BaseException):
    def __init__(self, i):
        BaseException.__init__(self, i)
        self.vid = i


class _Custom(Exception):
    """user-defined direct subclass of Exception"""


class _AssertionSub(AssertionError):
    """user-defined subclass of AssertionError"""


# KIND OF EXCEPTION OBJECT (payload dimension, implementation side only - the models abstract errors to ids): every
# exception instance the case creates - errors handed to set_error / ErrorFuture, raised by providers, task bodies,
# flush bodies, dependencies, cleanup code, on_computed subscribers - is an instance of a subclass (made here) of the
# class the case names, with the special methods of the kind.  The outcome of a future must not depend on them:
#   plain       - nothing overridden (the only kind there was)
#   falsy-len   - defines __len__ returning 0 (an aggregate / collection-like error without sub-errors)
#   falsy-bool  - defines __bool__ returning False
#   bool-raises - __bool__ raises TypeError ("truth value is ambiguous", as array-like payloads do); generated only in
#                 cases without raising subscribers: asynq reports a subscriber's exception with traceback.print_exc(),
#                 and CPython's printer itself tests every exception of the __context__ chain for truth (traceback.py,
#                 TracebackException.__init__: `if (e and e.__cause__ is not None ...`) - it cannot print such objects
#   eq-all      - __eq__ answers True to everything (None included), __ne__ False
#   eq-never    - __eq__ answers False to everything (itself included), __ne__ True
EKINDS = ("plain", "falsy-len", "falsy-bool", "bool-raises", "eq-all", "eq-never")
_EKIND = ["plain"]
_KINDED = {}


def _ambiguous(self):
    raise TypeError("the truth value of this error object is ambiguous")


def _kinded(base):
    """`base` itself (plain) or a subclass of it with the special methods of the current case's kind."""
    kind = _EKIND[0]
    if kind == "plain":
        return base
    if (base, kind) not in _KINDED:
        ns = {"__hash__": lambda self: id(self) >> 4}
        if kind == "falsy-len":
            ns["__len__"] = lambda self: 0
        elif kind == "falsy-bool":
            ns["__bool__"] = lambda self: False
        elif kind == "bool-raises":
            ns["__bool__"] = _ambiguous
        elif kind == "eq-all":
            ns["__eq__"] = lambda self, other: True
            ns["__ne__"] = lambda self, other: False
        elif kind == "eq-never":
            ns["__eq__"] = lambda self, other: False
            ns["__ne__"] = lambda self, other: True
        else:
            raise ValueError(kind)
        _KINDED[(base, kind)] = type("%s_%s" % (base.__name__, kind.replace("-", "_")), (base,), ns)
    return _KINDED[(base, kind)]


def _verr(n):
    return _kinded(VErr)(n)


def _vbase(n):
    return _kinded(VBase)(n)


# subscribers' exceptions of the current case: (exception object, subscriber id, class name) - lets the
# runner say "this operation raised the very exception a subscriber raised" (identity, not class)
_RAISED = []


def _make_exc(f, n, cls):
    """An Exception instance of class `cls` (model: Futures.xcls).  Every class is an Exception subclass;
    XAssertion comes from a failing `assert`, the way user code produces it."""
    if cls == "XUser":
        return _verr(n)
    if _EKIND[0] != "plain":
        if cls == "XAssertion":
            return _kinded(AssertionError)("%d: sanity check failed" % n)
        if cls == "XKey":
            return _kinded(KeyError)(n)
        if cls == "XAlreadyComputed":
            return _kinded(FutureIsAlreadyComputed)(f)
    if cls == "XAssertion":
        try:
            assert f is n, "%d: sanity check failed" % n
        except AssertionError as x:
            return x
        return AssertionError("%d" % n)        # only under python -O
    if cls == "XKey":
        try:
            {}[n]
        except KeyError as x:
            return x
    if cls == "XAlreadyComputed":
        return FutureIsAlreadyComputed(f)      # fabricated by user code, about some future
    table = {"XAssertionSub": _AssertionSub, "XValue": ValueError, "XIndex": IndexError, "XType": TypeError,
             "XAttribute": AttributeError, "XZeroDivision": ZeroDivisionError, "XOSError": OSError, "XRuntime": RuntimeError,
             "XNotImplemented": NotImplementedError, "XStopIteration": StopIteration, "XBatching": BatchingError,
             "XBatchCancelled": BatchCancelledError, "XCustom": _Custom}
    return _kinded(table[cls])(n)


def _raise_cls(f, sid, cls):
    """What a raising on_computed subscriber does (model: CbRaise cls)."""
    e = _make_exc(f, 900 + sid, cls)
    _RAISED.append((e, sid, cls))
    raise e


# exceptions raised by providers / bodies of the current case: (exception object, injected id)
_PROVIDED = []
_PROMISE = []


def _second_resolver(v=0):
    """PDouble: the computation is the SECOND resolver of a promise shared with another lazy resolver, which has
    already resolved it: promise.set_value() raises a genuine FutureIsAlreadyComputed(promise) out of the computation."""
    if not _PROMISE:
        promise = FutureBase()

        def first():
            promise.set_value(1)
            return 1
        assert Future(first).value() == 1 and promise.value() == 1
        _PROMISE.append(promise)
    _PROMISE[0].set_value(2)
    raise RuntimeError("the promise accepted a second resolution")    # not reached


def _end_computation(po, provlog, generator=False, batch=False):
    """What one run of a provider / task body / flush body does at its end (model: Futures.pout); records what it
    did in provlog (for the monitors).  generator=True: a generator body - a raised StopIteration reaches the task
    as a new RuntimeError (PEP 479)."""
    if po == "PDouble":
        provlog.append({"Err": [-3]})
        _second_resolver()
    (k, a), = po.items()
    if k == "PRet":
        provlog.append({"Ok": ["VNone" if batch else a[0]]})
        return pyval(a[0])
    if k == "PRaise":
        cls, n = a
        provlog.append({"Err": [E_RUNTIME if generator and cls == "XStopIteration" else n]})
        e = _make_exc(None, n, cls)
        _PROVIDED.append((e, n))
        raise e
    provlog.append({"Base" if not (generator or batch) else "Err": [a[0]]})
    raise _vbase(a[0])


def pyval(t):
    if t == "VNone":
        return None
    (k, a), = t.items()
    if k == "VInt":
        return a[0]
    raise ValueError(t)


def treeval(v):
    if v is None:
        return "VNone"
    if isinstance(v, int) and not isinstance(v, bool):
        return {"VInt": [v]}
    return {"VOther": [{"s": repr(v)[:60]}]}


def exn_id(e):
    for x, sid, cls in _RAISED:
        if x is e:
            return {"FromSubscriber": [sid, {"s": cls}]}
    for x, n in _PROVIDED:
        if x is e:
            return n
    if isinstance(e, (VErr, VBase)):
        return e.vid
    if isinstance(e, FutureIsAlreadyComputed):
        return -3
    if type(e) is AssertionError and "wasn't set on batch flush" in str(e):
        return -2
    if type(e) is BatchCancelledError:
        return -6
    if type(e) is BatchingError:
        return -5
    if isinstance(e, NotImplementedError):
        return -4
    if type(e) is RuntimeError:
        return E_RUNTIME
    return {"Unexpected": [{"s": type(e).__name__}]}


def peek(fut):
    """Outcome of a computed future, through side-effect-free public reads."""
    if not fut.is_computed():
        return None
    e = fut.error()
    if e is not None:
        return {"Err": [exn_id(e)]}
    return {"Ok": [treeval(fut.value())]}


def yield_read(fut):
    """Outcome of a COMPUTED future as a parent task that yields it receives it: {"Ok": v} = the yield expression
    evaluated to v, {"Err": id} = the exception was thrown into the parent at the yield.  None: not computed (not
    yielded - that would compute it)."""
    if not fut.is_computed():
        return None

    @asynq()
    def parent():
        try:
            v = yield fut
        except BaseException as e:
            if isinstance(e, (_common.Hang, GeneratorExit)):
                raise
            return {"Err": [exn_id(e)]}
        return {"Ok": [treeval(v)]}
    try:
        return parent()
    except BaseException as e:
        if isinstance(e, _common.Hang):
            raise
        return {"ParentFailed": [exn_id(e)]}


class _Batch(BatchBase):
    def __init__(self, work, on_cancel=None):
        BatchBase.__init__(self)
        self.work = work
        self.on_cancel = on_cancel

    def _cancel(self):
        if self.on_cancel is not None:
            self.on_cancel(self)

    def _try_switch_active_batch(self):
        pass

    def _flush(self):
        self.work(self)


class _Item(BatchItemBase):
    pass


def _split(op):
    if isinstance(op, str):
        return op, []
    (name, a), = op.items()
    return name, a


class _Subscribers(object):
    """Creates on_computed handlers from behaviour scripts and keeps the harness's own record of the
    subscribe()/unsubscribe() calls that returned normally: `reg` = (sid, handler) in call order.
    `sinking` = ConstFuture / ErrorFuture, whose hook ignores subscriptions."""

    def __init__(self, log, sinking=False, tag=None):
        self.log = log
        self.sinking = sinking
        self.tag = tag       # KBatch: which future of the case these subscribers belong to (0 = batch, i = item i)
        self.futs = None     # KBatch: the futures of the case (CbSet targets); None = single-future family
        self.sets = None     # KBatch: shared record of the cross-future sets that returned normally
        self.reg = []
        self.events = []     # what the subscribers did to the subscription list while being called
        self.raises = []     # which subscriber raised which Exception class, during which notification

    def ids(self):
        return [sid for sid, _ in self.reg]

    def subscribe(self, fut, sid, k):
        def cb(f, sid=sid, k=k):
            nlog = len(self.log)
            self.log.append({"": ([] if self.tag is None else [self.tag]) + [sid, peek(f) or "NotVisible"]})
            self.script(f, sid, k, nlog)
        cb.sid = sid
        fut.on_computed.subscribe(cb)
        if not self.sinking:
            self.reg.append((sid, cb))

    def script(self, f, sid, k, nlog):
        name, a = _split(k)
        if name == "CbOk":
            return
        if name == "CbRaise":
            self.raises.append({"nlog": nlog, "by": sid, "cls": a[0]})
            _raise_cls(f, sid, a[0])
        if name == "CbUnsub":
            target = a[0]
            idx = [i for i, (t, _) in enumerate(self.reg) if t == target]
            ev = {"nlog": nlog, "by": sid, "act": "unsubscribe", "target": target, "ok": False}
            self.events.append(ev)
            if idx:
                h = self.reg[idx[0]][1]
            else:
                def h(f):            # never subscribed: unsubscribe() raises ValueError
                    pass
            f.on_computed.unsubscribe(h)
            ev["ok"] = True
            if idx:
                del self.reg[idx[0]]
            return
        if name == "CbSub":
            self.events.append({"nlog": nlog, "by": sid, "act": "subscribe", "target": a[0], "ok": True})
            self.subscribe(f, a[0], a[1])
            return
        if name == "CbSeq":
            self.script(f, sid, a[0], nlog)
            self.script(f, sid, a[1], nlog)
            return
        if name == "CbSet":
            # completes another future of the case from inside the notification (single-future families: the
            # only future there is - the one being notified)
            t, o, guarded = a
            target = f if self.futs is None else self.futs[t]        # IndexError: no such future - the callback raises
            if guarded == "true" and target.is_computed():
                return
            (k2, v), = o.items()
            if k2 == "Ok":
                target.set_value(pyval(v[0]))
            else:
                target.set_error(_verr(v[0]))
            if self.sets is not None:
                self.sets.append({"fut": self.tag, "by": sid, "target": t, "o": {k2: [v[0]]}})
            return
        raise ValueError(name)

    def final(self, fut):
        """The subscribers registered at the end, as the hook itself enumerates them."""
        return [getattr(h, "sid", -1) for h in fut.on_computed]


def run_susp(c):
    """AsyncTask driven by the scheduler; inner operations run while it is suspended."""
    _, phases, fin, ops = c["args"]
    asynq_pkg.scheduler.reset()
    runs = [0]
    log = []
    inner_res = []
    reg = _Subscribers(log)
    points = []       # observation points: before / after every operation, top-level or inner
    provlog = []      # how each run of the body ended by itself (returned / raised), observed
    resumed = []      # what each yield of the body delivered (value sent in / error thrown in) + the dependency's own report
    holder = {}

    def point(when, lvl, i, name, extra=None):
        d = {"when": when, "lvl": lvl, "i": i, "op": name, "st": peek(holder["t"]), "nlog": len(log),
             "subs": reg.ids(), "runs": runs[0], "nprov": len(provlog)}
        if extra:
            d.update(extra)
        points.append(d)

    subscribe = reg.subscribe

    def run_inner(pi, ph):
        task = holder["t"]
        via, clean, iops, dep = ph["mkphase"]
        cname = clean if isinstance(clean, str) else next(iter(clean))
        for j, op in enumerate(iops):
            name, a = _split(op)
            tag = {"phase": pi, "clean": cname, "via": via}
            point("pre", "in", j, name, tag)
            try:
                if name == "IIsComputed":
                    r = {"RBool": ["true" if task.is_computed() else "false"]}
                elif name == "ISetValue":
                    task.set_value(pyval(a[0]))
                    r = "RUnit"
                elif name == "ISetError":
                    task.set_error(_verr(a[0]))
                    r = "RUnit"
                elif name == "ISubscribe":
                    subscribe(task, a[0], a[1])
                    r = "RUnit"
                elif name in ("IValue", "ICall", "IError"):
                    # guarded: a computing read of the suspended task from inside its own dependency's
                    # computation re-enters the scheduler; it is not issued
                    if not task.is_computed():
                        r = {"RRaise": [E_SKIPPED]}
                    elif name == "IValue":
                        r = {"RVal": [treeval(task.value())]}
                    elif name == "ICall":
                        r = {"RVal": [treeval(task())]}
                    else:
                        e = task.error()
                        r = "RNoError" if e is None else {"RErr": [exn_id(e)]}
                else:
                    raise ValueError(name)
            except BaseException as e:
                if isinstance(e, _common.Hang):
                    raise
                r = {"RRaise": [exn_id(e)]}
            inner_res.append(r)
            tag = dict(tag)
            tag["r"] = r
            point("post", "in", j, name, tag)

    def finish_dep(dep):
        (k, a), = dep.items()
        if k == "Ok":
            return pyval(a[0])
        raise _verr(a[0])

    deps = []
    for pi, ph in enumerate(phases):
        via, clean, iops, dep = ph["mkphase"]
        if via == "ViaFuture":
            def provider(pi=pi, ph=ph, dep=dep):
                run_inner(pi, ph)
                return finish_dep(dep)
            deps.append(Future(provider))
        else:
            def work(batch, pi=pi, ph=ph, dep=dep):
                run_inner(pi, ph)
                for item in batch.items:
                    try:
                        v = finish_dep(dep)
                    except VErr as e:
                        item.set_error(e)
                    else:
                        item.set_value(v)
            deps.append(_Item(_Batch(work)))

    @asynq()
    def body():
        runs[0] += 1
        if False:
            yield None
        for pi, ph in enumerate(phases):
            clean = ph["mkphase"][1]
            try:
                got = yield deps[pi]
            except VErr as e:             # the failed dependency, thrown in by the scheduler
                resumed.append({"phase": pi, "via": ph["mkphase"][0], "got": {"Err": [e.vid]}, "dep": peek(deps[pi])})
                provlog.append({"Err": [e.vid]})
                raise
            except GeneratorExit:
                if clean == "CleanYield":
                    yield None          # ignores GeneratorExit: close() raises RuntimeError
                elif clean != "CleanOk":
                    (k, a), = clean.items()
                    if k == "CleanRaise":
                        raise _verr(a[0])
                    raise _vbase(a[0])
                raise
            resumed.append({"phase": pi, "via": ph["mkphase"][0], "got": {"Ok": [treeval(got)]}, "dep": peek(deps[pi])})
        return _end_computation(fin, provlog, generator=True)

    task = body.asynq()
    holder["t"] = task

    res = []
    for i, op in enumerate(ops):
        name, a = _split(op)
        point("pre", "top", i, name)
        try:
            if name == "OValue":
                r = {"RVal": [treeval(task.value())]}
            elif name == "OCall":
                r = {"RVal": [treeval(task())]}
            elif name == "OError":
                e = task.error()
                r = "RNoError" if e is None else {"RErr": [exn_id(e)]}
            elif name == "OIsComputed":
                r = {"RBool": ["true" if task.is_computed() else "false"]}
            elif name == "OSetValue":
                task.set_value(pyval(a[0]))
                r = "RUnit"
            elif name == "OSetError":
                task.set_error(_verr(a[0]))
                r = "RUnit"
            elif name == "OReset":
                task.reset_unsafe()
                r = "RUnit"
            elif name == "OSubscribe":
                subscribe(task, a[0], a[1])
                r = "RUnit"
            else:
                raise ValueError(name)
        except BaseException as e:
            if isinstance(e, _common.Hang):
                raise
            r = {"RRaise": [exn_id(e)]}
        res.append(r)
        point("post", "top", i, name, {"r": r})
    out = {"": [res, inner_res, log, runs[0], reg.final(task)]}
    return {"out": out, "points": points, "prov": provlog, "events": reg.events, "raises": reg.raises,
            "resumed": resumed, "final": peek(task), "yield": yield_read(task), "ekind": _EKIND[0]}


def run_batch(c):
    """KBatch (model: BatchFut.v): a BatchBase with BatchItemBase items, every future with its own scripted
    subscribers; the flush body goes over the items and sets what the case says, then returns / raises."""
    _, items, fin, ops = c["args"][:4]
    cancel_script = c["args"][4] if len(c["args"]) > 4 else []
    asynq_pkg.scheduler.reset()
    runs = [0]
    log = []
    inner_res = []
    points = []
    provlog = []

    def on_cancel(batch):
        # a _cancel() override that fills items in (well-behaved: tests is_computed() first)
        for ent in cancel_script:
            i, o = ent[""][0]["n"], ent[""][1]
            if i < len(its) and not its[i].is_computed():
                (k, a), = o.items()
                if k == "Ok":
                    its[i].set_value(pyval(a[0]))
                else:
                    its[i].set_error(_verr(a[0]))

    def work(batch):
        runs[0] += 1
        for idx, it in enumerate(its):
            for j, o in enumerate(acts[idx]):
                (k, a), = o.items()
                name = "ISetValue" if k == "Ok" else "ISetError"
                point("pre", "in", j, name, {"t": idx + 1})
                try:
                    if k == "Ok":
                        it.set_value(pyval(a[0]))
                    else:
                        it.set_error(_verr(a[0]))
                    r = "RUnit"
                except BaseException as e:
                    if isinstance(e, _common.Hang):
                        raise
                    r = {"RRaise": [exn_id(e)]}
                    inner_res.append(r)
                    point("post", "in", j, name, {"t": idx + 1, "r": r})
                    provlog.append({"Err": [exn_id(e)]})
                    raise                       # a plain `for item: item.set_value(...)` body: the exception ends it
                inner_res.append(r)
                point("post", "in", j, name, {"t": idx + 1, "r": r})
        return _end_computation(fin, provlog, batch=True)    # the batch's value is None whatever _flush returns

    batch = _Batch(work, on_cancel)
    its = []
    acts = []
    regs = [_Subscribers(log, tag=0)]
    for idx, sp in enumerate(items):
        subs, act = sp[""]
        it = _Item(batch)
        its.append(it)
        acts.append(act)
        reg = _Subscribers(log, tag=idx + 1)
        regs.append(reg)
        for sb in subs:
            reg.subscribe(it, sb[""][0], sb[""][1])
    futs = [batch] + its
    xsets = []
    for r_ in regs:
        r_.futs = futs
        r_.sets = xsets

    def point(when, lvl, i, name, extra=None):
        d = {"when": when, "lvl": lvl, "i": i, "op": name, "st": [peek(f) for f in futs], "nlog": len(log),
             "subs": [r.ids() for r in regs], "runs": runs[0], "nprov": len(provlog), "nsets": len(xsets)}
        if extra:
            d.update(extra)
        points.append(d)

    res = []
    for i, op in enumerate(ops):
        name, a = _split(op)
        t = 0
        if name == "BOn":
            t = a[0]["n"]
            name, a = _split(a[1])
        point("pre", "top", i, name, {"t": t})
        try:
            f = futs[t] if t < len(futs) else None
            if name == "BFlush":
                batch.flush()
                r = "RUnit"
            elif name == "BCancel":
                batch.cancel()
                r = "RUnit"
            elif f is None:
                r = {"RRaise": [E_SKIPPED]}
            elif name == "OIsComputed":
                r = {"RBool": ["true" if f.is_computed() else "false"]}
            elif name == "OValue":
                r = {"RVal": [treeval(f.value())]}
            elif name == "OCall":
                r = {"RVal": [treeval(f())]}
            elif name == "OError":
                e = f.error()
                r = "RNoError" if e is None else {"RErr": [exn_id(e)]}
            elif name == "OSetValue":
                f.set_value(pyval(a[0]))
                r = "RUnit"
            elif name == "OSetError":
                f.set_error(_verr(a[0]))
                r = "RUnit"
            elif name == "OSubscribe":
                regs[t].subscribe(f, a[0], a[1])
                r = "RUnit"
            else:
                r = {"RRaise": [E_SKIPPED]}      # not part of this family: not issued
        except BaseException as e:
            if isinstance(e, _common.Hang):
                raise
            r = {"RRaise": [exn_id(e)]}
        res.append(r)
        point("post", "top", i, name, {"t": t, "r": r})
    finals = []
    for it, reg in zip(its, regs[1:]):
        st = peek(it)
        finals.append({"": ["None" if st is None else {"Some": [st]}, reg.final(it)]})
    events = [dict(e, fut=r.tag) for r in regs for e in r.events]
    raises = [dict(e, fut=r.tag) for r in regs for e in r.raises]
    out = {"": [res, inner_res, log, runs[0], regs[0].final(batch), finals]}
    return {"out": out, "points": points, "prov": provlog, "events": events, "raises": raises, "sets": xsets,
            "final": [peek(f) for f in futs], "yield": [yield_read(f) for f in futs], "ekind": _EKIND[0]}


def run_case(c):
    del _RAISED[:]
    del _PROVIDED[:]
    del _PROMISE[:]
    _EKIND[0] = c.get("ekind", "plain")
    if _EKIND[0] not in EKINDS:
        raise ValueError(_EKIND[0])
    if c["args"][0] == "KSusp":
        return run_susp(c)
    if c["args"][0] == "KBatch":
        return run_batch(c)
    kind, prov, o0, ops = c["args"]
    script = list(prov)
    runs = [0]
    log = []

    provlog = []     # what each run of the underlying computation did (observed, for the monitors)

    def one_run():
        runs[0] += 1
        if not script:
            provlog.append({"Ok": ["VNone"]})
            return None
        return _end_computation(script.pop(0), provlog, generator=kind == "KTask")

    if kind == "KPlain":
        fut = FutureBase()
    elif kind == "KLazy":
        fut = Future(one_run)
    elif kind == "KTask":
        @asynq()
        def body():
            if False:
                yield None
            return one_run()
        fut = body.asynq()
    elif kind == "KConst":
        fut = ConstFuture(pyval(o0["Ok"][0]))
    elif kind == "KError":
        fut = ErrorFuture(_verr(o0["Err"][0]))
    else:
        raise ValueError(kind)

    reg = _Subscribers(log, sinking=kind in ("KConst", "KError"))
    res = []
    obs = []
    for op in ops:
        if isinstance(op, str):
            name, a = op, []
        else:
            (name, a), = op.items()
        pre = peek(fut)
        pre_subs = reg.ids()
        pre_runs = runs[0]
        pre_prov = len(provlog)
        try:
            if name == "OValue":
                r = {"RVal": [treeval(fut.value())]}
            elif name == "OCall":
                r = {"RVal": [treeval(fut())]}
            elif name == "OError":
                e = fut.error()
                r = "RNoError" if e is None else {"RErr": [exn_id(e)]}
            elif name == "OIsComputed":
                r = {"RBool": ["true" if fut.is_computed() else "false"]}
            elif name == "OSetValue":
                fut.set_value(pyval(a[0]))
                r = "RUnit"
            elif name == "OSetError":
                fut.set_error(_verr(a[0]))
                r = "RUnit"
            elif name == "OReset":
                fut.reset_unsafe()
                r = "RUnit"
            elif name == "OSubscribe":
                reg.subscribe(fut, a[0], a[1])
                r = "RUnit"
            else:
                raise ValueError(name)
        except BaseException as e:
            if isinstance(e, _common.Hang):
                raise
            r = {"RRaise": [exn_id(e)]}
        res.append(r)
        obs.append({"op": name, "pre": pre, "post": peek(fut), "runs": runs[0] - pre_runs, "nlog": len(log),
                    "prov": provlog[pre_prov:], "subs": pre_subs})
    out = {"": [res, log, runs[0], reg.final(fut)]}
    return {"out": out, "obs": obs, "events": reg.events, "raises": reg.raises,
            "final": peek(fut), "yield": yield_read(fut), "ekind": _EKIND[0]}


if __name__ == "__main__":
    _common.main(run_case)
