"""C12 implementation runner: real @deduplicate() callables driven through the real scheduler.

A case is (scripts, ops).  `ops` is executed by a "conductor" that lives in the _flush of a
harness batch lane: Call/Dirty ops are performed from outside any running body (optionally on a
second thread), `OGo` hands every task created so far to awaiter tasks so that the scheduler starts
them (in creation order), `OFlush e` lets the e-th body execution pass the gate it is blocked on.
Bodies follow scripts[e] (e = index of the body execution): gates, calls / dirty() issued from
inside the running body, then return or raise.  After the op list everything left is drained
(collect, then lowest gated execution first).  Every lane is its own BatchBase instance and the
harness picks the lane to flush through get_priority(), so all control goes through public API.

Every callable exists in NGEN "generations": the def / class statements below are executed NGEN
times (twice by a loop in one scope = the same name defined again in the same scope, once more by
a second invocation of the enclosing factory = closures of a factory), giving distinct function
objects, classes and DeduplicateDecorators that all have the same __module__ and __qualname__ and
all share the class-level DeduplicateDecorator.tasks dict.

Scale: `OFan thread fn gen inst sp lo n` (conductor) / `BFan fn gen inst sp lo n` (inside a body) is
the usual fan-out `[fn.asynq(i) for i in range(lo, lo + n)]` (sp = 1: `fn.asynq(a=i)`): n distinct
keys registered at the same time, thousands in the big cases.  What the fan-out calls returned is
reported run-length encoded (compress_trace / compress_got mirror Dedup.v)."""
import inspect
import queue
import threading

import _common
import asynq
import qcore
from asynq import asynq as asynq_dec
from asynq.batching import BatchBase, BatchItemBase
from asynq.tools import deduplicate, DeduplicateDecorator

NAMES = {0: "self", 1: "a", 2: "b", 3: "c", 4: "d", 5: "x", 6: "y", 7: "z"}
RNAMES = {v: k for k, v in NAMES.items()}


class VErr(Exception):
    def __init__(self, i):
        Exception.__init__(self, i)
        self.vid = i


NGEN = 3


class Inst(object):
    def __init__(self, g, i):
        self.g = g
        self.i = i


# ------------------------------------------------------------------ harness batch lanes
class H(object):
    """per-case harness state"""
    cur = None


class LaneBatch(BatchBase):
    def __init__(self, lane):
        BatchBase.__init__(self)
        self.lane = lane

    def _try_switch_active_batch(self):
        if H.cur.lanes.get(self.lane) is self:
            del H.cur.lanes[self.lane]

    def get_priority(self):
        return (1 if H.cur.target() == self.lane else 0, 0)

    def _flush(self):
        H.cur.on_flush(self.lane)
        for it in self.items:
            it.set_value(None)

    def _cancel(self):
        pass


class LaneItem(BatchItemBase):
    pass


def gate(lane):
    h = H.cur
    b = h.lanes.get(lane)
    if b is None:
        b = h.lanes[lane] = LaneBatch(lane)
    return LaneItem(b)


# ------------------------------------------------------------------ tree <-> python
def pyval(t):
    if t == "ANone":
        return None
    (k, a), = t.items()
    if k == "AInt":
        return a[0]
    raise ValueError(t)


def treeval(v):
    if v is None:
        return "ANone"
    if isinstance(v, Inst):
        return {"AInst": [v.g, v.i]}
    if isinstance(v, int) and not isinstance(v, bool):
        return {"AInt": [v]}
    return {"AOther": [{"s": repr(v)[:40]}]}


def outval(v):
    if v is None:
        return {"Ok": ["VNone"]}
    if isinstance(v, int) and not isinstance(v, bool):
        return {"Ok": [{"VInt": [v]}]}
    return {"Ok": [{"VOther": [{"s": repr(v)[:40]}]}]}


def ranges(ids):
    """sorted ints -> [[lo, hi), ...]"""
    out = []
    for i in ids:
        if out and out[-1][1] == i:
            out[-1][1] = i + 1
        else:
            out.append([i, i + 1])
    return out


# ---- run-length encoding of the compared output: the same functions as Dedup.v compress_trace / compress_got
def compress_trace(trace):
    acc = []
    i = 0
    n = len(trace)
    while i < n:
        (k, a), = trace[i].items()
        if k == "EFanCall":
            cid, ctx, r = a
            seg1 = {"SegErr": [1]} if r == "RTypeErr" else {"SegTask": [r["RTask"][0], 1, r["RTask"][1]]}
            top = acc[-1] if acc else None
            if top is not None and "CFan" in top and cid == top["CFan"][0] + top["CFan"][2] and ctx == top["CFan"][1]:
                f = top["CFan"]
                f[2] += 1
                segs = f[3]
                last = segs[-1]
                if r == "RTypeErr" and "SegErr" in last:
                    last["SegErr"][0] += 1
                elif (r != "RTypeErr" and "SegTask" in last and r["RTask"][0] == last["SegTask"][0] + last["SegTask"][1]
                      and r["RTask"][1] == last["SegTask"][2]):
                    last["SegTask"][1] += 1
                else:
                    segs.append(seg1)
            else:
                acc.append({"CFan": [cid, ctx, 1, [seg1]]})
            i += 1
        elif k == "EStart" and i + 1 < n and "EDone" in trace[i + 1]:
            e, t = a
            e2, o = trace[i + 1]["EDone"]
            if e == e2:
                top = acc[-1] if acc else None
                if (top is not None and "CRuns" in top and e == top["CRuns"][0] + top["CRuns"][2]
                        and t == top["CRuns"][1] + top["CRuns"][2] and o == top["CRuns"][3]):
                    top["CRuns"][2] += 1
                else:
                    acc.append({"CRuns": [e, t, 1, o]})
                i += 2
            else:
                acc.append({"CEv": [trace[i]]})
                i += 1
        else:
            acc.append({"CEv": [trace[i]]})
            i += 1
    out = []
    for c in acc:
        if "CRuns" in c and c["CRuns"][2] == 1:
            e, t, _, o = c["CRuns"]
            out += [{"CEv": [{"EStart": [e, t]}]}, {"CEv": [{"EDone": [e, o]}]}]
        else:
            out.append(c)
    return out


def compress_got(got):
    acc = []
    for cid, o in got:
        if acc and cid == acc[-1][0] + acc[-1][1] and o == acc[-1][2]:
            acc[-1][1] += 1
        else:
            acc.append([cid, 1, o])
    return [{"": x} for x in acc]


def outerr(e):
    if isinstance(e, VErr):
        return {"Err": [e.vid]}
    return {"Err": [{"Unexpected": [{"s": type(e).__name__}]}]}


class Case(object):
    def __init__(self, scripts, ops):
        self.scripts = scripts
        self.ops = list(ops)
        self.pos = 0
        self.lanes = {}
        self.fresh = []          # (cid, task) not yet handed to an awaiter
        self.gated = set()       # body executions blocked on their gate
        self.nexec = 0
        self.ncall = 0
        self.tids = {}           # id(task) -> tid   (tasks are kept alive in self.keep)
        self.keep = []
        self.trace = []
        self.seq = []            # richer event list for the monitors
        self.got = {}
        self.final = False
        self.exec_of = {}        # id(task) -> exec index
        self.worker = None
        self.make_callables()

    # ---- the callables under test (fresh per case; the signatures are mirrored in Dedup.v `sigs`)
    def make_callables(self):
        self.fns = {}
        self.insts = {}
        self.C = {}
        self.define([0, 1])          # one scope, the names defined twice
        self.define([2])             # the factory invoked again
        assert sorted(self.fns) == list(range(NGEN))
        names = set()
        objs = set()
        for g in self.fns:
            for f in self.fns[g] + [self.C[g].__dict__["m"], self.C[g].__dict__["s"]]:
                if f is not None:
                    o = qcore.get_original_fn(f)
                    o = getattr(o, "__func__", o)
                    names.add((o.__module__, o.__qualname__))
                    objs.add(id(o))
        if len(names) != 7 or len(objs) != 7 * NGEN:
            raise RuntimeError("harness: generations do not share module/qualname: %r" % sorted(names))
        self.kinds = ["function", "function", "function", "function", "method", "static", "function"]
        self.sigs = [inspect.signature(f) for f in (
            lambda a, b=0: 0, lambda a, b=0: 0, lambda a, b, c=5, *, d=7: 0, lambda a, **kw: 0,
            lambda self, a, b=0: 0, lambda a, b=0: 0, lambda a, *rest, d=0: 0)]

    def define(self, gens):
        case = self

        def body(*bound):
            e = case.nexec
            case.nexec += 1
            me = asynq.scheduler.get_active_task()
            tid = case.tid_of(me)
            case.exec_of[id(me)] = e
            case.trace.append({"EStart": [e, tid]})
            case.seq.append(("start", e, tid))
            steps, fin = case.scripts[e][""] if e < len(case.scripts) else ([], {"Ret": [0]})
            for st in steps:
                if st == "BGate":
                    case.gated.add(e)
                    yield gate(e)
                    case.gated.discard(e)
                else:
                    (k, a), = st.items()
                    if k == "BCall":
                        case.do_call(e, 0, *a)
                    elif k == "BDirty":
                        case.do_dirty(e, 0, *a)
                    elif k == "BFan":
                        case.do_fan(e, 0, *a)
                    else:
                        raise ValueError(st)
            (k, a), = fin.items()
            oc = {"Ok": [{"VInt": [a[0]]}]} if k == "Ret" else {"Err": [a[0]]}
            case.trace.append({"EDone": [e, oc]})
            case.seq.append(("done", e, tid, oc))
            if k == "Ret":
                return a[0]
            raise VErr(a[0])

        for g in gens:
            @deduplicate()
            @asynq_dec()
            def f0(a, b=0):
                return (yield from body(a, b))

            @deduplicate()
            @asynq_dec()
            def f1(a, b=0):
                return (yield from body(a, b))

            @deduplicate()
            @asynq_dec()
            def f2(a, b, c=5, *, d=7):
                return (yield from body(a, b, c, d))

            @deduplicate()
            @asynq_dec()
            def f3(a, **kw):
                return (yield from body(a, kw))

            class C(Inst):
                @deduplicate()
                @asynq_dec()
                def m(self, a, b=0):
                    return (yield from body(self, a, b))

                @deduplicate()
                @asynq_dec()
                @staticmethod
                def s(a, b=0):
                    return (yield from body(a, b))

            @deduplicate()
            @asynq_dec()
            def f6(a, *rest, d=0):
                return (yield from body(a, rest, d))

            self.insts[g] = [C(g, 0), C(g, 1)]
            self.fns[g] = [f0, f1, f2, f3, None, None, f6]
            self.C[g] = C

    def callable(self, fn, gen, inst):
        g = gen % NGEN
        if fn == 4:
            return self.insts[g][inst % 2].m
        if fn == 5:
            return self.C[g].s if inst % 2 == 0 else self.insts[g][1].s
        return self.fns[g][fn]

    def tid_of(self, task):
        k = id(task)
        if k not in self.tids:
            self.tids[k] = len(self.tids)
            self.keep.append(task)
        return self.tids[k]

    # ---- reference binding: Python's own inspect.signature().bind, independent of get_args_tuple
    def refbind(self, fn, gen, inst, pos, kw):
        sig = self.sigs[fn]
        args = [pyval(p) for p in pos]
        if fn == 4:
            args = [self.insts[gen % NGEN][inst % 2]] + args
        kwargs = {NAMES[k[""][0]]: pyval(k[""][1]) for k in kw}
        try:
            b = sig.bind(*args, **kwargs)
        except TypeError:
            return "None"
        b.apply_defaults()
        named, rest, extra = [], [], []
        for name, p in sig.parameters.items():
            v = b.arguments[name]
            if p.kind == p.VAR_POSITIONAL:
                rest = [treeval(x) for x in v]
            elif p.kind == p.VAR_KEYWORD:
                extra = [{"": [RNAMES[n], treeval(x)]} for n, x in sorted(v.items())]
            else:
                named.append(treeval(v))
        return {"Some": [{"": [named, rest, extra]}]}

    def on_thread(self, thread, f):
        if thread == 0:
            return f()
        if self.worker is None:
            self.worker = Worker()
        return self.worker.run(f)

    def do_call(self, ctx, thread, fn, gen, inst, pos, kw):
        cid = self.ncall
        self.ncall += 1
        c = self.callable(fn, gen, inst)
        args = [pyval(p) for p in pos]
        kwargs = {NAMES[k[""][0]]: pyval(k[""][1]) for k in kw}
        bnd = self.refbind(fn, gen, inst, pos, kw)
        inflight = ranges([i for i, t in enumerate(self.keep) if not t.is_computed()])   # keep[i] is task i
        running = [self.tids[id(t)] for t in self.keep if t.running]
        known = len(self.tids)
        try:
            t = self.on_thread(thread, lambda: c.asynq(*args, **kwargs))
        except TypeError:
            t = None
        if t is None:
            res = "RTypeErr"
            tid = None
        else:
            tid = self.tid_of(t)
            res = {"RTask": [tid, "true" if tid >= known else "false"]}
            self.fresh.append((cid, t))
        self.trace.append({"ECall": [cid, ctx, res, bnd]})
        self.seq.append(("call", dict(cid=cid, ctx=ctx, thread=thread, fn=fn, gen=gen % NGEN, inst=(inst % 2 if fn in (4, 5) else 0),
                                      kind=self.kinds[fn], npos=len(pos), kws=sorted(kwargs), bound=bnd, tid=tid,
                                      new=(tid is not None and tid >= known), inflight=inflight, running=running,
                                      was_computed=(None if t is None else bool(t.is_computed())))))

    def do_fan(self, ctx, thread, fn, gen, inst, sp, lo, n):
        """[fn.asynq(i) for i in range(lo, lo + n)] (sp == 1: fn.asynq(a=i)), all on one thread, nothing runs in between"""
        c = self.callable(fn, gen, inst)
        inflight = ranges([i for i, t in enumerate(self.keep) if not t.is_computed()])
        running = [self.tids[id(t)] for t in self.keep if t.running]
        known0 = len(self.tids)

        def go():
            res = []
            for i in range(lo, lo + max(0, n)):
                try:
                    res.append(c.asynq(a=i) if sp == 1 else c.asynq(i))
                except TypeError:
                    res.append(None)
            return res
        tasks = self.on_thread(thread, go)
        cid0 = self.ncall
        segs = []           # [tid0, count, new] / [None, count, False]
        for t in tasks:
            cid = self.ncall
            self.ncall += 1
            if t is None:
                self.trace.append({"EFanCall": [cid, ctx, "RTypeErr"]})
                if segs and segs[-1][0] is None:
                    segs[-1][1] += 1
                else:
                    segs.append([None, 1, False])
                continue
            known = len(self.tids)
            tid = self.tid_of(t)
            new = tid >= known
            self.fresh.append((cid, t))
            self.trace.append({"EFanCall": [cid, ctx, {"RTask": [tid, "true" if new else "false"]}]})
            if segs and segs[-1][0] is not None and segs[-1][0] + segs[-1][1] == tid and segs[-1][2] == new:
                segs[-1][1] += 1
            else:
                segs.append([tid, 1, new])
        self.seq.append(("fan", dict(cid0=cid0, ctx=ctx, thread=thread, fn=fn, gen=gen % NGEN, inst=(inst % 2 if fn in (4, 5) else 0),
                                     kind=self.kinds[fn], sp=sp, lo=lo, n=len(tasks), segs=segs, known=known0,
                                     inflight=inflight, running=running)))

    def do_dirty(self, ctx, thread, fn, gen, inst, pos, kw):
        c = self.callable(fn, gen, inst)
        args = [pyval(p) for p in pos]
        kwargs = {NAMES[k[""][0]]: pyval(k[""][1]) for k in kw}
        bnd = self.refbind(fn, gen, inst, pos, kw)
        try:
            self.on_thread(thread, lambda: c.dirty(*args, **kwargs))
            ok = "true"
        except TypeError:
            ok = "false"
        self.trace.append({"EDirty": [ctx, ok]})
        self.seq.append(("dirty", dict(ctx=ctx, thread=thread, fn=fn, gen=gen % NGEN, inst=(inst % 2 if fn in (4, 5) else 0), bound=bnd, ok=ok)))

    # ---- conductor
    def _skip_invalid(self):
        while self.pos < len(self.ops):
            o = self.ops[self.pos]
            if isinstance(o, dict) and "OFlush" in o and o["OFlush"][0]["n"] not in self.gated:
                self.pos += 1
            else:
                return

    def target(self):
        self._skip_invalid()
        if self.pos < len(self.ops):
            o = self.ops[self.pos]
            if isinstance(o, dict) and "OFlush" in o:
                return o["OFlush"][0]["n"]
            return "C"
        if self.fresh or not self.gated:
            return "C"
        return min(self.gated)

    def on_flush(self, lane):
        tgt = self.target()
        if lane != tgt:
            raise RuntimeError("harness: scheduler flushed lane %r, conductor wanted %r" % (lane, tgt))
        if lane == "C":
            while self.pos < len(self.ops):
                o = self.ops[self.pos]
                if o == "OGo":
                    self.pos += 1
                    break
                (k, a), = o.items()
                if k == "OCall":
                    self.do_call(-1, *a)
                elif k == "ODirty":
                    self.do_dirty(-1, *a)
                elif k == "OFan":
                    self.do_fan(-1, *a)
                else:
                    break
                self.pos += 1
            # nothing is running, created or gated: the remaining flush ops can never become valid
            if not self.fresh and not self.gated and all(
                    isinstance(o, dict) and "OFlush" in o for o in self.ops[self.pos:]):
                self.final = True
        else:
            if self.pos < len(self.ops):
                self.pos += 1


class Worker(object):
    """one persistent second thread per case (the cache key holds the Thread object)"""

    def __init__(self):
        self.q = queue.Queue()
        self.r = queue.Queue()
        self.t = threading.Thread(target=self.loop, daemon=True)
        self.t.start()

    def loop(self):
        while True:
            f = self.q.get()
            if f is None:
                return
            try:
                self.r.put((True, f()))
            except BaseException as e:
                self.r.put((False, e))

    def run(self, f):
        self.q.put(f)
        ok, v = self.r.get(timeout=20)
        if ok:
            return v
        raise v

    def stop(self):
        self.q.put(None)
        self.t.join(5)


@asynq_dec()
def awaiter(case, cid, t):
    try:
        v = yield t
        case.got[cid] = outval(v)
    except Exception as e:
        case.got[cid] = outerr(e)


@asynq_dec()
def collector(case):
    yield gate("C")
    new = case.fresh[:]
    del case.fresh[:]
    aws = [awaiter.asynq(case, cid, t) for cid, t in new]
    if case.final:
        yield aws
    else:
        yield aws + [collector.asynq(case)]


def run_case(c):
    scripts, ops = c["args"]
    DeduplicateDecorator.tasks.clear()
    asynq.scheduler.reset()
    case = H.cur = Case(scripts, ops)
    try:
        collector.asynq(case).value()
    finally:
        if case.worker:
            case.worker.stop()
    left = len(DeduplicateDecorator.tasks)
    DeduplicateDecorator.tasks.clear()
    got = compress_got([(cid, case.got[cid]) for cid in sorted(case.got)])
    starts = {}
    for ev in case.seq:
        if ev[0] == "start":
            starts[ev[2]] = starts.get(ev[2], 0) + 1
    outcomes = {}
    for t in case.keep:
        tid = case.tids[id(t)]
        if t.is_computed():
            e = t.error()
            outcomes[tid] = outerr(e) if e is not None else outval(t.value())
    return {"out": {"": [compress_trace(case.trace), got, left]},
            "seq": [list(e) for e in case.seq],
            "starts": {str(k): v for k, v in starts.items()},
            "outcomes": {str(k): v for k, v in outcomes.items()},
            "unfinished": [case.tids[id(t)] for t in case.keep if not t.is_computed()]}


if __name__ == "__main__":
    _common.main(run_case)
