"""C11 implementation runner: drives BatchBase / BatchItemBase (through a harness subclass pair that
executes a scripted `_flush` body) and the built-in DebugBatch / DebugBatchItem through an op
history, using the public API and the documented override points only
(`_flush`, `_cancel`, `_try_switch_active_batch`).

case["args"] = [flavour, scripts, ops]
  flavour "H": harness HBatch/HItem; scripts[k] is the body of the k-th batch created
          (default [ASetAll]); "D": DebugBatch/DebugBatchItem (every body is DebugBatch._flush).
Output: {"out": (results, event log, batch summaries, item summaries, active id), "obs": per-op
observations for the monitors, "sets": ..., "bodies": ...}.
"""
import _common
from asynq import batching
from asynq.batching import BatchBase, BatchItemBase, DebugBatch, DebugBatchItem, BatchingError, BatchCancelledError
from asynq.futures import FutureIsAlreadyComputed

_counter = [0]


class VErr(Exception):
    def __init__(self, i):
        Exception.__init__(self, i)
        self.vid = i


class VBase(BaseException):
    def __init__(self, i):
        BaseException.__init__(self, i)
        self.vid = i


def pyval(t):
    if t == "VNone":
        return None
    (k, a), = t.items()
    if k == "VInt":
        return a[0]
    raise ValueError(t)


def treeval(v):
    if v is None:
        return "VNone"
    if isinstance(v, int) and not isinstance(v, bool):
        return {"VInt": [v]}
    return {"VOther": [{"s": type(v).__name__}]}


def exn_id(e, adding=False):
    if isinstance(e, (VErr, VBase)):
        return e.vid
    if isinstance(e, FutureIsAlreadyComputed):
        return -3
    if isinstance(e, BatchCancelledError):
        return -6
    if isinstance(e, BatchingError):
        return -5
    if isinstance(e, AssertionError):
        return -8 if adding else -2
    return {"Unexpected": [{"s": type(e).__name__}]}


def opt(t):
    """Coq option tree -> python (None | payload)"""
    if t == "None":
        return None
    return t["Some"][0]


def peek(fut):
    """Outcome of a computed future through side-effect-free public reads; None when not computed."""
    if not fut.is_computed():
        return None
    e = fut.error()
    if e is not None:
        return {"Err": [exn_id(e)]}
    return {"Ok": [treeval(fut.value())]}


def some(o):
    return "None" if o is None else {"Some": [o]}


class Env(object):
    def __init__(self, flavour, scripts):
        self.flavour = flavour
        self.scripts = scripts
        self.batches = []
        self.items = []
        self.log = []
        self.writes = []     # every write attempt of a flush body: batch, item, which run of the body, item already complete
        self.sets = []       # (item id, outcome) for every set_value/set_error call that returned normally
        self.bodies = []     # what a _flush body saw when it started
        self.reads = []      # re-entrant requests made while a body ran (by the body / by a subscriber)
        self.stack = []      # batch ids whose _flush body is currently executing (innermost last)
        self.asking = []     # re-entrant requests currently in progress (innermost last)
        self.active = None   # H flavour registry
        self.bid = {}        # id(obj) -> batch id
        self.name = None     # D flavour registry key

    # ---- registration
    def reg_batch(self, b):
        k = len(self.batches)
        self.batches.append(b)
        self.bid[id(b)] = k
        env = self
        b.on_computed.subscribe(lambda f, k=k: env.log.append({"EBatch": [k, peek(f) or "NotVisible"]}))
        return k

    def reg_item(self, it):
        k = len(self.items)
        self.items.append(it)
        env = self
        it.on_computed.subscribe(lambda f, k=k: env.log.append({"EItem": [k, peek(f) or "NotVisible"]}))
        self.log.append({"ENew": [k, self.bid.get(id(it.batch), -1)]})
        return k

    def iid(self, it):
        for k, x in enumerate(self.items):
            if x is it:
                return k
        return -1

    # ---- registry
    def active_batch(self):
        if self.flavour == "H":
            return self.active
        return batching._debug_batch_state.batches.get(self.name)

    def sync_registry(self):
        """D flavour: DebugBatch creates its successor itself; give it an id as soon as it is visible."""
        if self.flavour == "D":
            cur = self.active_batch()
            if cur is not None and id(cur) not in self.bid:
                self.reg_batch(cur)

    def active_id(self):
        self.sync_registry()
        return self.bid.get(id(self.active_batch()), -1)

    def new_request(self, v):
        """A request of this kind created the way user code does it: through the registry."""
        if self.flavour == "H":
            return HItem(self.active, v, self)
        it = DItem(self.name, v)
        it.env = self
        self.sync_registry()
        self.reg_item(it)
        return it

    def note_set(self, it, o):
        self.sets.append([self.iid(it), o])

    # ---- re-entrant requests while a body runs
    def reentrant(self, batch, what, via, target=None):
        """The body of `batch` (or a subscriber it installed) asks item `target` of the same batch for
        value()/error(), or calls batch.flush().  Everything is caught and recorded; returns (result, exception)."""
        k = batch.k
        rec = {"b": k, "i": self.iid(target) if target is not None else -1, "what": what, "via": via,
               "item_done": target.is_computed() if target is not None else None,
               "item_out": peek(target) if target is not None else None,
               "batch_done": batch.is_computed(), "batch_out": peek(batch), "runs0": batch.runs, "depth": self.stack.count(k),
               "nlog0": len(self.log)}
        self.asking.append(rec)
        exc = None
        try:
            if what == "flush":
                batch.flush()
                r = "RUnit"
            elif what == "batch-value":
                v = batch.value()
                r = {"RVal": [treeval(v)]} if batch.is_computed() else "RNotComputed"
            elif what == "batch-error":
                e = batch.error()
                r = "RNoError" if e is None else {"RErr": [exn_id(e)]}
            elif what == "value":
                v = target.value()
                r = {"RVal": [treeval(v)]} if target.is_computed() else "RNotComputed"
            else:
                e = target.error()
                r = "RNoError" if e is None else {"RErr": [exn_id(e)]}
        except BaseException as e:
            if isinstance(e, (_common.Hang, ValueError)):
                raise
            exc = e
            r = {"RRaise": [exn_id(e)]}
        finally:
            self.asking.pop()
        rec.update({"r": r, "runs1": batch.runs, "item_done_after": target.is_computed() if target is not None else None,
                    "at": len(self.log)})
        self.reads.append(rec)
        if what == "flush":
            self.log.append({"EReflush": [k, r]})
        elif what.startswith("batch-"):
            self.log.append({"EBRead": [k, r]})
        else:
            self.log.append({"ERead": [k, rec["i"], r]})
        return r, exc

    def snap(self):
        self.sync_registry()
        bs = []
        for b in self.batches:
            bs.append([peek(b), getattr(b, "runs", None), getattr(b, "cancels", None), len(b.items),
                       getattr(b, "index", None) if self.flavour == "D" else None])
        its = [[self.bid.get(id(it.batch), -1), peek(it)] for it in self.items]
        return {"b": bs, "i": its, "active": self.active_id()}


class DItem(DebugBatchItem):
    """The built-in debug item; only records which set_value calls returned normally (DebugBatch._flush
    offers no other way to see what the body set)."""
    env = None

    def set_value(self, value):
        DebugBatchItem.set_value(self, value)
        if self.env is not None:
            self.env.note_set(self, {"Ok": [treeval(value)]})


class HBatch(BatchBase):
    def __init__(self, env):
        BatchBase.__init__(self)
        self.env = env
        self.runs = 0
        self.cancels = 0
        self.k = env.reg_batch(self)

    def _try_switch_active_batch(self):
        if self.env.active is self:
            self.env.active = HBatch(self.env)

    def _cancel(self):
        self.cancels += 1
        self.env.log.append({"ECancel": [self.k]})

    def _flush(self):
        env = self.env
        self.runs += 1
        act = env.active
        env.log.append({"EBody": [self.k, env.bid.get(id(act), -1)]})
        depth = env.stack.count(self.k)
        env.bodies.append({"b": self.k, "active": env.bid.get(id(act), -1), "active_done": act.is_computed(),
                           "active_n": len(act.items), "self_done": self.is_computed(), "at": len(env.log),
                           "run": self.runs, "depth": depth, "outer": list(env.stack),
                           "during": ("%s:%s" % (env.asking[-1]["via"], env.asking[-1]["what"])) if env.asking else None})
        if depth >= 3:
            # only reachable when a re-entrant request runs the body again: stop the tower here
            raise VErr(-99)
        env.stack.append(self.k)
        try:
            self._body()
        finally:
            env.stack.pop()

    def _write(self, it, o):
        """One write of the body to an item (attempt recorded before, success after)."""
        env = self.env
        env.writes.append({"b": self.k, "i": env.iid(it), "run": self.runs, "done": it.is_computed()})
        if "Ok" in o:
            it.set_value(pyval(o["Ok"][0]))
        else:
            it.set_error(VErr(o["Err"][0]))
        env.note_set(it, o)

    def _body(self):
        env = self.env
        script = env.scripts[self.k] if self.k < len(env.scripts) else ["ASetAll"]
        for a in script:
            if isinstance(a, str):
                name, arg = a, []
            else:
                (name, arg), = a.items()
            if name == "ASetAll":
                for it in self.items:
                    self._write(it, {"Ok": [treeval(it._result)]})
            elif name == "ASet":
                k = arg[0]["n"]
                if k < len(self.items):
                    self._write(self.items[k], {"Ok": [arg[1]]})
            elif name == "ASetErr":
                k = arg[0]["n"]
                if k < len(self.items):
                    self._write(self.items[k], {"Err": [arg[1]]})
            elif name == "ARead":
                k = arg[0]["n"]
                if k < len(self.items):
                    r, exc = env.reentrant(self, "value" if arg[1] == "KValue" else "error", "body", self.items[k])
                    if exc is not None and arg[2] != "true":
                        raise exc
            elif name == "AReflush":
                r, exc = env.reentrant(self, "flush", "body")
                if exc is not None and arg[0] != "true":
                    raise exc
            elif name == "AReadBatch":
                r, exc = env.reentrant(self, "batch-value" if arg[0] == "KValue" else "batch-error", "body")
                if exc is not None and arg[1] != "true":
                    raise exc
            elif name == "ASetRead":
                k, j = arg[0]["n"], arg[2]["n"]
                if k < len(self.items):
                    it = self.items[k]
                    if j < len(self.items):
                        sib = self.items[j]
                        what = "value" if arg[3] == "KValue" else "error"
                        it.on_computed.subscribe(lambda f, sib=sib, what=what: env.reentrant(self, what, "subscriber", sib))
                    self._write(it, {"Ok": [arg[1]]})
            elif name == "ARaise":
                raise VErr(arg[0])
            elif name == "ABase":
                raise VBase(arg[0])
            elif name == "ANew":
                env.new_request(pyval(arg[0]))
            elif name == "ACancel":
                e = opt(arg[0])
                if e is None:
                    self.cancel()
                else:
                    self.cancel(VErr(e))
            else:
                raise ValueError(name)


class HItem(BatchItemBase):
    def __init__(self, batch, result, env):
        BatchItemBase.__init__(self, batch)
        self._result = result
        env.reg_item(self)


def run_case(c):
    from asynq import _debug
    saved = {k: getattr(_debug.options, k) for k in c.get("opts", {})}
    for k, v in c.get("opts", {}).items():
        setattr(_debug.options, k, v)
    try:
        return _run_case(c)
    finally:
        for k, v in saved.items():
            setattr(_debug.options, k, v)


def _run_case(c):
    flavour, scripts, ops = c["args"]
    env = Env(flavour, scripts)
    if flavour == "H":
        env.active = HBatch(env)
    else:
        _counter[0] += 1
        env.name = "c11-%d" % _counter[0]
        b0 = DebugBatch(env.name)
        batching._debug_batch_state.batches[env.name] = b0
        env.reg_batch(b0)

    res = []
    obs = []
    pre = init = env.snap()
    for op in ops:
        if isinstance(op, str):
            name, a = op, []
        else:
            (name, a), = op.items()
        nlog0 = len(env.log)
        adding = False
        try:
            if name == "OActive":
                r = {"RBatch": [env.active_id()]}
            elif name == "OAdd":
                adding = True
                ni = len(env.items)
                it = env.new_request(pyval(a[0]))
                r = {"RItem": [env.iid(it), env.bid.get(id(it.batch), -1)]}
            elif name in ("OAddTo", "OFlush", "OCancel", "OBatchValue", "OBatchError", "OBatchSet", "OBatchSetErr",
                          "OIsFlushed", "OIsCancelled", "OIsEmpty"):
                k = a[0]["n"]
                if k >= len(env.batches):
                    r = "RSkip"
                else:
                    b = env.batches[k]
                    if name == "OAddTo":
                        adding = True
                        if flavour == "H":
                            it = HItem(b, pyval(a[1]), env)
                        elif b is env.active_batch():
                            it = env.new_request(pyval(a[1]))
                        else:
                            # DebugBatchItem always goes through the registry; the base class constructor is
                            # the only way to aim at a batch that is not the active one
                            it = BatchItemBase(b)
                            env.reg_item(it)
                        r = {"RItem": [env.iid(it), env.bid.get(id(it.batch), -1)]}
                    elif name == "OFlush":
                        b.flush()
                        r = "RUnit"
                    elif name == "OCancel":
                        e = opt(a[1])
                        if e is None:
                            b.cancel()
                        else:
                            b.cancel(VErr(e))
                        r = "RUnit"
                    elif name == "OBatchValue":
                        v = b.value()
                        r = {"RVal": [treeval(v)]} if b.is_computed() else "RNotComputed"
                    elif name == "OBatchError":
                        e = b.error()
                        r = "RNoError" if e is None else {"RErr": [exn_id(e)]}
                    elif name == "OBatchSet":
                        b.set_value(pyval(a[1]))
                        r = "RUnit"
                    elif name == "OBatchSetErr":
                        b.set_error(VErr(a[1]))
                        r = "RUnit"
                    elif name == "OIsFlushed":
                        r = {"RBool": ["true" if b.is_flushed() else "false"]}
                    elif name == "OIsCancelled":
                        r = {"RBool": ["true" if b.is_cancelled() else "false"]}
                    else:
                        r = {"RBool": ["true" if b.is_empty() else "false"]}
            else:
                k = a[0]["n"]
                if k >= len(env.items):
                    r = "RSkip"
                else:
                    it = env.items[k]
                    if name == "OItemValue":
                        v = it.value()
                        r = {"RVal": [treeval(v)]} if it.is_computed() else "RNotComputed"
                    elif name == "OItemError":
                        e = it.error()
                        r = "RNoError" if e is None else {"RErr": [exn_id(e)]}
                    elif name == "OItemComputed":
                        r = {"RBool": ["true" if it.is_computed() else "false"]}
                    elif name == "OItemSet":
                        it.set_value(pyval(a[1]))
                        env.note_set(it, {"Ok": [a[1]]})
                        r = "RUnit"
                    elif name == "OItemSetErr":
                        it.set_error(VErr(a[1]))
                        env.note_set(it, {"Err": [a[1]]})
                        r = "RUnit"
                    else:
                        raise ValueError(name)
        except BaseException as e:
            if isinstance(e, (_common.Hang, ValueError)):
                raise
            r = {"RRaise": [exn_id(e, adding)]}
        res.append(r)
        post = env.snap()
        obs.append({"op": name, "post": post, "nlog0": nlog0, "nlog": len(env.log), "nsets": len(env.sets)})
        pre = post
    bsum = [{"": [some(b[0]), b[1] if b[1] is not None else -1, b[2] if b[2] is not None else -1, b[3]]} for b in pre["b"]]
    isum = [{"": [i[0], some(i[1])]} for i in pre["i"]]
    if flavour == "D":
        batching._debug_batch_state.batches.pop(env.name, None)
    return {"out": {"": [res, env.log, bsum, isum, pre["active"]]}, "obs": obs, "sets": env.sets,
            "bodies": env.bodies, "init": init, "reads": env.reads, "writes": env.writes}


if __name__ == "__main__":
    _common.main(run_case)
