"""bin/vcheck replay <file>: re-runs the recorded case on the current /repo (both builds) and on the
model, prints the monitor messages / the first difference."""
import importlib
import json
import sys

from .lib import builds as B, coqrun, driver


def main():
    r = json.load(open(sys.argv[1]))
    prop = r["property"]
    P = importlib.import_module("harness.props." + prop.lower())
    print("replay of %s: kind=%s %s" % (prop, r.get("kind"), r.get("message", "")[:400]))
    c = r.get("case")
    if r.get("kind") == "translation-broken":
        from .lib import transcheck
        t = transcheck.check_translation(B.REPO)
        print("translation of %s/asynq/async_task.py now: ok=%s stage=%s %s" % (B.REPO, t["ok"], t["stage"], t["message"]))
        if not t["ok"]:
            print(t["log"])
        return 0 if t["ok"] else 1
    if not c:
        print("no concrete case recorded (the replay names the theorem / correspondence that no longer checks)")
        return 1
    c["idx"] = 0
    bad = 0
    if hasattr(P, "replay"):
        return P.replay(r)
    per_build = hasattr(P, "model_input_for")      # the model input depends on what the build did (flush oracle)
    mo = None
    if not per_build:
        mo = coqrun.run_model(P.COQ_IMPORTS, P.COQ_FN, [P.model_input(c) if hasattr(P, "model_input") else c["tree"]])[0]
        print("model:", json.dumps(mo)[:2000])
    with B.builds(tuple(getattr(P, "BUILDS", ("pure", "compiled")))) as bd:
        for k in ("pure", "compiled"):
            if not bd.get(k):
                continue
            io = driver.run_impl(P.IMPL, bd[k], [c])[0]
            print("impl[%s]:" % k, json.dumps(io)[:2000])
            if isinstance(io, dict) and "HarnessCrash" in io:
                bad += 1
                continue
            for f in P.monitors(c, io, k):
                bad += 1
                print("  MONITOR %s/%s: %s" % (f["clause"], f["site"], f["msg"]))
            if isinstance(io, dict) and "Hang" in io:
                continue
            if per_build:
                mo = coqrun.run_model(P.COQ_IMPORTS, P.COQ_FN, [P.model_input_for(c, io, k)])[0]
                print("model[%s]:" % k, json.dumps(mo)[:2000])
            cmp_fn = getattr(P, "compare", None) or (lambda c, m, i: None if m == i else "outputs differ")
            d = cmp_fn(c, mo, io)
            if d:
                bad += 1
                print("  CORRESPONDENCE: " + d)
    print("replay: %s" % ("property violated / correspondence broken" if bad else "no violation on the current tree"))
    return 1 if bad else 0


if __name__ == "__main__":
    sys.exit(main())
