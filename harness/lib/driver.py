"""Generic per-property check driver (DESIGN.md section 6).

A property module (harness/props/cNN.py) provides:
  PROP, COQ_IMPORTS, COQ_FN, IMPL (script name under harness/impl), RULE, TRUSTED, ASSUMPTIONS
  gen_cases(rng, tier) -> [ {"tree": <coq tree>, "meta": {...}} ]   (deterministic in rng)
  nontrivial(case) -> bool
  compare(case, model_out, impl_out) -> None | str          (default: equality)
  monitors(case, impl_out, build) -> [ {"clause","site","msg"} ]   model-independent property checks
  shrink(case) -> iterable of smaller cases (optional)
  CORPUS: list of cases that always run first (optional)
  BUILDS: which builds to run (default both)
"""
import concurrent.futures
import hashlib
import json
import os
import random
import subprocess
import sys
import tempfile
import time
import traceback

from . import builds as B
from . import coqrun

ROOT = os.path.normpath(os.path.join(os.path.dirname(os.path.abspath(__file__)), "..", ".."))
IMPLDIR = os.path.join(ROOT, "harness", "impl")
# evidence/ describes runs against /repo itself; a run pointed at another tree (VERIF_REPO: seeded-change tests) must not
# overwrite it
MAX_REPORTED = int(os.environ.get("VERIF_MAX_REPORTED", "25"))
EVID = os.path.join(ROOT, "evidence") if not os.environ.get("VERIF_REPO") else os.path.join(ROOT, "work", "scratch", "evidence")
REPLAYS = os.path.join(ROOT, "replays")
KNOWN = os.path.join(ROOT, "known_findings.json")

BASE_TRUSTED = [
    "Coq 8.16.1 kernel incl. vm_compute (no native_compute)",
    "hand-written Gallina model (coq/theories) tied to /repo by this correspondence run, not by translation",
    "harness: case generator, Coq-term emitter/parser (harness/lib/coqrun.py), implementation runner, comparator, monitors",
    "CPython 3.12 / Cython 3 semantics of generators, exceptions, descriptors (modelled, not verified)",
]
TRANS_TRUSTED = [
    "source-to-Gallina translator harness/lib/pytrans.py (unwrap / extract_futures only; fail-closed subset, docs/translator.md) "
    "and Python's ast module; reading of a yielded value as ystruct (non-future leaf = leaf whose look is TypeError)",
]


def load_known():
    """known_findings.json plus per-property fragments known/*.json (committed, never written at run time)."""
    import glob
    out = []
    for f in [KNOWN] + sorted(glob.glob(os.path.join(ROOT, "known", "*.json"))):
        try:
            out.extend(json.load(open(f)))
        except FileNotFoundError:
            pass
    return out


def run_impl(script, build_dir, cases, jobs=6, timeout=3600, extra_env=None, stall=60):
    """Runs harness/impl/<script> on `cases` against build_dir; returns list of outputs aligned
    with cases.  The workers write one result line per finished case; a worker that makes no progress for
    `stall` seconds (the implementation spins inside compiled code, where the per-case SIGALRM of the runner
    is never delivered) is killed, the case it was on is reported as {"Hang": [...]} and a new worker is
    started for the cases after it.  A worker that dies reports {"HarnessCrash": ...} for the case it was on."""
    if not cases:
        return []
    n = max(1, min(jobs, (len(cases) + 19) // 20))
    d = tempfile.mkdtemp(prefix="asynq-verif-impl-")
    env = B.impl_env(build_dir)
    if extra_env:
        env.update(extra_env)

    class W:
        pass

    def spawn(w):
        w.gen += 1
        w.inp = os.path.join(d, "in%d_%d.json" % (w.i, w.gen))
        w.outp = os.path.join(d, "out%d_%d.json" % (w.i, w.gen))
        json.dump(w.todo, open(w.inp, "w"))
        w.err = open(os.path.join(d, "err%d_%d" % (w.i, w.gen)), "w+")
        w.p = subprocess.Popen([B.PY, os.path.join(IMPLDIR, script), w.inp, w.outp], env=env, cwd=d,
                               stdout=subprocess.DEVNULL, stderr=w.err)
        w.seen, w.t_prog = 0, time.time()

    def partial(w):
        try:
            return [json.loads(l) for l in open(w.outp + ".partial") if l.endswith("\n")]
        except Exception:
            return []

    def note(w):
        try:
            return open(w.outp + ".note").read()[:400]
        except Exception:
            return ""

    ws = []
    t0 = time.time()
    try:
        for i in range(n):
            w = W()
            w.i, w.gen, w.todo, w.done, w.respawns = i, 0, cases[i::n], [], 0
            spawn(w)
            ws.append(w)
        live = list(ws)
        while live:
            time.sleep(0.05)
            for w in list(live):
                rc = w.p.poll()
                if rc is not None:
                    res = None
                    try:
                        res = json.load(open(w.outp))
                        assert len(res) == len(w.todo)
                    except Exception:
                        res = None
                    if res is not None:
                        w.done += res
                        live.remove(w)
                        continue
                    got = partial(w)[:len(w.todo)]
                    w.err.seek(0)
                    msg = w.err.read()[-1500:]
                    w.done += got
                    rest = w.todo[len(got):]
                    if rest:
                        w.done.append({"HarnessCrash": [{"s": "worker died: rc=%s %s" % (rc, msg)}]})
                        rest = rest[1:]
                    w.respawns += 1
                    if rest and w.respawns <= 8:
                        w.todo = rest
                        spawn(w)
                    else:
                        w.done += [{"HarnessCrash": [{"s": "worker died repeatedly"}]}] * len(rest)
                        live.remove(w)
                    continue
                try:
                    sz = os.path.getsize(w.outp + ".partial")
                except OSError:
                    sz = 0
                if sz != w.seen:
                    w.seen, w.t_prog = sz, time.time()
                elif time.time() - w.t_prog > stall or time.time() - t0 > timeout:
                    w.p.kill()
                    w.p.wait()
                    got = partial(w)[:len(w.todo)]
                    w.done += got
                    rest = w.todo[len(got):]
                    if rest:
                        w.done.append({"Hang": [{"s": "no progress for %ds (killed by the driver)" % stall, "note": note(w)}]})
                        rest = rest[1:]
                    w.respawns += 1
                    if rest and w.respawns <= 8 and time.time() - t0 <= timeout:
                        w.todo = rest
                        spawn(w)
                    else:
                        w.done += [{"HarnessCrash": [{"s": "worker hung repeatedly / overall time limit"}]}] * len(rest)
                        live.remove(w)
        merged = [None] * len(cases)
        for w in ws:
            for j, r in enumerate(w.done):
                merged[w.i + j * n] = r
        return merged
    finally:
        for w in ws:
            try:
                if w.p.poll() is None:
                    w.p.kill()
                w.err.close()
            except Exception:
                pass
        import shutil
        shutil.rmtree(d, ignore_errors=True)


def _sig(f):
    return (f["clause"], f["site"])


def main(P, argv=None):
    tier = os.environ.get("VERIF_TIER") or "quick"
    args = list(sys.argv[1:] if argv is None else argv)
    if "--tier" in args:
        tier = args[args.index("--tier") + 1]
    seed = int(os.environ.get("VERIF_SEED", "0") or 0)
    try:
        rc = _main(P, tier, seed)
    except SystemExit:
        raise
    except BaseException:
        traceback.print_exc()
        print("HARNESS-ERROR property=%s (infrastructure failure, no verdict)" % P.PROP)
        rc = 2
    sys.exit(rc)


def _main(P, tier, seed):
    t0 = time.time()
    prop = P.PROP
    os.makedirs(EVID, exist_ok=True)
    os.makedirs(REPLAYS, exist_ok=True)
    rng = random.Random(seed * 1000003 + int(hashlib.sha1(prop.encode()).hexdigest()[:6], 16))
    known = [k for k in load_known() if k.get("property") == prop]
    known_sigs = {(k["clause"], k["site"]): k for k in known if k.get("status") == "known"}

    # 1. proof obligations
    proof = coqrun.check_props(prop)
    print("[%s] proof: ok=%s obligations=%d discharged=%d axioms=%s" % (
        prop, proof["ok"], proof["obligations"], proof["discharged"], sorted(proof.get("axioms", {}))))
    # 1b. translation obligation (props with TRANSLATED = True): the functions the pure theorems are about, translated
    # from the tree under check by harness/lib/pytrans.py, must still be equal to the hand-written model
    trans = None
    if getattr(P, "TRANSLATED", False):
        from . import transcheck
        trans = transcheck.check_translation(B.REPO)
        print("[%s] translation: ok=%s stage=%s obligations=%d discharged=%d %s" % (
            prop, trans["ok"], trans["stage"], trans["obligations"], trans["discharged"], trans["message"]))

    # 2. cases
    corpus = list(getattr(P, "CORPUS", []))
    cases = corpus + P.gen_cases(rng, tier)
    for i, c in enumerate(cases):
        c["idx"] = i
    want = tuple(getattr(P, "BUILDS", ("pure", "compiled")))
    findings = []      # monitor hits: dict(case, build, clause, site, msg)
    diffs = []         # correspondence mismatches
    harness_crashes = []
    impl_outs = {}
    with B.builds(want) as bd:
        for kind, err in bd["_errors"].items():
            findings.append(dict(case=None, build=kind, clause="build", site="build-failed",
                                 msg="the %s build of /repo failed: %s" % (kind, err[-600:])))
        live = [k for k in want if bd.get(k)]
        with concurrent.futures.ThreadPoolExecutor(max_workers=4) as ex:
            futs = {k: ex.submit(run_impl, P.IMPL, bd[k], cases, getattr(P, "IMPL_JOBS", 6),
                                 getattr(P, "IMPL_TIMEOUT", 900)) for k in live}
            per_build = hasattr(P, "model_input_for")     # model input depends on what the build did (flush oracle)
            mfut = None
            if not per_build:
                mfut = ex.submit(coqrun.run_model, P.COQ_IMPORTS, P.COQ_FN,
                                 [P.model_input(c) if hasattr(P, "model_input") else c["tree"] for c in cases],
                                 getattr(P, "SHARD", 250))
            for k in live:
                impl_outs[k] = futs[k].result()
            model_err = None
            model_by = {}          # (case idx, build) -> model output
            try:
                if per_build:
                    texts, index = [], {}
                    for k in live:
                        for c, io in zip(cases, impl_outs[k]):
                            if isinstance(io, dict) and ("HarnessCrash" in io or "Hang" in io):
                                continue
                            t = P.model_input_for(c, io, k)
                            if t not in index:
                                index[t] = len(texts)
                                texts.append(t)
                            model_by[(c["idx"], k)] = index[t]
                    outs = coqrun.run_model(P.COQ_IMPORTS, P.COQ_FN, texts, getattr(P, "SHARD", 100))
                    model_by = {kk: outs[v] for kk, v in model_by.items()}
                    model_outs = True
                else:
                    model_outs = mfut.result()
                    for k in live:
                        for c in cases:
                            model_by[(c["idx"], k)] = model_outs[c["idx"]]
            except Exception as e:  # model does not build / run: correspondence cannot be checked
                model_outs = None
                model_err = str(e)
                print("[%s] MODEL-ERROR: %s" % (prop, model_err[-1200:]))

        cmp_fn = getattr(P, "compare", None) or (lambda c, m, i: None if m == i else "model and implementation outputs differ")
        for k in live:
            for c, io in zip(cases, impl_outs[k]):
                if isinstance(io, dict) and "HarnessCrash" in io:
                    harness_crashes.append((c, k, io))
                    continue
                fs_c = P.monitors(c, io, k)
                for f in fs_c:
                    findings.append(dict(case=c, build=k, out=io, **f))
                if isinstance(io, dict) and "Hang" in io:
                    if not fs_c:   # the models are total (proved): an implementation that does not return has left them
                        diffs.append(dict(case=c, build=k, out=io, model=None,
                                          msg="the implementation did not return within the watchdog limit on this input; "
                                              "the model returns on every input"))
                    continue
                if model_outs is not None and (c["idx"], k) in model_by:
                    d = cmp_fn(c, model_by[(c["idx"], k)], io)
                    if d:
                        diffs.append(dict(case=c, build=k, out=io, model=model_by[(c["idx"], k)], msg=d))

        # 3. a crashed/hung worker is a failing input for the implementation (hang => C03-style) only if
        #    the property module says so; otherwise it is an infrastructure error
        crash_as = getattr(P, "crash_finding", None)
        for c, k, io in harness_crashes:
            if crash_as:
                f = crash_as(c, io, k)
                if f:
                    findings.append(dict(case=c, build=k, out=io, **f))
                    continue
            raise RuntimeError("implementation runner crashed on case %d (%s build): %s" % (c["idx"], k, io))

        # 4. search for a failing input when only the correspondence broke
        unexplained = []
        if diffs:
            found_sigs = {_sig(f) for f in findings}
            cases_with_finding = {(f["case"]["idx"], f["build"]) for f in findings if f["case"]}
            for d in diffs:
                if (d["case"]["idx"], d["build"]) in cases_with_finding:
                    continue
                # targeted search: shrink candidates and neighbours of the diverging case
                hit = None
                shr = getattr(P, "shrink", None)
                if shr and bd.get(d["build"]):
                    cand = list(shr(d["case"]))[:200]
                    if cand:
                        outs = run_impl(P.IMPL, bd[d["build"]], cand)
                        for cc, oo in zip(cand, outs):
                            if isinstance(oo, dict) and "HarnessCrash" in oo:
                                continue
                            fs = P.monitors(cc, oo, d["build"])
                            if fs:
                                hit = dict(case=cc, build=d["build"], out=oo, **fs[0])
                                break
                if hit:
                    findings.append(hit)
                else:
                    unexplained.append(d)

        # 5. shrink monitor findings (one representative per signature)
        reps = {}
        for f in findings:
            reps.setdefault(_sig(f), f)
        shr = getattr(P, "shrink", None)
        if shr:
            # global budget: shrink at most 6 signatures (unknown ones first) and stop after the time limit, so that a
            # change that breaks hundreds of signatures is still reported in minutes
            t_shrink = time.time()
            budget_s = float(os.environ.get("VERIF_SHRINK_S", "150" if tier == "quick" else "600"))
            order = sorted(reps.items(), key=lambda kv: (kv[0] in known_sigs))
            for n_sig, (sig, f) in enumerate(order):
                if n_sig >= 6 or time.time() - t_shrink > budget_s:
                    break
                if f["case"] is None or not bd.get(f["build"]):
                    continue
                cur = f
                for _round in range(getattr(P, 'SHRINK_ROUNDS', 60)):
                    if time.time() - t_shrink > budget_s:
                        break
                    cand = list(shr(cur["case"]))[:160]
                    if not cand:
                        break
                    outs = run_impl(P.IMPL, bd[cur["build"]], cand)
                    nxt = None
                    for cc, oo in zip(cand, outs):
                        if isinstance(oo, dict) and "HarnessCrash" in oo:
                            continue
                        for g in P.monitors(cc, oo, cur["build"]):
                            if _sig(g) == sig:
                                nxt = dict(case=cc, build=cur["build"], out=oo, **g)
                                break
                        if nxt:
                            break
                    if not nxt:
                        break
                    cur = nxt
                reps[sig] = cur

    # 6. verdicts
    violations = 0
    lines = []
    seen_known = set()
    for sig, f in reps.items():
        if sig in known_sigs:
            if sig not in seen_known:
                seen_known.add(sig)
                lines.append("KNOWN-FINDING: property=%s %s" % (prop, known_sigs[sig].get("description", f["msg"])))
            continue
        violations += 1
        if violations > MAX_REPORTED:      # every distinct (clause, site) is counted; only the first few get a replay file
            continue
        path = _write_replay(prop, dict(kind="failing-input", clause=f["clause"], site=f["site"], message=f["msg"],
                                        build=f["build"], case=f["case"], implementation_output=f.get("out"),
                                        seed=seed, tier=tier))
        lines.append("VIOLATION property=%s replay=%s" % (prop, path))
    if violations > MAX_REPORTED:
        lines.append("[%s] ... and %d more distinct violation signatures (clause, site) without a replay file" % (prop, violations - MAX_REPORTED))
    if unexplained:
        violations += 1
        d = unexplained[0]
        path = _write_replay(prop, dict(kind="correspondence-broken", message=d["msg"], build=d["build"],
                                        case=d["case"], implementation_output=d["out"], model_output=d["model"],
                                        n_diverging_cases=len(unexplained),
                                        note="model (%s) and implementation disagree; no monitor fired on the diverging case or its neighbours" % P.COQ_FN,
                                        seed=seed, tier=tier))
        lines.append("VIOLATION property=%s replay=%s no-failing-input-found" % (prop, path))
    if model_outs is None:
        violations += 1
        path = _write_replay(prop, dict(kind="model-broken", message="the Coq model could not be evaluated: " + str(model_err)[-1500:],
                                        seed=seed, tier=tier))
        lines.append("VIOLATION property=%s replay=%s no-failing-input-found" % (prop, path))
    if not proof["ok"] and not violations:
        violations += 1
        path = _write_replay(prop, dict(kind="proof-broken", message="coq/theories/props/%s.v no longer checks" % prop,
                                        theorems=proof.get("theorems"), bad_axioms=proof.get("bad_axioms"), log=proof.get("log"),
                                        seed=seed, tier=tier))
        lines.append("VIOLATION property=%s replay=%s no-failing-input-found" % (prop, path))
    if trans is not None and not trans["ok"] and not violations:
        violations += 1
        path = _write_replay(prop, dict(kind="translation-broken", message=trans["message"], stage=trans["stage"],
                                        theorems=trans.get("theorems"), log=trans.get("log"),
                                        generated=trans.get("generated"), seed=seed, tier=tier))
        lines.append("VIOLATION property=%s replay=%s no-failing-input-found" % (prop, path))

    # 7. evidence
    canon = getattr(P, "canon", None) or (lambda c: json.dumps(c["tree"], sort_keys=True))
    distinct = {}
    for c in cases:
        distinct.setdefault(canon(c), c)
    nontriv = [c for c in distinct.values() if P.nontrivial(c)]
    nvalid = sum(len(v) for v in impl_outs.values()) if model_outs is not None else 0
    samples = [dict(case=c["tree"], meta=c.get("meta"), implementation_output={k: impl_outs[k][c["idx"]] for k in impl_outs},
                    model_output=next((model_by[kk] for kk in model_by if kk[0] == c["idx"]), None)) for c in (nontriv[:2] or cases[:2])]
    cov = dict(
        obligations=max(1, proof["obligations"]) + (trans["obligations"] if trans else 0),
        discharged=proof["discharged"] + (trans["discharged"] if trans and trans["ok"] else 0),
        checker_cmd="make -C coq theories/props/%s.vo (coqc 8.16.1, full .vo build; Print Assumptions parsed from this run)" % prop,
        trusted_base=BASE_TRUSTED + list(getattr(P, "TRUSTED", [])) + (TRANS_TRUSTED if trans else []),
        translation=(dict(ok=trans["ok"], stage=trans["stage"], message=trans["message"], theorems=trans["theorems"],
                          obligations=trans["obligations"], discharged=trans["discharged"],
                          source=os.path.join(B.REPO, "asynq", "async_task.py"), generated=trans.get("generated"),
                          checker_cmd="harness/lib/pytrans.py -> <tmp>/UnwrapGen.v; coqc -Q coq/theories Asynq -Q <tmp> AsynqGen "
                                      "UnwrapGen.v coq/gen_proofs/UnwrapGenProofs.v (Print Assumptions parsed from this run)")
                     if trans else None),
        theorems=proof.get("theorems"), axioms=proof.get("axioms"),
        evaluations=len(cases) * max(1, len(impl_outs)), distinct_nontrivial=len(nontriv),
        rule=P.RULE, samples=samples,
        traces_validated_against_impl=nvalid, builds=sorted(impl_outs), build_seconds=None,
        correspondence_mismatches=len(diffs), monitor_findings=len(findings),
        known_findings_seen=sorted("%s/%s" % s for s in seen_known),
        distribution=(P.distribution(cases) if hasattr(P, "distribution") else None),
        explanation=getattr(P, "EXPLANATION", ""),
    )
    ev = dict(property_id=prop, tier=tier, seed=seed, level=getattr(P, "LEVEL", "proof"), coverage=cov,
              assumptions=list(getattr(P, "ASSUMPTIONS", [])), wall_s=round(time.time() - t0, 2), violations=violations)
    json.dump(ev, open(os.path.join(EVID, prop + ".json"), "w"), indent=1, default=str)
    for l in lines:
        print(l)
    print("[%s] tier=%s seed=%d cases=%d distinct_nontrivial=%d builds=%s mismatches=%d findings=%d violations=%d wall=%.1fs" % (
        prop, tier, seed, len(cases), len(nontriv), sorted(impl_outs), len(diffs), len(findings), violations, time.time() - t0))
    return 1 if violations else 0


def _write_replay(prop, obj):
    h = hashlib.sha1(json.dumps(obj, sort_keys=True, default=str).encode()).hexdigest()[:10]
    path = os.path.join(REPLAYS, "%s-%s.json" % (prop, h))
    obj["property"] = prop
    json.dump(obj, open(path, "w"), indent=1, default=str)
    return path
