"""Shared plumbing of the scheduler-machine properties (C01-C08, C20): case construction, model input,
trace projections, monitor selection, shrinking.  A property module calls `install(globals(), ...)`."""
import copy
import json

from . import machgen, machmon, machprog

COQ_IMPORTS = ["Machine"]
COQ_FN = "Machine.run_case"
IMPL = "machine_impl.py"


def finish_case(c, meta=None):
    c["py"] = machprog.py_case(c)
    c["nroots"] = len(c["roots"])
    c["tree"] = {"roots": c["roots"], "params": c.get("params", {})}
    c["meta"] = meta or {}
    return c


def gen(rng, n, profiles):
    """profiles: list of (weight, kwargs).  One Gen per case so that knobs can vary."""
    out = []
    total = sum(w for w, _ in profiles)
    for _ in range(n):
        r = rng.random() * total
        for w, kw in profiles:
            r -= w
            if r <= 0:
                break
        g = machgen.Gen(rng, **kw)
        out.append(finish_case(g.case(), {"profile": kw.get("name", "")}))
    return out


def extra_profiles(profiles, n_quick, n_thorough):
    """extra_gen for install(): further cases from additional profiles, drawn AFTER the main stream (so that adding a
    scenario class never shifts the cases the existing profiles produce for a given seed)"""
    def extra(rng, tier):
        cs = gen(rng, n_quick if tier == "quick" else n_thorough, profiles)
        return [(c, c.get("meta")) for c in cs]
    return extra


def extra_all(*fns):
    def extra(rng, tier):
        out = []
        for f in fns:
            out += f(rng, tier)
        return out
    return extra


def model_input_for(c, io, build):
    return machprog.coq_case(c, io.get("oracle", []))


def events(out, names):
    return [e for e in out[""][1] if next(iter(e)) in names]


def project(out, names, with_outs=True):
    return {"outs": out[""][0] if with_outs else None, "events": events(out, names)}


def first_diff(a, b):
    for i, (x, y) in enumerate(zip(a, b)):
        if x != y:
            return "first difference at projected event %d: model %s / implementation %s" % (i, json.dumps(x)[:200], json.dumps(y)[:200])
    if len(a) != len(b):
        return "projected traces have different lengths: model %d / implementation %d (extra: %s)" % (
            len(a), len(b), json.dumps((a[len(b):] or b[len(a):])[:2])[:300])
    return None


def install(g, prop, names, prefixes, profiles_quick, profiles_thorough=None, n_quick=250, n_thorough=4000,
            nontrivial=None, corpus=(), hang_clause=None, hang_monitor=None, extra_monitors=None, case_filter=None, level="exploration",
            impl_only=None, extra_gen=None):
    """Defines the driver API in module namespace g."""
    g["PROP"] = prop
    g["LEVEL"] = level
    g["COQ_IMPORTS"] = COQ_IMPORTS
    g["COQ_FN"] = COQ_FN
    g["IMPL"] = IMPL
    g["SHARD"] = 60
    g["model_input_for"] = model_input_for

    def gen_cases(rng, tier):
        n = n_quick if tier == "quick" else n_thorough
        profs = profiles_quick if tier == "quick" or not profiles_thorough else profiles_thorough
        cs = gen(rng, n, profs)
        if case_filter:
            cs = [c for c in cs if case_filter(c)]
        if extra_gen:
            cs += [finish_case(c, m) for c, m in extra_gen(rng, tier)]
        return cs
    g["gen_cases"] = gen_cases
    g["CORPUS"] = [finish_case(copy.deepcopy(c), {"corpus": True}) for c in corpus]

    def compare(c, m, io):
        if "out" not in io or (impl_only and impl_only(c)) or c.get("params", {}).get("model_blind"):
            return None          # impl_only: a scenario class outside the model; only the monitors speak
        pm, pi = project(m, names), project(io["out"], names)
        if pm["outs"] != pi["outs"]:
            return "outcomes of the top-level computations differ: model %s / implementation %s" % (pm["outs"], pi["outs"])
        return first_diff(pm["events"], pi["events"])
    g["compare"] = compare

    def monitors(c, io, build):
        if "Hang" in io:
            if hang_monitor:
                fs = hang_monitor(c, io, build)
                if fs:
                    return fs
            if hang_clause:
                return [dict(clause=hang_clause, site="computation-did-not-terminate",
                             msg="the computation did not finish within the watchdog limit")]
            return []
        if impl_only and impl_only(c):
            fs = []
        else:
            fs = [f for f in machmon.analyse(c, io) if any(f["clause"].startswith(p) for p in prefixes)]
        if extra_monitors:
            fs += extra_monitors(c, io, build)
        return fs
    g["monitors"] = monitors

    g["nontrivial"] = nontrivial or (lambda c: True)
    g["canon"] = lambda c: json.dumps(c["tree"], sort_keys=True)

    def distribution(cases):
        keys = ["tasks", "items", "yields", "syncs", "withs", "tries", "raises", "depth", "old", "dicts", "nested",
                "item_faults", "bad", "lazy", "errfut", "reads", "nonasync", "ctx_faults", "sticky", "overrides", "kinds", "shared", "fault_stacks"]
        agg = {k: 0 for k in keys}
        mx = {k: 0 for k in keys}
        withk = {k: 0 for k in keys}
        for c in cases:
            s = machgen.stats(c)
            for k in keys:
                agg[k] += s[k]
                mx[k] = max(mx[k], s[k])
                withk[k] += 1 if s[k] else 0
        n = max(1, len(cases))
        return {"cases": len(cases), "mean": {k: round(agg[k] / n, 2) for k in keys}, "max": mx,
                "share_of_cases_with": {k: round(withk[k] / n, 2) for k in keys},
                "histories_len>1": sum(1 for c in cases if len(c["roots"]) > 1)}
    g["distribution"] = distribution

    def shrink(c):
        for cand in shrink_case(c):
            yield finish_case(cand, {"shrunk": True})
    g["shrink"] = shrink


# ------------------------------------------------------------------ shrinking of program ASTs
def _bodies(case):
    """yields (container list, index) for every statement position, depth first"""
    def walk(body):
        for i, st in enumerate(body):
            yield body, i
            op = st["op"]
            if op in ("with",):
                yield from walk(st["body"])
            elif op == "try":
                yield from walk(st["body"])
                yield from walk(st["handler"])
            elif op == "yield":
                yield from walk_struct(st["s"])
            elif op == "let":
                yield from walk_f(st["f"])

    def walk_struct(s):
        if isinstance(s, dict):
            if "new" in s:
                yield from walk_f(s["new"])
            for k in ("tuple", "list"):
                if k in s:
                    for x in s[k]:
                        yield from walk_struct(x)
            if "dict" in s:
                for _, x in s["dict"]:
                    yield from walk_struct(x)

    def walk_f(f):
        if "task" in f:
            yield from walk(f["task"])
    for r in case["roots"]:
        yield from walk(r)


def _uses_ok(case):
    """variables must be defined before use along the textual order (conservative check)"""
    try:
        machprog.coq_case(case, [])
        src = machprog.py_case(case)
        compile(src, "<shrunk>", "exec")
    except Exception:
        return False
    return _scoped(case)


def _scoped(case):
    ok = [True]

    hacc = []

    def expr_vars(e, acc):
        if isinstance(e, dict):
            if "var" in e:
                acc.append(e["var"])
            if "handle" in e:
                hacc.append(e["handle"])
            for k in ("tuple", "list"):
                if k in e:
                    for x in e[k]:
                        expr_vars(x, acc)

    def struct(s, vals, hands):
        if isinstance(s, dict):
            if "old" in s and s["old"] not in hands:
                ok[0] = False
            if "new" in s:
                fexpr(s["new"], vals, hands)
            for k in ("tuple", "list"):
                if k in s:
                    for x in s[k]:
                        struct(x, vals, hands)
            if "dict" in s:
                for _, x in s["dict"]:
                    struct(x, vals, hands)

    def fexpr(f, vals, hands):
        if "task" in f:
            body(f["task"], set(vals), set(hands))

    def body(b, vals, hands):
        for st in b:
            op = st["op"]
            if op == "yield":
                struct(st["s"], vals, hands)
                vals.add(st["x"])
                if st.get("again"):
                    vals.add(st["again"])
            elif op == "let":
                fexpr(st["f"], vals, hands)
                hands.add(st["h"])
            elif op == "sync":
                if st["h"] not in hands:
                    ok[0] = False
                vals.add(st["x"])
            elif op == "with":
                body(st["body"], vals, hands)
            elif op == "try":
                body(st["body"], set(vals), set(hands))
                body(st["handler"], set(vals) | {st["x"]}, set(hands))
            elif op == "read":
                vals.add(st["x"])
            elif op in ("return", "result"):
                acc = []
                expr_vars(st["e"], acc)
                if any(v not in vals for v in acc) or any(h not in hands for h in hacc):
                    ok[0] = False
                del hacc[:]
    for r in case["roots"]:
        body(r, set(), set())
    return ok[0]


def shrink_case(case):
    base = {"roots": case["roots"], "params": case.get("params", {})}
    # drop whole roots
    if len(base["roots"]) > 1:
        for i in range(len(base["roots"])):
            c = copy.deepcopy(base)
            del c["roots"][i]
            yield c
    # drop params
    for k in list(base["params"].get("kinds", {})):
        c = copy.deepcopy(base)
        del c["params"]["kinds"][k]
        yield c
    if base["params"].get("keep"):
        c = copy.deepcopy(base)
        del c["params"]["keep"]
        yield c
    # empty whole nested task bodies (largest first), then halves of blocks
    def _tasks(case):
        out = []

        def walk_f(f):
            if "task" in f:
                out.append(f)
                walk(f["task"])

        def walk_s(s):
            if isinstance(s, dict):
                if "new" in s:
                    walk_f(s["new"])
                for k in ("tuple", "list"):
                    for x in s.get(k, []):
                        walk_s(x)
                for _, x in s.get("dict", []):
                    walk_s(x)

        def walk(b):
            for st in b:
                if st["op"] == "yield":
                    walk_s(st["s"])
                elif st["op"] == "let":
                    walk_f(st["f"])
                elif st["op"] == "with":
                    walk(st["body"])
                elif st["op"] == "try":
                    walk(st["body"])
                    walk(st["handler"])
        for r in case["roots"]:
            walk(r)
        return out
    nt = len(_tasks(base))
    sizes = sorted(range(nt), key=lambda i: -len(json.dumps(_tasks(base)[i])))
    for i in sizes:
        if len(_tasks(base)[i]["task"]) == 0:
            continue
        c = copy.deepcopy(base)
        _tasks(c)[i]["task"] = []
        if _uses_ok(c):
            yield c
    for ri, r in enumerate(base["roots"]):
        if len(r) >= 4:
            for half in (r[:len(r) // 2], r[len(r) // 2:]):
                c = copy.deepcopy(base)
                c["roots"][ri] = copy.deepcopy(half)
                if _uses_ok(c):
                    yield c
    # delete one statement / unwrap one block / simplify one structure
    npos = sum(1 for _ in _bodies(base))
    for idx in range(npos):
        c = copy.deepcopy(base)
        for j, (lst, i) in enumerate(_bodies(c)):
            if j == idx:
                st = lst[i]
                variants = []
                v = copy.deepcopy(c)
                for jj, (l2, i2) in enumerate(_bodies(v)):
                    if jj == idx:
                        del l2[i2]
                        break
                variants.append(v)
                if st["op"] in ("with", "try"):
                    v = copy.deepcopy(c)
                    for jj, (l2, i2) in enumerate(_bodies(v)):
                        if jj == idx:
                            l2[i2:i2 + 1] = l2[i2]["body"]
                            break
                    variants.append(v)
                if st["op"] == "yield" and isinstance(st["s"], dict):
                    for key in ("tuple", "list"):
                        if key in st["s"] and len(st["s"][key]) >= 1:
                            for d in range(len(st["s"][key])):
                                v = copy.deepcopy(c)
                                for jj, (l2, i2) in enumerate(_bodies(v)):
                                    if jj == idx:
                                        del l2[i2]["s"][key][d]
                                        break
                                variants.append(v)
                            if len(st["s"][key]) == 1:
                                v = copy.deepcopy(c)
                                for jj, (l2, i2) in enumerate(_bodies(v)):
                                    if jj == idx:
                                        l2[i2]["s"] = l2[i2]["s"][key][0]
                                        break
                                variants.append(v)
                for v in variants:
                    if _uses_ok(v):
                        yield v
                break
