"""Running the Gallina models inside coqc (vm_compute) and reading the results back.

Tree convention shared by the harness, the implementation runners and this module
(JSON-friendly, unambiguous):

    Coq list            <->  JSON list            [a; b]
    constructor applied <->  {"Name": [args...]}  (Name a b)
    bare constructor    <->  "Name"               Name      (true / false / tt / None too)
    Z numeral           <->  int                  (5)%Z
    nat numeral         <->  {"n": 5}             5%nat     (input only; output numerals are ints)
    string              <->  {"s": "text"}        "text"%string
    pair / tuple        <->  {"": [a, b]}         (a, b)
"""
import concurrent.futures
import os
import re
import subprocess
import tempfile

COQDIR = os.path.join(os.path.dirname(os.path.abspath(__file__)), "..", "..", "coq")
COQDIR = os.path.normpath(COQDIR)


# ---------------------------------------------------------------- tree -> Coq text
def coq_of(t):
    if isinstance(t, bool):
        return "true" if t else "false"
    if isinstance(t, int):
        return "(%d)%%Z" % t
    if isinstance(t, str):
        return t
    if isinstance(t, list):
        return "[" + "; ".join(coq_of(x) for x in t) + "]"
    if isinstance(t, dict):
        assert len(t) == 1, t
        (k, v), = t.items()
        if k == "n":
            return "%d%%nat" % v
        if k == "s":
            return '"' + v.replace('"', '""') + '"%string'
        if k == "":
            return "(" + ", ".join(coq_of(x) for x in v) + ")"
        if not v:
            return k
        return "(" + k + " " + " ".join(coq_of(x) for x in v) + ")"
    raise TypeError("coq_of: %r" % (t,))


# ---------------------------------------------------------------- Coq text -> tree
_tok = re.compile(
    r'\s*(?:(?P<str>"(?:[^"]|"")*")|(?P<num>-?\d+)|(?P<id>[A-Za-z_][A-Za-z0-9_\'.]*)'
    r"|(?P<sym>\(|\)|\[|\]|;|,|%))"
)


def _tokens(s):
    pos = 0
    out = []
    n = len(s)
    while pos < n:
        m = _tok.match(s, pos)
        if not m:
            if s[pos:].strip() == "":
                break
            raise ValueError("cannot tokenise Coq output at %r" % s[pos:pos + 40])
        pos = m.end()
        if m.group("str") is not None:
            out.append(("str", m.group("str")[1:-1].replace('""', '"')))
        elif m.group("num") is not None:
            out.append(("num", int(m.group("num"))))
        elif m.group("id") is not None:
            out.append(("id", m.group("id")))
        else:
            out.append(("sym", m.group("sym")))
    return out


class _P:
    def __init__(self, toks):
        self.t = toks
        self.i = 0

    def peek(self):
        return self.t[self.i] if self.i < len(self.t) else ("eof", None)

    def eat(self, kind=None, val=None):
        tk = self.peek()
        if (kind and tk[0] != kind) or (val is not None and tk[1] != val):
            raise ValueError("Coq output parse error at token %d: %r (wanted %r %r)" % (self.i, tk, kind, val))
        self.i += 1
        return tk

    def scope(self):
        # optional %scope suffix
        while self.peek() == ("sym", "%"):
            self.eat()
            self.eat("id")

    def atom(self):
        k, v = self.peek()
        if k == "num":
            self.eat()
            self.scope()
            return v
        if k == "str":
            self.eat()
            self.scope()
            return {"s": v}
        if k == "id":
            self.eat()
            self.scope()
            return v.split(".")[-1]
        if (k, v) == ("sym", "("):
            self.eat()
            first = self.term()
            items = [first]
            while self.peek() == ("sym", ","):
                self.eat()
                items.append(self.term())
            self.eat("sym", ")")
            self.scope()
            if len(items) == 1:
                return first
            return {"": items}
        if (k, v) == ("sym", "["):
            self.eat()
            items = []
            if self.peek() != ("sym", "]"):
                items.append(self.term())
                while self.peek() == ("sym", ";"):
                    self.eat()
                    items.append(self.term())
            self.eat("sym", "]")
            self.scope()
            return items
        raise ValueError("Coq output parse error at token %d: %r" % (self.i, (k, v)))

    def term(self):
        k, v = self.peek()
        if k == "id":
            self.eat()
            self.scope()
            head = v.split(".")[-1]
            args = []
            while True:
                k2, v2 = self.peek()
                if k2 in ("num", "str", "id") or (k2, v2) in (("sym", "("), ("sym", "[")):
                    args.append(self.atom())
                else:
                    break
            if not args:
                return head
            return {head: args}
        return self.atom()


def parse_term(s):
    p = _P(_tokens(s))
    t = p.term()
    if p.peek()[0] != "eof":
        raise ValueError("trailing tokens in Coq output: %r" % (p.t[p.i:p.i + 5],))
    return t


def parse_evals(stdout):
    """Splits coqc output into the values printed by successive Eval commands."""
    res = []
    cur = None
    for line in stdout.splitlines():
        if line.startswith("     = "):
            if cur is not None:
                res.append(cur)
            cur = [line[7:]]
        elif line.startswith("     : "):
            if cur is not None:
                res.append(cur)
                cur = None
        elif cur is not None:
            cur.append(line)
    if cur is not None:
        res.append(cur)
    return [parse_term("\n".join(c)) for c in res]


# ---------------------------------------------------------------- running
HEADER = "Set Printing Width 10000000.\nSet Printing Depth 10000000.\nUnset Printing Records.\n"


def _run_file(args):
    imports, fn, terms, timeout = args
    src = "From Coq Require Import ZArith List String.\nImport ListNotations.\n"
    for imp in imports:
        src += "From Asynq Require Import %s.\n" % imp
    src += "Open Scope Z_scope.\n" + HEADER
    for t in terms:
        src += "Eval vm_compute in (%s %s).\n" % (fn, t)
    d = tempfile.mkdtemp(prefix="asynq-verif-coq-")
    try:
        path = os.path.join(d, "cases.v")
        with open(path, "w") as f:
            f.write(src)
        p = subprocess.run(
            ["coqc", "-Q", os.path.join(COQDIR, "theories"), "Asynq", path],
            capture_output=True, text=True, timeout=timeout,
        )
        if p.returncode != 0:
            raise RuntimeError("coqc failed on generated cases:\n" + p.stderr[-3000:] + "\n--- first lines of cases.v:\n" + src[:1500])
        vals = parse_evals(p.stdout)
        if len(vals) != len(terms):
            raise RuntimeError("coqc printed %d values for %d cases" % (len(vals), len(terms)))
        return vals
    finally:
        import shutil
        shutil.rmtree(d, ignore_errors=True)


def run_model(imports, fn, cases, shard=250, jobs=16, timeout=900):
    """cases: list of trees (each the argument of `fn`).  Returns list of output trees."""
    terms = [coq_of(c) for c in cases]
    shards = [terms[i:i + shard] for i in range(0, len(terms), shard)]
    with concurrent.futures.ThreadPoolExecutor(max_workers=jobs) as ex:
        outs = list(ex.map(_run_file, [(imports, fn, s, timeout) for s in shards]))
    res = []
    for o in outs:
        res.extend(o)
    return res


def check_props(prop_id, timeout=900):
    """Re-compiles theories/props/<id>.v (after making sure its dependencies are built) and parses
    the Print Assumptions output.  Returns dict(ok, obligations, discharged, axioms, theorems, log)."""
    vfile = os.path.join(COQDIR, "theories", "props", prop_id + ".v")
    if not os.path.exists(vfile):
        return dict(ok=False, obligations=0, discharged=0, axioms={}, theorems=[], log="missing " + vfile)
    proj = os.path.join(COQDIR, "_CoqProject")
    listed = open(proj).read() if os.path.exists(proj) else ""
    have = []
    for root, _, files in os.walk(os.path.join(COQDIR, "theories")):
        have += [os.path.relpath(os.path.join(root, f), COQDIR) for f in files if f.endswith(".v")]
    if not os.path.exists(os.path.join(COQDIR, "Makefile")) or any(h not in listed for h in have):
        subprocess.run(["bash", os.path.join(COQDIR, "..", "bin", "mkcoqproject")], check=True, cwd=COQDIR)
    vo = vfile + "o"
    if os.path.exists(vo):
        os.remove(vo)
    p = subprocess.run(
        ["timeout", str(timeout), "make", "-j16", "theories/props/%s.vo" % prop_id],
        cwd=COQDIR, capture_output=True, text=True,
    )
    log = p.stdout + p.stderr
    src = open(vfile).read()
    theorems = re.findall(r"^\s*(?:Theorem|Lemma|Corollary)\s+([A-Za-z0-9_']+)", src, re.M)
    npa = len(re.findall(r"^\s*Print Assumptions\s+([A-Za-z0-9_'.]+)\s*\.", src, re.M))
    if p.returncode != 0:
        return dict(ok=False, obligations=max(npa, len(theorems)), discharged=0, axioms={}, theorems=theorems, log=log[-4000:])
    # parse Print Assumptions blocks
    closed = len(re.findall(r"Closed under the global context", p.stdout))
    axioms = {}
    blocks = re.split(r"\n(?=Axioms:)", p.stdout)
    nax_blocks = 0
    for b in blocks:
        if b.startswith("Axioms:"):
            nax_blocks += 1
            for m in re.finditer(r"^([A-Za-z_][A-Za-z0-9_'.]*)\s*:", b, re.M):
                if m.group(1) != "Axioms":
                    axioms[m.group(1)] = axioms.get(m.group(1), 0) + 1
    allowed = re.compile(
        r"^(Coq\.|)(.*(functional_extensionality|proof_irrelevance|classic|JMeq_eq|eq_rect_eq|"
        r"propositional_extensionality|constructive_definite_description|sig_forall_dec).*)$")
    bad = [a for a in axioms if not allowed.match(a)]
    ok = (closed + nax_blocks == npa) and not bad and npa >= 1 and npa >= len(theorems)
    return dict(ok=ok, obligations=npa, discharged=(closed + nax_blocks) if not bad else closed,
                axioms=axioms, bad_axioms=bad, theorems=theorems, log=log[-2000:])
