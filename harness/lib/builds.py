"""Scratch builds of /repo's current working tree (pure-Python and Cython-compiled).

Both builds live in a mkdtemp directory outside /repo and /verif and are removed when the
context manager exits (also on failure).  Nothing is cached between commands.
"""
import contextlib
import os
import shutil
import subprocess
import tempfile
import time

REPO = os.environ.get("VERIF_REPO", "/repo")
PY = os.environ.get("VERIF_PY", "/venv/bin/python")


def _copy(dst):
    subprocess.run(
        [
            "rsync", "-a", "--exclude", ".git", "--exclude", "*.so", "--exclude", "*.c",
            "--exclude", "__pycache__", "--exclude", "build", "--exclude", "*.egg-info",
            REPO + "/", dst + "/",
        ],
        check=True,
    )


@contextlib.contextmanager
def builds(want=("pure", "compiled"), log=None):
    """Yields {"pure": dir, "compiled": dir}. A build that fails to compile is reported as
    {"compiled": None} with the error text in builds.errors."""
    base = tempfile.mkdtemp(prefix="asynq-verif-")
    out = {}
    errors = {}
    t0 = time.time()
    try:
        procs = {}
        for kind in want:
            d = os.path.join(base, kind)
            os.makedirs(d)
            _copy(d)
            out[kind] = d
            if kind == "compiled":
                procs[kind] = subprocess.Popen(
                    [PY, "setup.py", "build_ext", "--inplace", "-j16"],
                    cwd=d, stdout=subprocess.PIPE, stderr=subprocess.STDOUT, text=True,
                    env=dict(os.environ, PIP_NO_INDEX="1"),
                )
        for kind, p in procs.items():
            try:
                txt, _ = p.communicate(timeout=900)
            except subprocess.TimeoutExpired:
                p.kill()
                txt = "build timed out"
            so = [f for f in os.listdir(os.path.join(out[kind], "asynq")) if f.endswith(".so")]
            if p.returncode != 0 or len(so) < 8:
                errors[kind] = txt[-4000:]
                out[kind] = None
        out["_errors"] = errors
        out["_build_s"] = round(time.time() - t0, 1)
        yield out
    finally:
        shutil.rmtree(base, ignore_errors=True)


def impl_env(build_dir):
    env = dict(os.environ)
    env["PYTHONPATH"] = build_dir
    env["PYTHONHASHSEED"] = "0"
    env["PYTHONDONTWRITEBYTECODE"] = "1"
    env.pop("ASYNQ_VERIF", None)
    return env
