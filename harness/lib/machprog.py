"""Generated task programs for the scheduler machine (C01-C08, C20): one first-order AST, printed both
as Python source (run against the implementation) and as a Gallina [prog] term (run by Machine.v).

AST (JSON):
  body  ::= [stmt]
  stmt  ::= {"op":"yield","x":v,"s":struct} | {"op":"let","h":hv,"f":fexpr} | {"op":"sync","x":v,"h":hv}
          | {"op":"with","c":ctx,"body":body} | {"op":"try","body":body,"x":v,"handler":body}
          | {"op":"read","x":v,"var":n} | {"op":"probe"}
          | {"op":"enter","v":cv,"c":ctx} | {"op":"exit","v":cv,"c":ctx}     (explicit __enter__/__exit__, need not nest)
          | {"op":"return","e":expr} | {"op":"result","e":expr} | {"op":"raise","e":id}
  struct::= None | "bad" | {"new":fexpr} | {"old":hv} | {"tuple":[struct]} | {"list":[struct]} | {"dict":[[k,struct]]}
  fexpr ::= {"task":body} | {"item":[kind,key,act]} | {"const":val} | {"error":id} | {"lazy":outcome}
  act   ::= {"set":val} | {"err":id} | "skip"
  ctx   ::= {"async":[cid, fault]} | {"nonasync":cid} | {"override":[cid,var,val]}
  fault ::= None | {"resume":[k,e]} | {"pause":[k,e]} | {"pause":[k,e],"sticky":true} | {"resume":[k,e],"sticky":true} | {"exit":e}
            (k-th scheduler-driven call raises e; "sticky": from then on EVERY pause() call on the context raises e, also the
             one a with block's __exit__ makes - implementation side only: for the model it is PauseRaises k e, and the two
             coincide exactly when no pause() follows a failed one)
          ({"exit":e}: the pause() that __exit__ makes when the block is left raises e.  For the model this is a program,
           not a cfault: Exit c (Raise e) on every exit path - exit_ctx deregisters, pauses, and the block's continuation
           is the error, whatever the block was left with)
  expr  ::= None | int | {"var":v} | {"tuple":[expr]} | {"list":[expr]}
  val   ::= None | int | {"t":[val]} | {"l":[val]}
  outcome ::= {"ok":val} | {"err":id}
Variables are single-assignment; a nested task body may read variables of the enclosing bodies that
were assigned before the task was created (closure).  After a `try` only variables assigned before
it are used.
"""

EXN_TAG = -999


# ------------------------------------------------------------------ Gallina
def cz(z):
    return "(%d)" % z


def cval(v):
    if v is None:
        return "VNone"
    if isinstance(v, int):
        return "(VInt %s)" % cz(v)
    if "t" in v:
        return "(VTuple [%s])" % "; ".join(cval(x) for x in v["t"])
    if "l" in v:
        return "(VList [%s])" % "; ".join(cval(x) for x in v["l"])
    raise ValueError(v)


def cexpr(e):
    if e is None:
        return "VNone"
    if isinstance(e, int):
        return "(VInt %s)" % cz(e)
    if "var" in e:
        return e["var"]
    if "handle" in e:
        return "VNone"      # a future object returned as a value: outside the model (params.model_blind: not compared)
    if "tuple" in e:
        return "(VTuple [%s])" % "; ".join(cexpr(x) for x in e["tuple"])
    if "list" in e:
        return "(VList [%s])" % "; ".join(cexpr(x) for x in e["list"])
    raise ValueError(e)


def coutcome(o):
    return "(Ok %s)" % cval(o["ok"]) if "ok" in o else "(Err %s)" % cz(o["err"])


def cact(a):
    if a == "skip":
        return "ASkip"
    if "set" in a:
        return "(ASet %s)" % cval(a["set"])
    return "(AErr %s)" % cz(a["err"])


def cctx(c):
    if "async" in c:
        cid, f = c["async"]
        if f is None or "exit" in f:
            ft = "NoFault"
        elif "resume" in f:
            ft = "(ResumeRaises %d%%nat %s)" % (f["resume"][0], cz(f["resume"][1]))
        else:
            ft = "(PauseRaises %d%%nat %s)" % (f["pause"][0], cz(f["pause"][1]))
        return "(CAsync %s %s)" % (cz(cid), ft)
    if "nonasync" in c:
        return "(CNonAsync %s)" % cz(c["nonasync"])
    cid, var, v = c["override"]
    return "(COverride %s %s %s)" % (cz(cid), cz(var), cval(v))


def exit_fault(c):
    f = c["async"][1] if "async" in c else None
    return f["exit"] if f is not None and "exit" in f else None


class _Ctr:
    def __init__(self):
        self.n = 0

    def fresh(self, p):
        self.n += 1
        return "%s_%d" % (p, self.n)


def cfexpr(f, ctr):
    if "task" in f:
        return "(FTask %s)" % cbody(f["task"], ctr)
    if "item" in f:
        kind, key, act = f["item"]
        return "(FItem %s %s %s)" % (cz(kind), cz(key), cact(act))
    if "const" in f:
        return "(FConst %s)" % cval(f["const"])
    if "error" in f:
        return "(FError %s)" % cz(f["error"])
    if "lazy" in f:
        return "(FLazy %s)" % coutcome(f["lazy"])
    raise ValueError(f)


def cstruct(s, ctr):
    if s is None:
        return "YNone"
    if s == "bad":
        return "(YLeaf LBad)"
    if "new" in s:
        return "(YLeaf (LNew %s))" % cfexpr(s["new"], ctr)
    if "old" in s:
        return "(YLeaf (LOld %s))" % s["old"]
    if "tuple" in s:
        return "(YTuple [%s])" % "; ".join(cstruct(x, ctr) for x in s["tuple"])
    if "list" in s:
        return "(YList [%s])" % "; ".join(cstruct(x, ctr) for x in s["list"])
    if "dict" in s:
        return "(YDict [%s])" % "; ".join("(%s, %s)" % (cz(k), cstruct(x, ctr)) for k, x in s["dict"])
    raise ValueError(s)


def cbody(body, ctr):
    return "(" + _cstmts(body, ctr, lambda: "Ret VNone", lambda e: "Raise %s" % e,
                         lambda v, res: ("Result %s" if res else "Ret %s") % v) + ")"


def _cstmts(stmts, ctr, kn, ke, kr):
    if not stmts:
        return kn()
    st, rest = stmts[0], stmts[1:]
    op = st["op"]
    R = lambda: _cstmts(rest, ctr, kn, ke, kr)
    if op == "yield":
        if st.get("again"):
            # the same container of stored handles is yielded twice: for the model, two yields of the same structure
            first = {k: v for k, v in st.items() if k != "again"}
            second = dict(first, x=st["again"])
            return _cstmts([first, second] + rest, ctr, kn, ke, kr)
        o, e = ctr.fresh("o"), ctr.fresh("e")
        return "Yield %s (fun %s => match %s with Ok %s => %s | Err %s => %s end)" % (
            cstruct(st["s"], ctr), o, o, st["x"], R(), e, ke(e))
    if op == "let":
        return "Let %s (fun %s => %s)" % (cfexpr(st["f"], ctr), st["h"], R())
    if op == "sync":
        o, e = ctr.fresh("o"), ctr.fresh("e")
        return "Sync %s (fun %s => match %s with Ok %s => %s | Err %s => %s end)" % (
            st["h"], o, o, st["x"], R(), e, ke(e))
    if op == "with":
        c = cctx(st["c"])
        xf = exit_fault(st["c"])
        if xf is not None:
            # the pause() made by __exit__ raises xf: the block ends with that error on every exit path (normal end,
            # exception - which it replaces -, return / result)
            leave = lambda: "Exit %s (%s)" % (c, ke(cz(xf)))
            return "Enter %s (%s)" % (c, _cstmts(st["body"], ctr, leave, lambda e: leave(), lambda v, res: leave()))
        inner = _cstmts(st["body"], ctr,
                        lambda: "Exit %s (%s)" % (c, R()),
                        lambda e: "Exit %s (%s)" % (c, ke(e)),
                        lambda v, res: "Exit %s (%s)" % (c, kr(v, res)))
        return "Enter %s (%s)" % (c, inner)
    if op == "enter":
        return "Enter %s (%s)" % (cctx(st["c"]), R())
    if op == "exit":
        xf = exit_fault(st["c"])
        return "Exit %s (%s)" % (cctx(st["c"]), R() if xf is None else ke(cz(xf)))
    if op == "try":
        kname, hname, ev = ctr.fresh("k"), ctr.fresh("hd"), ctr.fresh("e")
        handler = _cstmts(st["handler"], ctr, lambda: "%s tt" % kname, ke, kr)
        body = _cstmts(st["body"], ctr, lambda: "%s tt" % kname, lambda e: "%s %s" % (hname, e), kr)
        return ("let %s := (fun _ : unit => %s) in let %s := (fun %s : exn => let %s := VTuple [VInt (%d); VInt %s] in %s) in %s"
                % (kname, R(), hname, ev, st["x"], EXN_TAG, ev, handler, body))
    if op == "read":
        return "ReadVar %s (fun %s => %s)" % (cz(st["var"]), st["x"], R())
    if op == "probe":
        return "Probe (fun _ => %s)" % R()
    if op == "return":
        return kr(cexpr(st["e"]), False)
    if op == "result":
        return kr(cexpr(st["e"]), True)
    if op == "raise":
        return ke(cz(st["e"]))
    raise ValueError(op)


def cparams(params, oracle):
    kinds = "; ".join("(%s, mkK %s %s)" % (cz(k), cprio(ks.get("prio")), craise(ks.get("raise")))
                      for k, ks in sorted((int(k), v) for k, v in params.get("kinds", {}).items()))
    orc = "; ".join("(%s, %s)" % (cz(a), cz(b)) for a, b in oracle)
    return "(mkP [%s] %s %s [%s])" % (kinds, cz(params.get("maxstack", 1000000)),
                                      "true" if params.get("keep") else "false", orc)


def cprio(p):
    if p is None:
        return "PDefault"
    k, a = p[0], p[1:]
    if k == "baselen":
        return "(PBaseLen %s)" % cz(a[0])
    if k == "baserevlen":
        return "(PBaseRevLen %s)" % cz(a[0])
    if k == "const":
        return "(PConst %s %s)" % (cz(a[0]), cz(a[1]))
    raise ValueError(p)


def craise(r):
    return "None" if r is None else "(Some (%s, %s))" % (cz(r[0]), cz(r[1]))


def coq_case(case, oracle, fuel=200000):
    """Argument text of Machine.run_case for this case."""
    ctr = _Ctr()
    roots = "; ".join(cbody(b, ctr) for b in case["roots"])
    return "%s %d%%nat [%s]" % (cparams(case.get("params", {}), oracle), fuel, roots)


# ------------------------------------------------------------------ Python
def pval(v):
    if v is None:
        return "None"
    if isinstance(v, int):
        return repr(v)
    if "t" in v:
        return "(" + "".join(pval(x) + ", " for x in v["t"]) + ")"
    if "l" in v:
        return "[" + ", ".join(pval(x) for x in v["l"]) + "]"
    raise ValueError(v)


def pexpr(e):
    if e is None:
        return "None"
    if isinstance(e, int):
        return repr(e)
    if "var" in e:
        return e["var"]
    if "handle" in e:
        return e["handle"]
    if "tuple" in e:
        return "(" + "".join(pexpr(x) + ", " for x in e["tuple"]) + ")"
    if "list" in e:
        return "[" + ", ".join(pexpr(x) for x in e["list"]) + "]"
    raise ValueError(e)


class _Py:
    def __init__(self):
        self.lines = []
        self.n = 0
        self.fn_ind = 0          # indentation of the statements of the function being emitted
        self.hoisted = None      # where nested task functions of the current function are collected

    def fresh(self):
        self.n += 1
        return "f_%d" % self.n

    def emit(self, ind, text):
        self.lines.append("    " * ind + text)


def pfexpr(f, py, ind):
    """Returns a Python expression creating the future; nested task functions are hoisted (emitted
    before the current statement at indentation ind)."""
    if "task" in f:
        # nested task functions are hoisted to the top of the enclosing function (closures are late-binding
        # and a child only reads variables assigned before it was created), which keeps block nesting shallow
        name = py.fresh()
        saved = py.lines
        py.lines = py.hoisted
        pbody(name, f["task"], py, py.fn_ind)
        py.lines = saved
        return "T.new_task(%s, _id, _n)" % name
    if "item" in f:
        kind, key, act = f["item"]
        return "T.new_item(%d, %d, %r, _id, _n)" % (kind, key, act)
    if "const" in f:
        return "T.new_const(%s, _id, _n)" % pval(f["const"])
    if "error" in f:
        return "T.new_error(%d, _id, _n)" % f["error"]
    if "lazy" in f:
        return "T.new_lazy(%r, _id, _n)" % (f["lazy"],)
    raise ValueError(f)


def pstruct(s, py, ind):
    if s is None:
        return "None"
    if s == "bad":
        return "T.bad()"
    if "new" in s:
        return pfexpr(s["new"], py, ind)
    if "old" in s:
        return s["old"]
    if "tuple" in s:
        return "(" + "".join(pstruct(x, py, ind) + ", " for x in s["tuple"]) + ")"
    if "list" in s:
        return "[" + ", ".join(pstruct(x, py, ind) for x in s["list"]) + "]"
    if "dict" in s:
        return "{" + ", ".join("%d: %s" % (k, pstruct(x, py, ind)) for k, x in s["dict"]) + "}"
    raise ValueError(s)


def pbody(name, body, py, ind):
    py.emit(ind, "@asynq()")
    py.emit(ind, "def %s(_id):" % name)
    py.emit(ind + 1, "_n = [0]; _k = [0]")
    saved = (py.lines, py.hoisted, py.fn_ind)
    py.hoisted, py.lines, py.fn_ind = [], [], ind + 1
    py.emit(ind + 1, "T.step(_id, _k, None, None)")
    _pstmts(body, py, ind + 1)
    py.emit(ind + 1, "return None")
    py.emit(ind + 1, "yield None  # makes this a generator function in every case")
    mine = py.hoisted + py.lines
    py.lines, py.hoisted, py.fn_ind = saved
    py.lines.extend(mine)


def _pstmts(stmts, py, ind):
    for st in stmts:
        op = st["op"]
        if op == "yield":
            expr = pstruct(st["s"], py, ind)
            py.emit(ind, "_y = %s" % expr)
            for i, var in enumerate([st["x"]] + ([st["again"]] if st.get("again") else [])):
                # _s: a copy of the yielded structure taken before the first yield (the library must not be able to
                # change what the harness compares against); with "again" the SAME object _y is yielded a second time
                # and is expected to mean the same futures
                py.emit(ind, "_s = T.pre_yield(_id, _k, %s)" % ("_y" if i == 0 else "_s"))
                py.emit(ind, "try:")
                py.emit(ind + 1, "%s = yield _y" % var)
                py.emit(ind, "except (GeneratorExit, T.Hang):")
                py.emit(ind + 1, "raise")
                py.emit(ind, "except BaseException as _e:")
                py.emit(ind + 1, "T.step_err(_id, _k, _e, _s); raise")
                py.emit(ind, "else:")
                py.emit(ind + 1, "T.step(_id, _k, %s, _s)" % var)
        elif op == "let":
            expr = pfexpr(st["f"], py, ind)
            py.emit(ind, "%s = %s" % (st["h"], expr))
        elif op == "sync":
            py.emit(ind, "T.pre_sync(_id, %s)" % st["h"])
            py.emit(ind, "try:")
            py.emit(ind + 1, "%s = %s.value()" % (st["x"], st["h"]))
            py.emit(ind, "except (GeneratorExit, T.Hang):")
            py.emit(ind + 1, "raise")
            py.emit(ind, "except BaseException as _e:")
            py.emit(ind + 1, "T.got_err(_id, _e); raise")
            py.emit(ind, "else:")
            py.emit(ind + 1, "T.got(_id, %s)" % st["x"])
        elif op == "with":
            py.emit(ind, "with T.ctx(%r, _id):" % (st["c"],))
            _pstmts(st["body"], py, ind + 1)
            py.emit(ind + 1, "pass")
        elif op == "enter":
            py.emit(ind, "%s = T.ctx(%r, _id)" % (st["v"], st["c"]))
            py.emit(ind, "%s.__enter__()" % st["v"])
        elif op == "exit":
            py.emit(ind, "%s.__exit__(None, None, None)" % st["v"])
        elif op == "try":
            py.emit(ind, "try:")
            _pstmts(st["body"], py, ind + 1)
            py.emit(ind + 1, "pass")
            py.emit(ind, "except (GeneratorExit, T.Hang):")
            py.emit(ind + 1, "raise")
            py.emit(ind, "except BaseException as _ex:")
            py.emit(ind + 1, "%s = _ex" % st["x"])
            _pstmts(st["handler"], py, ind + 1)
        elif op == "read":
            py.emit(ind, "%s = T.read(_id, %d)" % (st["x"], st["var"]))
        elif op == "probe":
            py.emit(ind, "T.probe(_id)")
        elif op == "return":
            py.emit(ind, "return %s" % pexpr(st["e"]))
        elif op == "result":
            py.emit(ind, "result(%s); return" % pexpr(st["e"]))
        elif op == "raise":
            py.emit(ind, "raise T.err(%d)" % st["e"])
        else:
            raise ValueError(op)


def py_case(case):
    """Python source defining root_0 .. root_{n-1} (each an @asynq() generator function taking its path id)."""
    py = _Py()
    for i, b in enumerate(case["roots"]):
        pbody("root_%d" % i, b, py, 0)
    return "\n".join(py.lines) + "\n"
