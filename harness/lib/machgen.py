"""Seeded generator of task programs (AST of machprog.py) with profile knobs."""

DEFAULT = dict(
    max_depth=4, budget=14, max_stmts=4, nkinds=2, nkeys=6,
    p_sync=0.12, p_with=0.12, p_try=0.12, p_raise=0.06, p_let=0.15, p_old=0.25, p_bad=0.02, p_lazy=0.05,
    p_const=0.12, p_errfut=0.04, p_item=0.45, p_dict=0.08, p_none=0.08, p_read=0.06, p_probe=0.06,
    p_item_err=0.08, p_item_skip=0.05, p_flush_raise=0.1, p_prio=0.4, p_ctx_fault=0.0, p_nonasync=0.0,
    p_override=0.4, p_result=0.1, nvars=2, roots=(1, 1), p_lazy_err=0.4, p_keep=0.0, max_width=3, p_maxstack=0.0,
    p_again=0.0,
    p_flush_ctx=0.0,  # flush bodies that run inside `with scoped_value.override(v):` and report get_active_task()
    p_ret_fut=0.0,    # a task that returns a future it never yielded (`return other.asynq(...)`): the future object is its value
    p_fault_classes=0.0,  # params.fault_classes: scripted faults are TypeError / AssertionError / KeyError / RuntimeError / ValueError instances
    p_dup=0.0,        # one yield that lists the same stored (not yet started) handle twice, with fresh futures in between
    p_manual_ctx=0.0, # contexts entered and left by explicit __enter__/__exit__ calls, in non-nested order
    p_exit_fault=0.0, # AsyncContexts whose pause() raises when it is the one made by __exit__ (fault {"exit": e}); most such
                      # blocks sit in a try whose handler lets the task carry on (it can be suspended again afterwards)
    p_via_cancel=0.0, # a flush body that fails does so by cancelling its own batch and returning normally
    p_base_err=0.0,   # params.base_errors: every third fault id is a BaseException that is not an Exception
    p_diamond=0.0,    # a stored handle of a task that holds a context across a suspension, awaited by 2-3 sibling tasks, each from
                      # inside a context block of its own and after a different number of suspensions (a DAG: the shared task is
                      # started under one awaiter and continued / completed under another)
    p_sticky=0.0,     # a context whose fault is PERSISTENT: once its pause() (or resume()) has raised, every later pause() call on it
                      # (by the scheduler or by the with block's __exit__, e.g. during generator.close()) raises too
    p_ctx_stack=0.0,  # 2-3 directly nested AsyncContexts whose pause() (or resume()) faults fire at the SAME suspension / reactivation
    p_vary_bad=0.0,   # params.vary_bad: non-future leaves cycle through 12345, 0, '', False, 0.0, b'', 'abc'      # a yield of a container of stored handles whose very same container object is yielded a second time
)


class Gen:
    def __init__(self, rng, **kw):
        self.r = rng
        self.c = dict(DEFAULT)
        self.c.update(kw)
        self.nx = 0
        self.nh = 0
        self.ncid = 0
        self.nerr = 0
        self.budget = self.c["budget"]

    def fx(self):
        self.nx += 1
        return "x%d" % self.nx

    def fh(self):
        self.nh += 1
        return "h%d" % self.nh

    def ferr(self):
        self.nerr += 1
        return self.nerr

    def val(self):
        r = self.r.random()
        if r < 0.1:
            return None
        if r < 0.85:
            return self.r.randrange(0, 100)
        if r < 0.93:
            return {"t": [self.r.randrange(0, 9) for _ in range(self.r.randrange(0, 3))]}
        return {"l": [self.r.randrange(0, 9) for _ in range(self.r.randrange(0, 3))]}

    def act(self):
        r = self.r.random()
        if r < self.c["p_item_err"]:
            return {"err": self.ferr()}
        if r < self.c["p_item_err"] + self.c["p_item_skip"]:
            return "skip"
        return {"set": self.val()}

    def fexpr(self, depth, vals, hands, allow_task=True):
        c = self.c
        r = self.r.random()
        if allow_task and depth < c["max_depth"] and self.budget > 0 and r > c["p_item"] + c["p_const"] + c["p_errfut"] + c["p_lazy"]:
            self.budget -= 1
            return {"task": self.body(depth + 1, list(vals), list(hands))}
        r = self.r.random() * (c["p_item"] + c["p_const"] + c["p_errfut"] + c["p_lazy"])
        if r < c["p_item"]:
            return {"item": [self.r.randrange(c["nkinds"]), self.r.randrange(c["nkeys"]), self.act()]}
        r -= c["p_item"]
        if r < c["p_const"]:
            return {"const": self.val()}
        r -= c["p_const"]
        if r < c["p_errfut"]:
            return {"error": self.ferr()}
        if self.r.random() < c["p_lazy_err"]:
            return {"lazy": {"err": self.ferr()}}
        return {"lazy": {"ok": self.val()}}

    def struct(self, depth, vals, hands, nest=0):
        c = self.c
        r = self.r.random()
        if nest < 2 and r < 0.38:
            n = self.r.choice([0, 1, 2, 2, 3, 3, c["max_width"]])
            kind = "dict" if self.r.random() < c["p_dict"] else self.r.choice(["tuple", "list"])
            items = [self.struct(depth, vals, hands, nest + 1) for _ in range(n)]
            if kind == "dict":
                return {"dict": [[i, s] for i, s in enumerate(items)]}
            return {kind: items}
        r = self.r.random()
        if r < c["p_none"]:
            return None
        if r < c["p_none"] + c["p_bad"]:
            return "bad"
        if hands and self.r.random() < c["p_old"]:
            return {"old": self.r.choice(hands)}
        return {"new": self.fexpr(depth, vals, hands)}

    def ctx(self):
        c = self.c
        self.ncid += 1
        r = self.r.random()
        if r < c["p_nonasync"]:
            return {"nonasync": self.ncid}
        if r < c["p_nonasync"] + c["p_override"]:
            return {"override": [self.ncid, self.r.randrange(c["nvars"]), self.r.randrange(100, 200)]}
        fault = None
        if self.r.random() < c["p_ctx_fault"]:
            k = self.r.choice([1, 1, 2, 3])
            fault = {self.r.choice(["resume", "pause"]): [k, self.ferr()]}
            if c["p_sticky"] > 0 and "pause" in fault and self.r.random() < c["p_sticky"]:   # sticky RESUME faults: corpus only (see DESIGN 0.4, open observation)
                fault["sticky"] = True
        if fault is None and c["p_exit_fault"] > 0 and self.r.random() < c["p_exit_fault"]:
            fault = {"exit": self.ferr()}
        return {"async": [self.ncid, fault]}

    def ctx_stack(self, depth, vals, hands, bd):
        """a stack of 2-3 contexts entered together (no suspension in between, so their scheduler-driven pause()/resume()
        counts stay equal) with faults scripted for the same call number: several pause() - or resume() - calls raise
        within ONE _pause_contexts / _resume_contexts; the innermost body suspends on batch items often enough"""
        c = self.c
        n = 2 if bd >= 1 else self.r.choice([2, 2, 3])
        kind = self.r.choice(["pause", "pause", "resume", "mixed"])
        k = self.r.choice([1, 1, 1, 2])
        ctxs = []
        for _ in range(n):
            self.ncid += 1
            fault = None
            if self.r.random() < 0.85:
                kd = kind if kind != "mixed" else self.r.choice(["pause", "resume"])
                fault = {kd: [k, self.ferr()]}
            ctxs.append({"async": [self.ncid, fault]})
        body = []
        for _ in range(k):
            x = self.fx()
            body.append({"op": "yield", "x": x, "s": {"new": {"item": [self.r.randrange(c["nkinds"]), self.r.randrange(c["nkeys"]), self.act()]}}})
            vals.append(x)
        body += self.block(depth, vals, hands, self.r.randrange(0, 2), False, bd + n)
        for cx in reversed(ctxs):
            body = [{"op": "with", "c": cx, "body": body}]
        return body[0]

    def retexpr(self, vals):
        if not vals or self.r.random() < 0.1:
            return self.r.choice([None, self.r.randrange(100)])
        k = min(len(vals), self.r.choice([1, 2, 3, 4]))
        pick = self.r.sample(vals, k)
        if k == 1 and self.r.random() < 0.5:
            return {"var": pick[0]}
        return {self.r.choice(["tuple", "list"]): [{"var": v} for v in pick]}

    def ctx_on(self, var):
        """a context block for the shared-handle scenarios: mostly an override of the given variable"""
        cx = self.ctx()
        if "override" in cx and self.r.random() < 0.75:
            cx["override"][1] = var
        return cx

    def item_yield(self, vals):
        x = self.fx()
        st = {"op": "yield", "x": x, "s": {"new": {"item": [self.r.randrange(self.c["nkinds"]), self.r.randrange(self.c["nkeys"]), self.act()]}}}
        vals.append(x)
        return st

    def diamond(self, depth, vals, hands, bd):
        """let h = <task holding a context over >= 1 suspension>; yield (<task: with ctx: [suspensions]; yield h; read>, ...)"""
        r = self.r
        var = r.randrange(self.c["nvars"])
        out = []
        # the shared task
        svals, shands = list(vals), list(hands)
        inner = [self.item_yield(svals) for _ in range(r.choice([1, 1, 1, 2]))]
        if r.random() < 0.7:
            x = self.fx()
            inner.append({"op": "read", "x": x, "var": var})
            svals.append(x)
        if r.random() < 0.3:
            inner += self.block(depth + 1, svals, shands, 1, False, 1)
        sbody = []
        if r.random() < 0.2:
            sbody.append(self.item_yield(svals))
        sbody.append({"op": "with", "c": self.ctx_on(var), "body": inner})
        if r.random() < 0.4:
            x = self.fx()
            sbody.append({"op": "read", "x": x, "var": var})
            svals.append(x)
        sbody.append({"op": "return", "e": self.retexpr(svals)})
        h = self.fh()
        out.append({"op": "let", "h": h, "f": {"task": sbody}})
        hands.append(h)
        # the tasks awaiting it
        leaves = []
        for _ in range(r.choice([2, 2, 2, 3])):
            avals, ahands = list(vals), list(hands)
            pre = [self.item_yield(avals) for _ in range(r.choice([0, 0, 1, 1, 2]))]
            x = self.fx()
            if r.random() < 0.1:
                wait = [{"op": "sync", "x": x, "h": h}]
            elif r.random() < 0.25:
                wait = [{"op": "yield", "x": x, "s": {r.choice(["tuple", "list"]): [{"old": h}, {"new": self.fexpr(depth + 1, avals, ahands)}]}}]
            else:
                wait = [{"op": "yield", "x": x, "s": {"old": h}}]
            avals.append(x)
            post = []
            if r.random() < 0.9:
                x = self.fx()
                post.append({"op": "read", "x": x, "var": var})
                avals.append(x)
            if r.random() < 0.2:
                post.append(self.item_yield(avals))
                x = self.fx()
                post.append({"op": "read", "x": x, "var": var})
                avals.append(x)
            if r.random() < 0.85:
                k = r.randrange(0, len(pre) + 1)        # suspensions before the block / inside it
                abody = pre[:k] + [{"op": "with", "c": self.ctx_on(var), "body": pre[k:] + wait + post}]
            else:
                abody = pre + wait + post
            if r.random() < 0.3:
                x = self.fx()
                abody.append({"op": "read", "x": x, "var": var})
                avals.append(x)
            abody.append({"op": "return", "e": self.retexpr(avals)})
            leaves.append({"new": {"task": abody}})
        if r.random() < 0.15:
            leaves.insert(r.randrange(0, len(leaves) + 1), {"old": h})
        x = self.fx()
        y = [{"op": "yield", "x": x, "s": {r.choice(["tuple", "list"]): leaves}}]
        x2 = self.fx()
        y.append({"op": "read", "x": x2, "var": var})
        if bd < 3 and r.random() < 0.6:
            out.append({"op": "with", "c": self.ctx_on(var), "body": y})
        else:
            out.extend(y)
        vals.extend([x, x2])
        return out

    def block(self, depth, vals, hands, n, terminal, bd=0):
        c = self.c
        out = []
        manual = []         # contexts opened by explicit __enter__ in this block, in entry order
        for _ in range(n):
            if c["p_diamond"] > 0 and depth + 1 < c["max_depth"] and self.budget >= 4 and self.r.random() < c["p_diamond"]:
                self.budget -= 4
                out.extend(self.diamond(depth, vals, hands, bd))
                continue
            if c["p_manual_ctx"] > 0 and len(manual) < 3 and self.r.random() < c["p_manual_ctx"]:
                self.ncid += 1
                m = {"v": "m%d" % self.ncid, "c": {"async": [self.ncid, None]}}
                manual.append(m)
                out.append({"op": "enter", "v": m["v"], "c": m["c"]})
            if c["p_ctx_stack"] > 0 and bd < 2 and self.r.random() < c["p_ctx_stack"]:
                out.append(self.ctx_stack(depth, vals, hands, bd))
                continue
            r = self.r.random()
            acc = 0.0

            def hit(p):
                nonlocal acc
                acc += p
                return r < acc
            if hit(c["p_let"]):
                h = self.fh()
                out.append({"op": "let", "h": h, "f": self.fexpr(depth, vals, hands)})
                hands.append(h)
            elif hit(c["p_sync"]):
                if hands and self.r.random() < 0.5:
                    h = self.r.choice(hands)
                else:
                    h = self.fh()
                    out.append({"op": "let", "h": h, "f": self.fexpr(depth, vals, hands)})
                    hands.append(h)
                x = self.fx()
                out.append({"op": "sync", "x": x, "h": h})
                vals.append(x)
            elif bd < 3 and hit(c["p_with"]):
                v0, h0 = (list(vals), list(hands)) if c["p_exit_fault"] > 0 else (vals, hands)
                body = self.block(depth, v0, h0, self.r.randrange(1, 3), False, bd + 1)
                w = {"op": "with", "c": self.ctx(), "body": body}
                xf = "async" in w["c"] and w["c"]["async"][1] is not None and "exit" in w["c"]["async"][1]
                if xf and self.r.random() < 0.75:
                    # a handler around the block: the task survives the error raised on exit and runs on
                    x = self.fx()
                    handler = self.block(depth, list(vals) + [x], list(hands), self.r.randrange(0, 2), False, bd + 1)
                    out.append({"op": "try", "body": [w], "x": x, "handler": handler})
                else:
                    out.append(w)
            elif bd < 3 and hit(c["p_try"]):
                v0, h0 = list(vals), list(hands)
                body = self.block(depth, v0, h0, self.r.randrange(1, 3), self.r.random() < 0.2, bd + 1)
                x = self.fx()
                v1, h1 = list(vals) + [x], list(hands)
                handler = self.block(depth, v1, h1, self.r.randrange(0, 2), self.r.random() < 0.3, bd + 1)
                out.append({"op": "try", "body": body, "x": x, "handler": handler})
            elif hit(c["p_read"]):
                x = self.fx()
                out.append({"op": "read", "x": x, "var": self.r.randrange(c["nvars"])})
                vals.append(x)
            elif hit(c["p_probe"]):
                out.append({"op": "probe"})
            elif hit(c["p_raise"]):
                out.append({"op": "raise", "e": self.ferr()})
                return out
            else:
                x = self.fx()
                out.append({"op": "yield", "x": x, "s": self.struct(depth, vals, hands)})
                vals.append(x)
                if c["p_again"] > 0 and hands and self.r.random() < c["p_again"]:
                    # the same list / dict object (of handles created earlier) is yielded twice
                    k = self.r.choice([1, 2, 2, 3])
                    leaves = [{"old": self.r.choice(hands)} if self.r.random() < 0.85 else None for _ in range(k)]
                    kind = self.r.choice(["list", "list", "dict", "tuple"])
                    s = {"dict": [[i, l] for i, l in enumerate(leaves)]} if kind == "dict" else {kind: leaves}
                    x1, x2 = self.fx(), self.fx()
                    out.append({"op": "yield", "x": x1, "s": s, "again": x2})
                    vals.extend([x1, x2])
                if c["p_dup"] > 0 and self.r.random() < c["p_dup"]:
                    h = self.fh()
                    out.append({"op": "let", "h": h, "f": self.fexpr(depth, vals, hands)})
                    hands.append(h)
                    mid = [{"new": self.fexpr(depth, vals, hands)} for _ in range(self.r.choice([1, 2, 2, 3]))]
                    last = {"old": h}
                    q = self.r.random()
                    if q < 0.25:
                        last = {"list": [last]}
                    elif q < 0.4:
                        last = {"dict": [[0, last]]}
                    leaves = [{"old": h}] + mid + [last]
                    if self.r.random() < 0.3:
                        leaves = mid[:1] + [{"old": h}] + mid[1:] + [last]
                    xd = self.fx()
                    out.append({"op": "yield", "x": xd, "s": {self.r.choice(["list", "tuple"]): leaves}})
                    vals.append(xd)
            if manual and self.r.random() < 0.3:
                m = manual.pop(0)       # the OLDEST one first: lifetimes overlap without nesting
                out.append({"op": "exit", "v": m["v"], "c": m["c"]})
        for m in manual:
            out.append({"op": "exit", "v": m["v"], "c": m["c"]})
        if terminal:
            r = self.r.random()
            if c["p_ret_fut"] > 0 and self.r.random() < c["p_ret_fut"]:
                if hands and self.r.random() < 0.4:
                    h = self.r.choice(hands)
                else:
                    h = self.fh()
                    out.append({"op": "let", "h": h, "f": self.fexpr(depth, vals, hands)})
                    hands.append(h)
                self.ret_fut = True
                out.append({"op": "return", "e": {"handle": h} if self.r.random() < 0.7 else {"tuple": [{"handle": h}, self.retexpr(vals)]}})
            elif r < c["p_result"] and not c["p_ret_fut"]:
                # (not in the returns-future class: result(v) asserts that v is not a future, and there v may be one)
                out.append({"op": "result", "e": self.retexpr(vals)})
            else:
                out.append({"op": "return", "e": self.retexpr(vals)})
        return out

    def body(self, depth, vals, hands):
        n = self.r.randrange(1, self.c["max_stmts"] + 1)
        return self.block(depth, vals, hands, n, True)

    def params(self):
        c = self.c
        kinds = {}
        for k in range(c["nkinds"]):
            ks = {}
            if self.r.random() < c["p_prio"]:
                ks["prio"] = self.r.choice([["baselen", self.r.randrange(0, 3)], ["baserevlen", self.r.randrange(0, 2)],
                                            ["const", self.r.randrange(0, 3), self.r.randrange(0, 3)]])
            if self.r.random() < c["p_flush_raise"]:
                ks["raise"] = [self.r.randrange(0, 4), 1000 + self.ferr()]
                if c["p_via_cancel"] > 0 and self.r.random() < c["p_via_cancel"]:
                    ks["via_cancel"] = True
            if c["p_flush_ctx"] > 0 and self.r.random() < c["p_flush_ctx"]:
                if self.r.random() < 0.8:
                    ks["override"] = [self.r.randrange(c["nvars"]), self.r.randrange(50, 60)]
                if self.r.random() < 0.7:
                    ks["probe"] = True
            if ks:
                kinds[str(k)] = ks
        p = {"kinds": kinds}
        if self.r.random() < c["p_keep"]:
            p["keep"] = True
        if self.r.random() < c["p_maxstack"]:
            p["maxstack"] = self.r.choice([1, 2, 3, 4, 5, 6, 8])
        if c["p_base_err"] > 0 and self.r.random() < c["p_base_err"]:
            p["base_errors"] = True
        if c["p_vary_bad"] > 0 and self.r.random() < c["p_vary_bad"]:
            p["vary_bad"] = True
        if c["p_fault_classes"] > 0 and self.r.random() < c["p_fault_classes"]:
            p["fault_classes"] = True
        return p

    def case(self):
        lo, hi = self.c["roots"]
        nroots = self.r.randrange(lo, hi + 1)
        roots = []
        for _ in range(nroots):
            self.budget = self.c["budget"]
            roots.append(self.body(0, [], []))
        p = self.params()
        if getattr(self, "ret_fut", False):
            p["model_blind"] = True
        return {"roots": roots, "params": p}


# ------------------------------------------------------------------ statistics over an AST
def stats(case):
    s = dict(tasks=0, items=0, yields=0, syncs=0, withs=0, tries=0, raises=0, depth=0, old=0, dicts=0, nested=0,
             item_faults=0, bad=0, lazy=0, errfut=0, reads=0, nonasync=0, ctx_faults=0, overrides=0, kinds=set(), shared=0, sticky=0,
             fault_stacks=0)
    uses = {}           # handle -> set of task bodies (by identity) that await it
    cur_body = [None]

    def fe(f, d):
        if "task" in f:
            body(f["task"], d + 1)
        elif "item" in f:
            s["items"] += 1
            s["kinds"].add(f["item"][0])
            if f["item"][2] == "skip" or "err" in f["item"][2]:
                s["item_faults"] += 1
        elif "lazy" in f:
            s["lazy"] += 1
        elif "error" in f:
            s["errfut"] += 1

    def st(y, d, nest):
        if y is None:
            return
        if y == "bad":
            s["bad"] += 1
            return
        if "new" in y:
            fe(y["new"], d)
        elif "old" in y:
            s["old"] += 1
            uses.setdefault(y["old"], set()).add(cur_body[0])
        else:
            if nest >= 1:
                s["nested"] += 1
            if "dict" in y:
                s["dicts"] += 1
                for _, x in y["dict"]:
                    st(x, d, nest + 1)
            else:
                for x in y.get("tuple", y.get("list", [])):
                    st(x, d, nest + 1)

    def body(b, d):
        s["tasks"] += 1
        s["depth"] = max(s["depth"], d)
        saved = cur_body[0]
        cur_body[0] = id(b)
        block(b, d)
        cur_body[0] = saved

    def block(b, d):
        for x in b:
            op = x["op"]
            if op == "yield":
                s["yields"] += 1
                st(x["s"], d, 0)
            elif op == "let":
                fe(x["f"], d)
            elif op == "sync":
                s["syncs"] += 1
                uses.setdefault(x["h"], set()).add(cur_body[0])
            elif op == "with":
                s["withs"] += 1
                c = x["c"]
                if "nonasync" in c:
                    s["nonasync"] += 1
                elif "override" in c:
                    s["overrides"] += 1
                elif c["async"][1] is not None:
                    s["ctx_faults"] += 1
                    if c["async"][1].get("sticky"):
                        s["sticky"] += 1
                    # a directly enclosed context with a fault of the same kind and call number: both fire together
                    b = x["body"]
                    f1 = c["async"][1]
                    f2 = b[0]["c"].get("async", [0, None])[1] if len(b) == 1 and b[0]["op"] == "with" else None
                    if f2 and any(kd in f2 and f2[kd][0] == f1[kd][0] for kd in f1 if kd in ("pause", "resume")):
                        s["fault_stacks"] += 1
                block(x["body"], d)
            elif op == "try":
                s["tries"] += 1
                block(x["body"], d)
                block(x["handler"], d)
            elif op == "raise":
                s["raises"] += 1
            elif op == "read":
                s["reads"] += 1
    for r in case["roots"]:
        body(r, 0)
    s["kinds"] = len(s["kinds"])
    s["shared"] = sum(1 for h, bs in uses.items() if len(bs) >= 2)      # stored handles awaited by >= 2 different tasks
    return s
