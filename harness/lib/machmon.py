"""Model-independent monitors for the scheduler properties, run over the implementation's full event
list (model-visible events + Aux* events recorded by harness/impl/machine_impl.py).

Each finding is {"clause": "<Cxx>:<clause>", "site": <narrow signature>, "msg": text}.
`analyse(case, io)` returns all findings; property modules filter by prefix.
"""
from . import machgen

ITEM_FAULT = {"set": None}


def _t(x):
    return tuple(x)


def _name(e):
    return next(iter(e))


def yield_only(case):
    return machgen.stats(case)["syncs"] == 0


def analyse(case, io):
    F = []

    def add(clause, site, msg):
        F.append(dict(clause=clause, site=site, msg=msg))

    full = io["full"]
    outs = io["out"][""][0]
    kinds = case.get("params", {}).get("kinds", {})
    yo = yield_only(case)

    created = {}        # cid -> dict(what, creator, extra)
    started = set()
    done = {}           # cid -> outcome tree
    last_yield = {}     # task -> (k, leaves, listonly)   while suspended at that yield
    next_step = {}      # task -> expected next step index
    awaited = set()     # futures that were ever yielded or sync-waited
    openctx = {}        # task -> [spec]  (entry order)
    cstate = {}         # (task, cid) -> "R"/"P"
    left = set()        # (task, cid) of logged contexts whose block has been left (and not been entered again)
    lifo = []           # global stack of resumed logged contexts
    flushed = {}        # (kind, idx) -> number of _flush runs
    sync_stack = []     # [(task, target)]
    pend_first = []     # [(yield id, [task leaves first scheduled by that yield, written order])]
    lazyruns = {}       # lazy future -> number of runs of its value provider
    reawaited = set()   # tasks awaited a second time (another yield, or a synchronous value()) before they started
    start_seq = []      # tasks in start order
    itemdone = {}       # cid -> count
    cur_flush = None    # (kind, idx, items, in_sched)
    before = None
    roots = []
    root_of_event = None
    batch_items = {}    # (kind, idx) -> [cid]
    item_root = {}      # item cid -> index of the root computation that created it
    susp_nonasync = set()   # tasks that were suspended at a yield inside a NonAsyncContext block
    unclean_reported = [False]
    received_na = set()     # tasks that received the NonAsyncContext assertion from something they awaited

    def computed(c):
        return c in done or created.get(c, {}).get("what") in ("const", "error")

    def awaiters(u):
        res = [t for t, (k, lv, lo) in last_yield.items() if list(u) in lv and t not in done]
        res += [t for (t, tgt) in sync_stack if tgt == u]
        return list(dict.fromkeys(res))

    def awaits_transitively(t, u, strict_tree):
        """does t await u (through yields / sync calls)?  strict_tree: every link has a unique awaiter"""
        seen = set()
        cur = [u]
        while cur:
            x = cur.pop()
            if x in seen:
                continue
            seen.add(x)
            aw = awaiters(x)
            if strict_tree and len(aw) > 1:
                return None          # shared: no claim
            for a in aw:
                if a == t:
                    return True
                cur.append(a)
        return False

    def sync_closure():
        s = set()
        cur = [t for (t, _) in sync_stack]
        while cur:
            x = cur.pop()
            if x in s:
                continue
            s.add(x)
            cur.extend(awaiters(x))
        return s

    def prio(kind, idx):
        n = len(batch_items.get((kind, idx), []))
        p = kinds.get(str(kind), {}).get("prio")
        if p is None:
            return (0, n)
        if p[0] == "baselen":
            return (p[1], n)
        if p[0] == "baserevlen":
            return (p[1], -n)
        return (p[1], p[2])

    def own_code(u, what):
        # C06: contexts of the running task and of the tasks awaiting it are resumed, all others paused
        for t, specs in openctx.items():
            for sp in specs:
                if "async" not in sp:
                    continue
                cid = sp["async"][0]
                stt = cstate.get((t, cid))
                if t == u:
                    if stt != "R":
                        add("C06:active-while-own-code", "own-context-paused:%s" % what,
                            "context %s of task %s is paused while that task's own code runs (%s)" % (cid, list(t), what))
                    continue
                if t in done:
                    continue
                rel = awaits_transitively(t, u, True)
                if rel is None:
                    continue
                if rel and stt != "R":
                    add("C06:awaiter-active", "awaiter-context-paused:%s" % what,
                        "context %s of task %s is paused while task %s, which only it awaits, runs" % (cid, list(t), list(u)))
                if rel is False and awaits_transitively(t, u, False) is False and stt == "R":
                    add("C06:unrelated-paused", "unrelated-context-active:%s" % what,
                        "context %s of task %s is resumed while unrelated task %s runs" % (cid, list(t), list(u)))

    for pos, e in enumerate(full):
        n = _name(e)
        a = e[n]
        if n == "AuxCreate":
            cid = _t(a[0])
            created[cid] = dict(what=a[1], creator=_t(a[2]), extra=a[3])
            if not a[2]:                    # created by the top-level driver: a root computation
                roots.append(cid)
                awaited.add(cid)
            if a[1] == "item":
                batch_items.setdefault((a[3][0], a[3][1]), []).append(cid)
                item_root[cid] = len(roots) - 1
            if a[1] in ("const", "error"):
                pass
        elif n == "AuxLazyRun":
            c = _t(a[0])
            lazyruns[c] = lazyruns.get(c, 0) + 1
            if lazyruns[c] > 1:
                add("C10:compute-once", "lazy-provider-ran-twice",
                    "the value provider of future %s was run %d times" % (list(c), lazyruns[c]))
        elif n == "AuxLazyDone":
            done[_t(a[0])] = "lazy-done"
        elif n == "AuxYield":
            t = _t(a[0])
            leaves = a[2]
            last_yield[t] = (a[1], leaves, a[3] == True or a[3] == "true")
            if any("nonasync" in sp for sp in openctx.get(t, [])) and any(l != "bad" and not computed(_t(l)) for l in leaves):
                susp_nonasync.add(t)
            first = []
            here = set()
            for l in leaves:
                if l == "bad":
                    continue
                c = _t(l)
                if c in here:
                    continue                # listed twice in this one yield: its place is that of the first occurrence
                here.add(c)
                if created.get(c, {}).get("what") == "task" and c not in awaited and c not in started:
                    if c not in first:
                        first.append(c)
                elif c in awaited and c not in started:
                    reawaited.add(c)        # awaited again before it started: someone else may start it first
                awaited.add(c)
            if last_yield[t][2] and len(first) >= 2:
                pend_first.append((pos, first))
        elif n == "AuxSync":
            t, tgt = _t(a[0]), _t(a[1])
            if tgt in awaited and tgt not in started:
                reawaited.add(tgt)          # a synchronous value() starts it right away, whatever its place in a yield
            awaited.add(tgt)
            sync_stack.append((t, tgt))
        elif n == "EvGot":
            t = _t(a[0])
            if sync_stack and sync_stack[-1][0] == t:
                sync_stack.pop()
            if a[1] == {"Err": [-7]}:
                received_na.add(t)
            own_code(t, "after-sync")
        elif n == "AuxResume":
            t, k, unc, expt, gott, okay = _t(a[0]), a[1], a[2], a[3], a[4], a[5]
            if gott == {"Err": [-7]}:
                received_na.add(t)
            if unc:
                add("C03:resumed-while-uncomputed", "yield-resumed-early",
                    "task %s was resumed after yield #%d while %s were still uncomputed" % (list(t), k, unc))
                add("C02:delivered-before-siblings-done", "yield-resumed-early",
                    "task %s received the result of yield #%d before %s had completed" % (list(t), k, unc))
            if okay != "true" and expt != "Uncomputed":
                if "Ok" in expt and "Err" in gott:
                    add("C02:exception-delivery", "exception-at-yield-without-failed-future",
                        "task %s yield #%d raised %s although every future it yielded succeeded (%s)" % (list(t), k, gott, expt))
                if "Ok" in expt:
                    add("C01:received-value", "yield-result-differs",
                        "task %s yield #%d received %s, sequential evaluation of the yielded structure gives %s" % (list(t), k, gott, expt))
                else:
                    add("C01:received-value", "yield-%s-differs" % ("result" if "Ok" in gott else "exception"),
                        "task %s yield #%d received %s, sequential evaluation of the yielded structure raises %s" % (list(t), k, gott, expt))
                    add("C02:exception-delivery", "wrong-exception-at-yield:%s" % ("got-value" if "Ok" in gott else "other-exception"),
                        "task %s yield #%d received %s, expected the first failing future's own exception %s" % (list(t), k, gott, expt))
        elif n == "EvStep":
            t, k = _t(a[0]), a[1]
            if k != next_step.get(t, 0):
                add("C03:step-sequence", "step-index",
                    "task %s logged step %d, expected %d (resumed twice for one yield or skipped one)" % (list(t), k, next_step.get(t, 0)))
            next_step[t] = k + 1
            if t in done:
                add("C03:ran-after-done", "step-after-done", "task %s ran again after it had completed" % (list(t),))
            if k == 0:
                started.add(t)
                start_seq.append(t)
                if t not in awaited:
                    add("C03:lazy-start", "never-awaited-task-started",
                        "task %s started although it was never yielded or waited on" % (list(t),))
            last_yield.pop(t, None)
            own_code(t, "step")
        elif n in ("EvRead", "EvProbe"):
            t = _t(a[0])
            own_code(t, n)
            if n == "EvProbe":
                if a[1] != {"Some": [list(t)]}:
                    add("C08:active-task", "probe-mismatch%s" % (":after-sync" if any(_name(x) == "EvGot" and _t(x["EvGot"][0]) == t for x in full[:pos]) else ""),
                        "get_active_task() inside task %s returned %s" % (list(t), a[1]))
            else:
                var, v = a[1], a[2]
                # C07: innermost enclosing override in this task or in the tasks awaiting it.  A task awaited by one task
                # has one such override; for a SHARED task (a stored handle awaited by several pending tasks) the statement
                # leaves open which awaiter counts, so the read must be the innermost override along ONE of the chains of
                # tasks awaiting it (a read inside an override block of the reading task itself is always unambiguous)
                def innermost(cur, seen):
                    for sp in reversed(openctx.get(cur, [])):
                        if "override" in sp and sp["override"][1] == var:
                            return [{"VInt": [sp["override"][2]]}]
                    if cur in seen or len(seen) > 1000:
                        return []
                    seen.add(cur)
                    aw = awaiters(cur)
                    if not aw:
                        return [{"VInt": [0]}]
                    res = []
                    for x in aw:
                        for y in innermost(x, seen):
                            if y not in res:
                                res.append(y)
                    return res
                cands = innermost(t, set())
                if len(cands) == 1 and cands[0] != v:
                    add("C07:read", "scoped-read-differs",
                        "task %s read variable %d = %s, the innermost enclosing override gives %s" % (list(t), var, v, cands[0]))
                elif len(cands) > 1 and v not in cands:
                    add("C07:read", "scoped-read-differs:shared-task",
                        "task %s read variable %d = %s, the innermost enclosing overrides along the chains of tasks awaiting it "
                        "give %s" % (list(t), var, v, cands))
        elif n == "EvDone":
            t = _t(a[0])
            if t in done:
                add("C10:single-assignment", "task-completed-twice", "task %s announced completion twice" % (list(t),))
            done[t] = a[1]
            if t in last_yield and not openctx.get(t) and "maxstack" not in case.get("params", {}) \
                    and not case.get("params", {}).get("reentrant"):
                # the task was suspended at a yield and completed without its code running again: whatever it awaited was
                # not delivered at the yield (a task holding no context can only be completed by its own code)
                add("C02:exception-delivery", "completed-without-delivery-at-the-yield",
                    "task %s completed with %s while suspended at yield #%d: the outcome of what it awaited never reached its code" % (
                        list(t), a[1], last_yield[t][0]))
                add("C03:step-sequence", "completed-while-suspended",
                    "task %s completed with %s without being resumed after yield #%d" % (list(t), a[1], last_yield[t][0]))
            last_yield.pop(t, None)
            if a[1] == {"Err": [-7]}:
                if t not in susp_nonasync and t not in received_na:
                    add("C06:nonasync-iff", "nonasync-assertion-without-open-block",
                        "task %s failed with the NonAsyncContext assertion outside such a block" % (list(t),))
        elif n == "EvItemDone":
            c = _t(a[0])
            itemdone[c] = itemdone.get(c, 0) + 1
            done[c] = a[1]
            if itemdone[c] > 1:
                add("C05:item-completion", "item-completed-twice", "item %s was completed twice" % (list(c),))
            if cur_flush is None or list(c) not in cur_flush[2]:
                add("C05:item-completion", "item-completed-outside-its-flush",
                    "item %s was completed outside the flush of its batch" % (list(c),))
            else:
                kind, idx, items, _ = cur_flush
                act = created[c]["extra"][3]
                ra = kinds.get(str(kind), {}).get("raise")
                i = items.index(list(c))
                if ra is not None and i >= ra[0]:
                    want = {"Err": [ra[1]]}
                elif act == "skip":
                    want = {"Err": [ra[1]]} if (ra is not None and ra[0] <= len(items)) else {"Err": [-2]}
                elif "set" in act:
                    want = {"Ok": [_tv(act["set"])]}
                else:
                    want = {"Err": [act["err"]]}
                if a[1] != want:
                    add("C05:item-completion", "item-outcome-differs",
                        "item %s of batch (%d,%d) completed with %s, the flush set %s" % (list(c), kind, idx, a[1], want))
        elif n == "EvBefore":
            key = (a[0], a[1])
            if before is not None:
                add("C05:events-bracket", "before-without-after", "before-flush event for %s while %s is still open" % (key, before))
            before = key
            if flushed.get(key, 0) > 0:
                add("C05:flush-at-most-once", "flushed-batch-selected",
                    "the scheduler selected batch %s for flushing although it was already flushed" % (key,))
            root = roots[-1] if roots else None
            if root is not None and root in done:
                add("C05:no-flush-after-done", "flush-after-root-computed",
                    "scheduler flush of batch %s although the computation being waited for is complete" % (key,))
            if sync_stack and computed(sync_stack[-1][1]):
                add("C05:no-flush-after-done", "flush-after-sync-target-computed",
                    "scheduler flush of batch %s inside a synchronous call whose target is already complete" % (key,))
            # --- reachable uncomputed part of the computation
            sc = sync_closure()
            reach, stack, pend_batches = [], ([root] if root else []) + [tgt for (_, tgt) in sync_stack], set()
            seen = set()
            while stack:
                u = stack.pop()
                if u in seen or computed(u):
                    continue
                seen.add(u)
                w = created.get(u, {}).get("what")
                if w == "item":
                    ex = created[u]["extra"]
                    pend_batches.add((ex[0], ex[1]))
                    continue
                if w != "task":
                    if yo:
                        add("C04:flush-only-when-stuck", "uncomputed-%s-at-flush" % w,
                            "batch %s flushed while awaited %s future %s was never computed" % (key, w, list(u)))
                    continue
                reach.append(u)
                if u not in started:
                    if yo:
                        add("C04:flush-only-when-stuck", "unstarted-task-at-flush",
                            "batch %s flushed although awaited task %s has not started" % (key, list(u)))
                    continue
                ly = last_yield.get(u)
                if ly is None:
                    if yo:
                        add("C04:flush-only-when-stuck", "running-task-at-flush",
                            "batch %s flushed while task %s is not suspended at a yield" % (key, list(u)))
                    continue
                unc = [_t(l) for l in ly[1] if l != "bad" and not computed(_t(l))]
                if not unc and yo:
                    add("C04:flush-only-when-stuck", "runnable-task-at-flush",
                        "batch %s flushed although task %s could be resumed (everything it yielded is computed)" % (key, list(u)))
                stack.extend(unc)
            if yo:
                if key not in pend_batches:
                    add("C05:greatest-priority", "flushed-batch-not-awaited",
                        "batch %s flushed although no awaited uncomputed item belongs to it" % (key,))
                for b in pend_batches:
                    if prio(*key) < prio(*b):
                        add("C05:greatest-priority", "lower-priority-batch-flushed",
                            "batch %s (priority %s) flushed while awaited batch %s has priority %s" % (key, prio(*key), b, prio(*b)))
            # C06: contexts of suspended tasks are paused at a flush (those of tasks inside a sync call, and of
            # their awaiters, count as running code)
            for t, specs in openctx.items():
                if t in done or t in sc:
                    continue
                for sp in specs:
                    if "async" in sp and cstate.get((t, sp["async"][0])) == "R":
                        add("C06:paused-at-flush", "context-active-during-flush",
                            "context %s of suspended task %s is resumed while batch %s is flushed" % (sp["async"][0], list(t), key))
                    if "nonasync" in sp and not sc and t in last_yield:
                        add("C06:nonasync-iff", "suspended-in-nonasync-at-flush",
                            "task %s is suspended inside a NonAsyncContext across the flush of %s without failing" % (list(t), key))
        elif n == "EvFlush":
            key = (a[0], a[1])
            flushed[key] = flushed.get(key, 0) + 1
            if flushed[key] > 1:
                add("C05:flush-at-most-once", "batch-flushed-twice", "batch %s was flushed %d times" % (key, flushed[key]))
            if not a[2]:
                add("C05:flush-at-most-once", "empty-batch-flushed", "empty batch %s was flushed" % (key,))
            if before is not None and before != key:
                add("C05:events-bracket", "before-names-other-batch", "before-flush event named %s, flushed %s" % (before, key))
            cur_flush = (a[0], a[1], a[2], before is not None)
            if before is None and not case.get("params", {}).get("reentrant"):
                # a flush the scheduler did not choose: legitimate only as the effect of a synchronous value() on an item of
                # this very batch made by task code; otherwise asynq itself asked an uncomputed item for its value, i.e. it
                # resumed (and unwrapped the yield of) a task that was still waiting for that item
                tgt = sync_stack[-1][1] if sync_stack else None
                ent = created.get(tgt, {}) if tgt is not None else {}
                if not (ent.get("what") == "item" and (ent["extra"][0], ent["extra"][1]) == key):
                    add("C03:resumed-while-uncomputed", "item-forced-by-resumed-task",
                        "batch %s was flushed outside the scheduler's flush step and not by a synchronous value() of task code: "
                        "a task was resumed while an item it had yielded was uncomputed" % (key,))
                    add("C04:flush-only-when-stuck", "flushed-by-resuming-a-waiting-task",
                        "batch %s was flushed by resuming a task that was still waiting for one of its items" % (key,))
            stale = [c for c in a[2] if item_root.get(_t(c), len(roots) - 1) != len(roots) - 1]
            if stale and before is not None and not any(_t(c) in awaited and item_root.get(_t(c)) == len(roots) - 1 for c in a[2]):
                add("C08:fresh-scheduler", "stale-batch-flushed",
                    "computation #%d flushed batch %s holding items %s of an earlier computation" % (len(roots) - 1, key, stale))
            # every item of the batch must be completed by this flush: checked when the flush ends
        elif n == "EvAfter":
            key = (a[0], a[1])
            if before != key:
                add("C05:events-bracket", "after-without-before", "after-flush event for %s without a matching before event" % (key,))
            before = None
            _end_flush(cur_flush, itemdone, add)
            cur_flush = None
        elif n == "AuxEnter":
            t = _t(a[0])
            openctx.setdefault(t, []).append(a[1])
            if "async" in a[1]:
                left.discard((t, a[1]["async"][0]))
        elif n == "AuxExit":
            t, sp = _t(a[0]), a[1]
            lst = openctx.get(t, [])
            if sp in lst:
                lst.remove(sp)
            if "async" in sp:
                cid = sp["async"][0]
                left.add((t, cid))
                if cstate.get((t, cid)) != "P":
                    add("C06:alternation", "block-left-without-pause",
                        "context %s of task %s was left (%s) but its last event is not a pause" % (cid, list(t), a[2]))
        elif n in ("EvResume", "EvPause"):
            t, cid = _t(a[0]), a[1]
            want = "P" if n == "EvResume" else "R"
            prev = cstate.get((t, cid), "P")
            if (t, cid) in left:
                # "ending with a pause on exit": the pause made on exit is the LAST call, however the block was left (also
                # when that pause itself raised and the task carried on)
                add("C06:alternation", "call-after-block-left:%s" % ("resume" if n == "EvResume" else "pause"),
                    "context %s of task %s got a %s() call after its with-block had been left" % (
                        cid, list(t), "resume" if n == "EvResume" else "pause"))
            if prev != want:
                killed = t in susp_nonasync
                add("C06:alternation", "double-%s%s" % ("resume" if n == "EvResume" else "pause",
                                                         ":task-killed-by-nonasync-pause" if killed else ""),
                    "context %s of task %s got two consecutive %s calls" % (cid, list(t), "resume" if n == "EvResume" else "pause"))
            cstate[(t, cid)] = "R" if n == "EvResume" else "P"
            if n == "EvResume":
                lifo.append((t, cid))
            else:
                if lifo and lifo[-1] == (t, cid):
                    lifo.pop()
                elif (t, cid) in lifo:
                    killed = t in susp_nonasync
                    add("C07:lifo", "pause-out-of-order%s" % (":task-killed-by-nonasync-pause" if killed else ""),
                        "context %s of task %s paused while %s was resumed later and is still active" % (cid, list(t), lifo[-1]))
                    lifo.remove((t, cid))
                else:
                    if prev == want:
                        add("C07:lifo", "pause-of-inactive-context", "context %s of task %s paused while not active" % (cid, list(t)))
        elif n == "EvSched":
            if a[0] != 0 and not unclean_reported[0]:
                add("C08:clean-after-outcome", "tasks-left:%s" % _outcome_class(outs, len(roots) - 1),
                    "scheduler retains %d task(s) after computation #%d ended with %s" % (a[0], len(roots) - 1, outs[len(roots) - 1]))
            if a[2] != "None" and not unclean_reported[0]:
                add("C08:clean-after-outcome", "active-task-left:%s" % _outcome_class(outs, len(roots) - 1),
                    "get_active_task() is %s after the outermost call returned (%s)" % (a[2], outs[len(roots) - 1]))
            if a[0] != 0 or a[2] != "None":
                unclean_reported[0] = True
            if cur_flush is not None and not cur_flush[3]:
                _end_flush(cur_flush, itemdone, add)
            cur_flush = None
            before = None
            sync_stack.clear()
            r = roots[-1] if roots else None
            if r is not None and outs[len(roots) - 1] != {"Some": [done.get(r, "NotDone")]}:
                if r in done:
                    add("C02:root-outcome", "value()-differs-from-task-outcome",
                        "value() of computation #%d gave %s, the root task completed with %s" % (len(roots) - 1, outs[len(roots) - 1], done.get(r)))
                else:
                    o = outs[len(roots) - 1]
                    eidv = o["Some"][0]["Err"][0] if isinstance(o, dict) and "Some" in o and "Err" in o["Some"][0] else None
                    if isinstance(eidv, int) and eidv >= 0:
                        # a scripted fault came out of value() although the awaited task never completed: it went past the
                        # tasks that should have received it at their yield (the stack guard's RuntimeError is not scripted)
                        add("C02:root-outcome", "fault-escaped-past-the-awaiting-tasks",
                            "value() of computation #%d raised scripted fault %s but the root task never completed" % (len(roots) - 1, eidv))
            o = outs[len(roots) - 1] if roots else None
            if isinstance(o, dict) and "Some" in o and isinstance((o["Some"][0].get("Err") or [None])[0], dict):
                cls = o["Some"][0]["Err"][0].get("Unexpected", [{}])[0].get("s", "?")
                if not (cls == "RecursionError" or case.get("params", {}).get("reentrant")):
                    add("C03:termination", "computation-aborted:%s" % cls,
                        "computation #%d did not end with its own outcome: value() raised %s, which no program step raises" % (len(roots) - 1, cls))
                    add("C01:received-value", "asynq-internal-error-as-outcome:%s" % cls,
                        "computation #%d ended with %s, which no program step raises" % (len(roots) - 1, cls))
            if isinstance(o, dict) and "Some" in o and o["Some"][0].get("Err") in ([-5], [-3]):
                cls = "BatchingError" if o["Some"][0]["Err"] == [-5] else "FutureIsAlreadyComputed"
                add("C01:received-value", "asynq-internal-error-as-outcome:%s" % cls,
                    "computation #%d ended with asynq's own %s, which no program step raises" % (len(roots) - 1, cls))
                add("C05:flush-at-most-once", "asynq-internal-error-as-outcome:%s" % cls,
                    "computation #%d ended with asynq's own %s" % (len(roots) - 1, cls))
        elif n == "AuxFlushActive":
            want = {"Some": [list(sync_stack[-1][0])]} if sync_stack else "None"
            if a[2] != want and not case.get("params", {}).get("reentrant"):
                add("C08:active-task", "during-flush:%s" % ("inside-sync-call" if sync_stack else "scheduler-flush"),
                    "get_active_task() inside the flush body of batch (%s,%s) returned %s; the code that is running is %s" % (
                        a[0], a[1], a[2], ("the task inside a synchronous call, %s" % want) if sync_stack else "no task's"))
        elif n == "AuxVars":
            for var, v in a[0]:
                if v != {"VInt": [0]}:
                    add("C07:restored", "override-not-restored:%s" % _outcome_class(outs, len(roots) - 1),
                        "scoped variable %d is %s after computation #%d ended (%s)" % (var, v, len(roots) - 1, outs[len(roots) - 1]))
        if n == "EvFlush" or n == "EvGot" or n == "EvStep":
            pass
        # a direct flush (item.value()) ends at the EvGot of the syncing task
        if n == "EvGot" and cur_flush is not None and not cur_flush[3]:
            _end_flush(cur_flush, itemdone, add)
            cur_flush = None

    # start order of tasks first scheduled together in a list/tuple
    pos_of = {t: i for i, t in enumerate(start_seq)}
    for _, first in pend_first:
        st = [t for t in first if t in pos_of and t not in reawaited]
        if [pos_of[t] for t in st] != sorted(pos_of[t] for t in st):
            add("C03:start-order", "yielded-together-started-out-of-order",
                "tasks %s were first scheduled by one yield but started in the order %s" % (
                    [list(t) for t in first], [list(t) for t in sorted(st, key=lambda t: pos_of[t])]))
    return F


def _end_flush(cf, itemdone, add):
    if cf is None:
        return
    kind, idx, items, _ = cf
    for c in items:
        if itemdone.get(tuple(c), 0) == 0:
            add("C05:item-completion", "item-left-pending-after-flush",
                "item %s of flushed batch (%d,%d) was not completed by the flush" % (c, kind, idx))


def _outcome_class(outs, i):
    try:
        o = outs[i]["Some"][0]
    except Exception:
        return "unknown"
    if "Ok" in o:
        return "value"
    e = o["Err"][0]
    return {-3: "FutureIsAlreadyComputed", -9: "RuntimeError-guard", -7: "nonasync-assertion", -1: "TypeError", -2: "not-set"}.get(e, "exception") if isinstance(e, int) else "unexpected"


def _tv(v):
    if v is None:
        return "VNone"
    if isinstance(v, int):
        return {"VInt": [v]}
    if "t" in v:
        return {"VTuple": [[_tv(x) for x in v["t"]]]}
    return {"VList": [[_tv(x) for x in v["l"]]]}


def _hook_site(hook, key):
    return (":" + hook[key].replace("_", "-")) if key in hook else ""


def analyse_flush_nesting(case, io, items_answered=False):
    """C05 clauses that need no knowledge of the program, for scenario classes outside the model (a flush body
    that re-enters the scheduler; hooks of the batch that raise, so that batch.flush() itself fails): each batch runs
    its _flush at most once; the scheduler never selects a batch whose _flush already ran (in progress or finished);
    before/after events are properly nested brackets, one pair around each scheduler flush - also around one that
    fails; an item is completed at most once; with items_answered, every item of a batch whose _flush ran inside a
    scheduler flush is completed when that flush is over (at the after event)."""
    if "full" not in io:
        return []
    fs = []

    def add(clause, site, msg):
        if not any(f["clause"] == clause and f["site"] == site for f in fs):
            fs.append(dict(clause=clause, site=site, msg=msg))
    flushed, itemdone, open_before, flush_items, hook = {}, {}, [], {}, {}
    for e in io["full"]:
        n = _name(e)
        a = e[n]
        if n == "AuxHookRaise":
            hook[(a[0], a[1])] = a[2]
        elif n == "AuxBeforeSub":
            hook[(a[0], a[1])] = "before-subscriber-%s" % a[2]
        if n == "EvBefore":
            key = (a[0], a[1])
            if open_before and not open_before[-1][1] and items_answered:
                # the previous before event was followed neither by the batch's _flush nor by its after event
                add("C05:events-bracket", "before-without-after%s" % _hook_site(hook, open_before[-1][0]),
                    "before-flush event for %s while the bracket of %s was never closed" % (key, open_before[-1][0]))
                open_before.pop()
            if flushed.get(key, 0) > 0:
                add("C05:flush-at-most-once", "flushed-batch-selected",
                    "the scheduler selected batch %s for flushing although its flush %s" % (
                        key, "is in progress" if key in [k for k, _ in open_before] else "already ran"))
            open_before.append((key, False))
        elif n == "EvFlush":
            key = (a[0], a[1])
            flushed[key] = flushed.get(key, 0) + 1
            if flushed[key] > 1:
                add("C05:flush-at-most-once", "batch-flushed-twice", "batch %s was flushed %d times" % (key, flushed[key]))
            if not a[2]:
                add("C05:flush-at-most-once", "empty-batch-flushed", "empty batch %s was flushed" % (key,))
            flush_items[key] = [tuple(c) for c in a[2]]
            if open_before and not open_before[-1][1]:
                if open_before[-1][0] != key:
                    add("C05:events-bracket", "before-names-other-batch",
                        "before-flush event named %s, flushed %s" % (open_before[-1][0], key))
                open_before[-1] = (open_before[-1][0], True)
        elif n == "EvAfter":
            key = (a[0], a[1])
            if not open_before or open_before[-1][0] != key:
                add("C05:events-bracket", "after-without-before", "after-flush event for %s without a matching before event" % (key,))
            else:
                open_before.pop()
                if items_answered:
                    left = [list(c) for c in flush_items.get(key, []) if itemdone.get(c, 0) == 0]
                    if left:
                        add("C05:item-completion", "item-left-pending-after-flush%s" % _hook_site(hook, key),
                            "items %s of flushed batch %s were not completed when its scheduler flush was over" % (left, key))
        elif n == "EvSched" and items_answered:
            # the outermost call is over: a bracket still open here was never closed
            for key, _ in open_before:
                add("C05:events-bracket", "before-without-after%s" % _hook_site(hook, key),
                    "before-flush event for %s never followed by its after event (the computation is over)" % (key,))
            del open_before[:]
        elif n == "EvItemDone":
            c = _t(a[0])
            itemdone[c] = itemdone.get(c, 0) + 1
            if itemdone[c] > 1:
                add("C05:item-completion", "item-completed-twice", "item %s was completed twice" % (list(c),))
    if open_before and "Hang" not in io and not io.get("aborted"):
        add("C05:events-bracket", "before-without-after%s" % _hook_site(hook, open_before[-1][0]), "before-flush event for %s never followed by its after event" % (open_before[-1][0],))
    return fs
