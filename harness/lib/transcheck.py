"""The translation obligation: unwrap / extract_futures as the SOURCE says now, translated to Gallina (pytrans), must
be equal to the hand-written model (Prog.unwrap / Prog.extract) and satisfy the C02 / C03 theorems about them.

    check_translation(repo_src_dir) -> dict(ok, stage, message, theorems, log)

stage: "translate" (the translator rejected the source), "build" (the main development could not be built),
"generated" (UnwrapGen.v is not accepted by Coq), "proof" (coq/gen_proofs/UnwrapGenProofs.v no longer checks against
it), "assumptions" (an axiom appeared), "ok".  Everything is done in a fresh directory under /tmp, removed afterwards.
"""
import os
import re
import shutil
import subprocess
import tempfile

from . import pytrans

ROOT = os.path.normpath(os.path.join(os.path.dirname(os.path.abspath(__file__)), "..", ".."))
COQDIR = os.path.join(ROOT, "coq")
PROOFS = os.path.join(COQDIR, "gen_proofs", "UnwrapGenProofs.v")
NEED = ["theories/proofs/ProgProofs.vo"]


def _ensure_built():
    # make decides whether the .vo files are current (nothing to do in the usual case: check_props ran just before)
    if not os.path.exists(os.path.join(COQDIR, "Makefile")):
        subprocess.run(["bash", os.path.join(ROOT, "bin", "mkcoqproject")], check=True, cwd=COQDIR)
    p = subprocess.run(["timeout", "900", "make", "-j16"] + NEED, cwd=COQDIR, capture_output=True, text=True)
    return p.returncode == 0, (p.stdout + p.stderr)[-3000:]


def check_translation(repo_src_dir):
    src = os.path.join(repo_src_dir, "asynq", "async_task.py")
    want = re.findall(r"^\s*Print Assumptions\s+([A-Za-z0-9_']+)\s*\.", open(PROOFS).read(), re.M)
    res = dict(ok=False, stage="translate", message="", theorems=want, log="", obligations=len(want), discharged=0)
    try:
        text = pytrans.translate(src)
    except pytrans.TranslationError as e:
        res["message"] = "the translator rejects %s: %s" % (src, e)
        return res
    except (OSError, SyntaxError) as e:
        res["message"] = "cannot read/parse %s: %s" % (src, e)
        return res
    res["generated"] = text[text.index("(* def unwrap"):]
    ok, log = _ensure_built()
    if not ok:
        res.update(stage="build", message="the main Coq development does not build", log=log)
        return res
    tmp = tempfile.mkdtemp(prefix="asynq-verif-trans-", dir="/tmp")
    try:
        open(os.path.join(tmp, "UnwrapGen.v"), "w").write(text)
        shutil.copy(PROOFS, os.path.join(tmp, "UnwrapGenProofs.v"))
        base = ["timeout", "300", "coqc", "-Q", os.path.join(COQDIR, "theories"), "Asynq", "-Q", tmp, "AsynqGen"]
        p = subprocess.run(base + ["UnwrapGen.v"], cwd=tmp, capture_output=True, text=True)
        if p.returncode != 0:
            res.update(stage="generated", message="Coq does not accept the generated definitions (UnwrapGen.v)",
                       log=(p.stdout + p.stderr)[-3000:])
            return res
        p = subprocess.run(base + ["UnwrapGenProofs.v"], cwd=tmp, capture_output=True, text=True)
        out = p.stdout + p.stderr
        closed = len(re.findall(r"Closed under the global context", p.stdout))
        res["discharged"] = closed
        if p.returncode != 0:
            res.update(stage="proof", log=out[-3000:].replace(tmp, "<tmp>"),
                       message="the definitions generated from the source are no longer proved equal to the model "
                               "(coq/gen_proofs/UnwrapGenProofs.v fails against the fresh UnwrapGen.v)")
            return res
        if closed != len(want) or "Axioms:" in p.stdout:
            res.update(stage="assumptions", message="Print Assumptions: %d of %d closed" % (closed, len(want)), log=out[-3000:])
            return res
        res.update(ok=True, stage="ok", message="generated unwrap_gen / extract_gen equal the model; %d theorems closed" % closed)
        return res
    finally:
        shutil.rmtree(tmp, ignore_errors=True)


if __name__ == "__main__":
    import json
    import sys
    r = check_translation(sys.argv[1] if len(sys.argv) > 1 else os.environ.get("VERIF_REPO", "/repo"))
    print("translation: ok=%s stage=%s %s" % (r["ok"], r["stage"], r["message"]))
    if not r["ok"]:
        print(r["log"])
    if "-v" in sys.argv:
        print(json.dumps(r, indent=1))
    sys.exit(0 if r["ok"] else 1)
