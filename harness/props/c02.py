"""C02 — failures propagate like sequential exceptions, after all siblings finish."""
from ..lib import mach, machgen

RULE = ("generated task programs with fault sites: task steps that raise, batch items completed with an error or left unset, "
        "flush bodies that raise before item k, ErrorFuture, failing lazily-computed Future, non-future objects in the "
        "yielded structure, with and without enclosing try/except at any level; distinct = different AST+params; "
        "non-trivial = at least one fault site and at least one yield with >= 2 leaves")
TRANSLATED = True     # unwrap / extract_futures are re-translated from the source on every run (harness/lib/transcheck.py)
TRUSTED = ["Python/Gallina emitters of harness/lib/machprog.py"]
ASSUMPTIONS = ["faults are Exception subclasses (BaseException from user code is outside the statement)"]
EXPLANATION = "projection: outcomes + Step/Got payloads + Done events; identity of exception instances is checked in-process with `is`"

_base = dict(name="faults", p_ctx_fault=0, p_nonasync=0, budget=18, max_depth=5, p_raise=0.14, p_item_err=0.2,
             p_item_skip=0.12, p_flush_raise=0.35, p_try=0.28, p_errfut=0.1, p_lazy=0.12, p_lazy_err=0.7, p_bad=0.06)
PROFILES = [
    (3, dict(_base)),
    (2, dict(_base, name="faults-dag", p_old=0.45, p_let=0.3, p_sync=0.15)),
    (1, dict(_base, name="faults-nested", max_width=5, p_dict=0.2)),
    (2, dict(_base, name="recover", p_try=0.5, p_none=0.35, p_raise=0.05, max_stmts=5)),
]


def _nontrivial(c):
    s = machgen.stats(c)
    faults = s["raises"] + s["item_faults"] + s["bad"] + s["errfut"] + s["lazy"] + len(c.get("params", {}).get("kinds", {}))
    return faults >= 1 and s["nested"] + s["yields"] >= 2


def _recover(next_struct):
    return {"roots": [[
        {"op": "try", "body": [{"op": "yield", "x": "x1", "s": {"new": {"error": 7}}}], "x": "x2", "handler": []},
        {"op": "yield", "x": "x3", "s": next_struct},
        {"op": "yield", "x": "x4", "s": {"tuple": [{"new": {"const": 3}}, {"list": []}]}},
        {"op": "return", "e": {"tuple": [{"var": "x3"}, {"var": "x4"}]}}]], "params": {"kinds": {}}}


_CORPUS = [_recover(None), _recover({"list": []}), _recover({"tuple": []}), _recover({"dict": []}),
           _recover({"tuple": [None, {"list": [None]}]})]

# non-futures of every kind (falsy ones: 0, '', False, 0.0, b'') must be reported as TypeError; faults that are
# BaseExceptions but not Exceptions travel like all others; one container object yielded twice
_NONFUTURES = {
    "roots": [[{"op": "try", "body": [{"op": "yield", "x": "a%d" % i, "s": s}], "x": "e%d" % i, "handler": []}
               for i, s in enumerate(["bad", "bad", {"tuple": [{"new": {"const": 1}}, "bad"]}, "bad", {"list": ["bad", {"new": {"const": 2}}]},
                                      {"dict": [[0, "bad"]]}, "bad", "bad"])] + [{"op": "return", "e": 1}]],
    "params": {"kinds": {}, "vary_bad": True},
}
# a failure that is already there (ErrorFuture, failing lazy) next to lazy futures that nobody has computed yet and
# nothing else pending: the lazy siblings are computed before the failure is delivered
_LAZY_SIBLINGS = {
    "roots": [[
        {"op": "try", "body": [{"op": "yield", "x": "x1", "s": {"tuple": [{"new": {"error": 7}}, {"new": {"lazy": {"ok": 1}}}, {"new": {"lazy": {"err": 8}}}]}}],
         "x": "e1", "handler": []},
        {"op": "try", "body": [{"op": "yield", "x": "x2", "s": {"list": [{"new": {"lazy": {"err": 9}}}, {"dict": [[0, {"new": {"lazy": {"ok": 2}}}]]}, {"new": {"lazy": {"ok": 3}}}]}}],
         "x": "e2", "handler": []},
        {"op": "let", "h": "h1", "f": {"task": [{"op": "raise", "e": 5}]}},
        {"op": "try", "body": [{"op": "yield", "x": "x3", "s": {"old": "h1"}}], "x": "e3", "handler": []},
        {"op": "try", "body": [{"op": "yield", "x": "x4", "s": {"tuple": [{"new": {"const": 4}}, {"old": "h1"}, {"new": {"lazy": {"ok": 6}}}]}}], "x": "e4", "handler": []},
        {"op": "return", "e": 0}]],
    "params": {"kinds": {}},
}
# faults of builtin exception classes (TypeError, AssertionError, KeyError, RuntimeError, ValueError) coming from every kind
# of future: the task receives the very same instance, whatever its class
_FAULT_CLASSES = {
    "roots": [[{"op": "try", "body": [{"op": "yield", "x": "a%d" % i, "s": s}], "x": "e%d" % i, "handler": []}
               for i, s in enumerate([{"new": {"error": 1}}, {"new": {"lazy": {"err": 2}}}, {"new": {"item": [0, 1, {"err": 3}]}},
                                      {"new": {"task": [{"op": "raise", "e": 4}]}}, {"new": {"error": 5}}, {"new": {"item": [1, 2, {"set": 1}]}},
                                      {"tuple": [{"new": {"const": 1}}, {"new": {"lazy": {"err": 7}}}]}, {"new": {"lazy": {"err": 1}}}])]
              + [{"op": "yield", "x": "z", "s": {"new": {"error": 1}}}, {"op": "return", "e": 1}]],
    "params": {"kinds": {"1": {"raise": [0, 1007]}}, "fault_classes": True},
}
_EXTRA = [
    (2, dict(_base, name="vary-bad", p_bad=0.3, p_vary_bad=1.0, p_try=0.3)),
    (2, dict(_base, name="base-errors", p_base_err=1.0, p_raise=0.15, p_item_err=0.2, p_flush_raise=0.5, p_try=0.3, p_errfut=0.1)),
    (1, dict(_base, name="reuse", p_again=0.6, p_let=0.35, p_old=0.5, p_errfut=0.15, p_try=0.25)),
    (2, dict(_base, name="fault-classes", p_fault_classes=1.0, p_errfut=0.2, p_lazy=0.2, p_lazy_err=0.7, p_item_err=0.25, p_flush_raise=0.4, p_try=0.3)),
    (2, dict(_base, name="lazy-siblings", p_lazy=0.45, p_lazy_err=0.4, p_errfut=0.3, p_item=0.08, p_const=0.15, p_try=0.4, p_old=0.3, p_let=0.2, budget=10)),
]

mach.install(globals(), "C02", ("EvStep", "EvGot", "EvDone"), ("C02:",), PROFILES, n_quick=300, n_thorough=25000,
             nontrivial=_nontrivial, level="proof", corpus=_CORPUS + [_NONFUTURES, _LAZY_SIBLINGS, _FAULT_CLASSES],
             extra_gen=mach.extra_profiles(_EXTRA, 100, 7000))
