"""C01 — async execution returns exactly what sequential evaluation would."""
from ..lib import mach, machgen

RULE = ("generated task programs (trees and DAGs with shared handles, 1-40 tasks, depth <= 6, nested tuple/list/dict yield "
        "structures incl. empties and None, 1-3 batch kinds with priority overrides, try/except, contexts, synchronous "
        "re-entry, result()/return); the scheduler's flush choices are read off the implementation and replayed into the "
        "model, which checks each is a maximal-priority batch; distinct = different AST+params; non-trivial = >= 2 tasks "
        "and >= 1 nested structure")
TRUSTED = ["Python/Gallina emitters of harness/lib/machprog.py (validated against each other by this correspondence)"]
ASSUMPTIONS = ["generated programs are finite and acyclic by construction", "exceptions raised by user code are Exception subclasses"]
EXPLANATION = "projection: outcome of every top-level computation + every Step/Got payload + Done events"

_base = dict(name="tree", p_ctx_fault=0, p_nonasync=0, budget=20, max_depth=5)
PROFILES = [
    (3, dict(_base)),
    (2, dict(_base, name="dag", p_old=0.5, p_let=0.3, p_sync=0.2)),
    (2, dict(_base, name="faulty", p_raise=0.12, p_item_err=0.2, p_item_skip=0.1, p_flush_raise=0.3, p_try=0.25, p_errfut=0.08, p_bad=0.05)),
    (1, dict(_base, name="wide", max_width=6, budget=40, max_depth=6, nkinds=3)),
    (1, dict(_base, name="history", roots=(2, 3), p_keep=0.3)),
    (1, dict(_base, name="scoped", p_with=0.3, p_override=0.8, p_read=0.25, nvars=1)),
]


def _nontrivial(c):
    s = machgen.stats(c)
    return s["tasks"] >= 2 and s["nested"] >= 1


# the same list / dict object of stored handles yielded twice (by one task), and handed to two tasks
_REUSE = [
    (1, dict(_base, name="reuse", p_again=0.6, p_let=0.35, p_old=0.5, budget=16)),
    (1, dict(_base, name="reuse-faulty", p_again=0.6, p_let=0.35, p_old=0.5, p_errfut=0.15, p_raise=0.1, p_try=0.25)),
]
_REUSE_CASE = {
    "roots": [[
        {"op": "let", "h": "h1", "f": {"task": [{"op": "yield", "x": "a1", "s": {"new": {"item": [0, 1, {"set": 5}]}}},
                                                 {"op": "return", "e": {"var": "a1"}}]}},
        {"op": "let", "h": "h2", "f": {"const": 7}},
        {"op": "yield", "x": "x1", "s": {"list": [{"old": "h1"}, {"old": "h2"}]}, "again": "x2"},
        {"op": "yield", "x": "x3", "s": {"dict": [[0, {"old": "h2"}], [1, {"old": "h1"}]]}, "again": "x4"},
        {"op": "return", "e": {"tuple": [{"var": "x1"}, {"var": "x2"}, {"var": "x3"}, {"var": "x4"}]}}]],
    "params": {"kinds": {}},
}

mach.install(globals(), "C01", ("EvStep", "EvGot", "EvDone"), ("C01:",), PROFILES, n_quick=300, n_thorough=25000,
             nontrivial=_nontrivial, level="proof", corpus=[_REUSE_CASE], extra_gen=mach.extra_profiles(_REUSE, 40, 3000))
