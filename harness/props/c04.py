"""C04 — batches are flushed only when nothing else can run (maximal batching)."""
from ..lib import mach, machgen, machmon

RULE = ("yield-only generated programs (no synchronous call into asynq from a task), unbalanced depths so that requests become "
        "issuable at different times, 1-3 batch kinds, errors, try/except, contexts, shared tasks; distinct = different "
        "AST+params; non-trivial = >= 2 items at >= 2 different task depths")
TRUSTED = ["Python/Gallina emitters of harness/lib/machprog.py"]
ASSUMPTIONS = ["yield-only programs, no context whose pause()/resume() raises (the statement's own restriction / DESIGN C04)"]
EXPLANATION = "projection: the composition (item ids in order) and order of every flush"

_base = dict(name="yieldonly", p_sync=0, p_ctx_fault=0, p_nonasync=0, budget=25, max_depth=6, p_item=0.5, p_lazy=0.03)
PROFILES = [
    (3, dict(_base)),
    (2, dict(_base, name="onekind", nkinds=1, p_prio=0)),
    (2, dict(_base, name="dag", p_old=0.45, p_let=0.25)),
    (1, dict(_base, name="faulty", p_raise=0.1, p_item_err=0.15, p_flush_raise=0.3, p_try=0.25, nkinds=3)),
]


def _nontrivial(c):
    s = machgen.stats(c)
    return s["items"] >= 2 and s["depth"] >= 2


# a task resumed with an exception (a dependency failed) that catches it and yields more batch work must get that work
# started before the pending batch is flushed
_CATCH_THEN_BATCH = {
    "roots": [[{"op": "yield", "x": "x1", "s": {"tuple": [
        {"new": {"task": [{"op": "yield", "x": "a1", "s": {"new": {"item": [0, 1, {"set": 1}]}}}, {"op": "return", "e": {"var": "a1"}}]}},
        {"new": {"task": [
            {"op": "try", "body": [{"op": "yield", "x": "b1", "s": {"new": {"task": [{"op": "raise", "e": 5}]}}}], "x": "e1",
             "handler": [{"op": "yield", "x": "b2", "s": {"new": {"task": [
                 {"op": "yield", "x": "b3", "s": {"new": {"item": [0, 2, {"set": 2}]}}}, {"op": "return", "e": {"var": "b3"}}]}}}]},
            {"op": "return", "e": 0}]}},
        {"new": {"task": [
            {"op": "try", "body": [{"op": "yield", "x": "c1", "s": {"new": {"error": 6}}}], "x": "e2",
             "handler": [{"op": "yield", "x": "c2", "s": {"new": {"task": [
                 {"op": "yield", "x": "c3", "s": {"new": {"item": [0, 3, {"set": 3}]}}}, {"op": "return", "e": {"var": "c3"}}]}}}]},
            {"op": "return", "e": 0}]}}]}},
        {"op": "return", "e": {"var": "x1"}}]],
    "params": {"kinds": {}},
}
def _leaf(kind, key):
    return {"new": {"task": [{"op": "yield", "x": "i%d" % key, "s": {"new": {"item": [kind, key, {"set": key}]}}}, {"op": "return", "e": {"var": "i%d" % key}}]}}


# a diamond: one yield lists a consumer of a shared task BEFORE the shared task itself, next to a sibling with a pending request;
# the shared task completes without a flush, so the consumer's own request must still travel in the first flush
_DIAMOND = {
    "roots": [[
        {"op": "let", "h": "h1", "f": {"task": [{"op": "return", "e": 7}]}},
        {"op": "let", "h": "h2", "f": {"task": [{"op": "yield", "x": "s1", "s": {"new": {"const": 1}}}, {"op": "return", "e": {"var": "s1"}}]}},
        {"op": "yield", "x": "x1", "s": {"tuple": [
            {"new": {"task": [{"op": "yield", "x": "c1", "s": {"old": "h1"}}, {"op": "yield", "x": "c2", "s": {"new": {"item": [0, 1, {"set": 1}]}}},
                              {"op": "return", "e": {"var": "c2"}}]}},
            {"old": "h1"},
            {"new": {"task": [{"op": "yield", "x": "d1", "s": {"list": [{"old": "h2"}, {"old": "h1"}]}}, {"op": "yield", "x": "d2", "s": {"new": {"item": [0, 2, {"set": 2}]}}},
                              {"op": "return", "e": {"var": "d2"}}]}},
            {"old": "h2"},
            _leaf(0, 3)]}},
        {"op": "return", "e": {"var": "x1"}}]],
    "params": {"kinds": {}},
}
# tasks that return a future they never yielded (`return other.asynq(...)`, `return item`): the future object is the task's
# value - it is neither started nor computed on the task's behalf (model-blind class: monitors only)
_RETURNS_FUTURE = {
    "roots": [[
        {"op": "yield", "x": "x1", "s": {"tuple": [
            {"new": {"task": [{"op": "yield", "x": "a1", "s": {"new": {"item": [0, 1, {"set": 1}]}}},
                              {"op": "let", "h": "h1", "f": {"item": [0, 2, {"set": 2}]}}, {"op": "return", "e": {"handle": "h1"}}]}},
            {"new": {"task": [{"op": "yield", "x": "b1", "s": {"new": {"item": [0, 3, {"set": 3}]}}},
                              {"op": "let", "h": "h2", "f": {"task": [{"op": "yield", "x": "c1", "s": {"new": {"item": [0, 4, {"set": 4}]}}}, {"op": "return", "e": {"var": "c1"}}]}},
                              {"op": "return", "e": {"handle": "h2"}}]}},
            {"new": {"task": [{"op": "yield", "x": "d1", "s": {"new": {"item": [0, 5, {"set": 5}]}}}, {"op": "yield", "x": "d2", "s": {"new": {"item": [0, 6, {"set": 6}]}}},
                              {"op": "return", "e": {"var": "d2"}}]}}]}},
        {"op": "return", "e": 0}]],
    "params": {"kinds": {}, "model_blind": True},
}
_EXTRA = [(1, dict(_base, name="returns-future", p_ret_fut=0.4, p_let=0.25, p_item=0.55, nkinds=1)),
          (2, dict(_base, name="diamonds", p_old=0.6, p_let=0.35, p_item=0.4, p_const=0.2, nkinds=1, budget=22)),
          (1, dict(_base, name="recover", p_try=0.4, p_raise=0.15, p_errfut=0.15, p_item_err=0.1, nkinds=1, budget=22))]

mach.install(globals(), "C04", ("EvBefore", "EvFlush"), ("C04:",), PROFILES, n_quick=300, n_thorough=25000,
             nontrivial=_nontrivial, case_filter=machmon.yield_only, level="proof", corpus=[_CATCH_THEN_BATCH, _DIAMOND, _RETURNS_FUTURE],
             extra_gen=mach.extra_profiles(_EXTRA, 80, 5000))
