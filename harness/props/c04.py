"""C04 — batches are flushed only when nothing else can run (maximal batching)."""
from ..lib import mach, machgen, machmon

RULE = ("yield-only generated programs (no synchronous call into asynq from a task), unbalanced depths so that requests become "
        "issuable at different times, 1-3 batch kinds, errors, try/except, contexts, shared tasks; distinct = different "
        "AST+params; non-trivial = >= 2 items at >= 2 different task depths")
TRUSTED = ["Python/Gallina emitters of harness/lib/machprog.py"]
ASSUMPTIONS = ["yield-only programs, no context whose pause()/resume() raises (the statement's own restriction / DESIGN C04)"]
EXPLANATION = "projection: the composition (item ids in order) and order of every flush"

_base = dict(name="yieldonly", p_sync=0, p_ctx_fault=0, p_nonasync=0, budget=25, max_depth=6, p_item=0.5, p_lazy=0.03)
PROFILES = [
    (3, dict(_base)),
    (2, dict(_base, name="onekind", nkinds=1, p_prio=0)),
    (2, dict(_base, name="dag", p_old=0.45, p_let=0.25)),
    (1, dict(_base, name="faulty", p_raise=0.1, p_item_err=0.15, p_flush_raise=0.3, p_try=0.25, nkinds=3)),
]


def _nontrivial(c):
    s = machgen.stats(c)
    return s["items"] >= 2 and s["depth"] >= 2


mach.install(globals(), "C04", ("EvBefore", "EvFlush"), ("C04:",), PROFILES, n_quick=300, n_thorough=25000,
             nontrivial=_nontrivial, case_filter=machmon.yield_only, level="proof")
