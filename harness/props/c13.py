"""C13 — async caches (alru_cache, acached_per_instance, alazy_constant) behave like their reference
cache for every call history."""
import inspect
import itertools
import json
import re

from ..lib import coqrun

PROP = "C13"
COQ_IMPORTS = ["Cache"]
COQ_FN = "Cache.run_both"
IMPL = "c13_impl.py"
IMPL_JOBS = 12
RULE = ("histories of 1..60 operations (call / finish of a blocked body / drop instance+gc / dirty / clock tick) on "
        "alru_cache (plain function or method; default key or key_fn in {first arg, sum mod m, constant}; maxsize in "
        "{1,2,3,128}), acached_per_instance (1-3 instances) and alazy_constant (ttl in {0,5,10,100}, scripted utime); "
        "random signatures (0-3 positional-or-keyword parameters, trailing defaults, 0-2 keyword-only, optional **kwargs); "
        "every call is one spelling (how many positionals, which keywords, defaults omitted or not, keyword order) of a "
        "logical argument tuple from a key space of <= 5; 25% blocking bodies (overlap), 15% raising bodies; 20% of "
        "cases carry malformed calls / ops (missing, surplus, duplicate arguments, stray finishes, maxsize <= 0, "
        "clock at 0 or running backwards); both tiers add histories a, b1..bn over all spellings of six signatures (thorough: every a, so every ordered "
        "pair of spellings meets); plus FAMILIES (quick 200, thorough 4000): 2-3 functions (or methods of one class) decorated through "
        "explicit decorator objects - all through one object (`memo = alru_cache(maxsize=2)`, `@memo` twice), each through its own "
        "decorator call, or mixed - with equal / neighbouring / unrelated signatures over a common value domain, per-object maxsize in "
        "{1,2,3,4,128} and key_fn, interleaved calls / finishes (/ drops of instances shared by the methods / dirty() per function / "
        "common clock ticks), for alru_cache, acached_per_instance and alazy_constant.  VALUE KINDS: a body returns either its unique "
        "integer 100 + call id or, chosen per (function, logical argument tuple) in 40% of the functions (per lazy constant in 25%), a "
        "payload - None (3x weight), 0, False, '', (), [], (None,), 2**70, 0.0, {} - so that entries whose stored value is None / falsy "
        "are looked up again (hits expected), evicted and dropped like any other; the body-run log, not the value, says whether a body ran.  "
        "INSTANCE GENERATIONS (quick 100, thorough 2500, drawn last): alru_cache with the default key on a method called on 1-3 slots; "
        "`drop` releases the instance in a slot (+ gc) and the next call on the slot is made on a fresh instance (generation + 1; same address "
        "when the dead one was freed), maxsize in {1,2,3,4,128}, remaining arguments from a key space of <= 5, blocking bodies (a busy instance is "
        "not dropped); non-trivial there = a fresh instance asks for what a dropped instance still has in the reference LRU, >= 1 hit.  distinct = different case after dropping meta; non-trivial = the reference cache sees >= 1 hit, "
        ">= 1 miss and (alru) >= 1 eviction / (per-instance) >= 2 instances or a drop / (lazy) a dirty- or ttl-forced recomputation; "
        "(family) >= 2 functions called, >= 1 hit, >= 1 miss and two functions meet on the same normalised arguments / key (or an "
        "eviction; lazy: a forced recomputation)")
TRUSTED = ["qcore.caching.LRUCache / get_args_tuple / get_kwargs_defaults (compiled qcore from the venv) are modelled in Cache.v "
           "and validated only by this correspondence",
           "the scheduler performs the gated operations in history order (highest-priority batch first: property C05); "
           "the runner records the order and the comparator rejects a run that deviates",
           "CPython weakref callbacks / gc.collect() for the per-instance Drop operation; for alru_cache methods Drop releases the runner's "
           "references (instance table, exception tracebacks) - whether the object dies then depends on what the cache keeps",
           "monitors use inspect.signature(...).bind as the definition of 'normalised arguments'"]
ASSUMPTIONS = ["returned values are the unique integers 100 + call id or one of ten payload kinds (None, 0, False, '', (), [], (None,), 2**70, "
               "0.0, {}), recognised in the runner by exact type and value; to the model every value is an integer code it never inspects "
               "(C13_values_opaque*)",
               "families: every decorator object of a case is applied to at least one function; an instance is dropped only when "
               "none of its calls (in any method) can still be in flight; the reference is one independent cache per decorated function",
               "argument and result values are small integers (no 1 == True == 1.0 key aliasing)",
               "signatures without *args (outside the statement's list of spellings; see docs/C13.md for what a probe shows there)",
               "a call whose arguments do not bind to the signature is outside the statement (the model follows the code; monitors skip it)",
               "Drop is issued only when no call on that instance is in flight (otherwise it is refused on both sides)",
               "overlapping misses are not deduplicated (DESIGN 5.21); a dirty() issued while a recomputation is in flight is "
               "overwritten by that recomputation's completion, on both sides",
               "alazy_constant: the clock is positive and monotone in the monitored stream"]

EXPLANATION = ("35 Coq theorems about Cache.v (see docs/C13.md) + differential run of every generated history through Cache.run_both and "
               "through alru_cache / acached_per_instance / alazy_constant in both builds (results, cache sizes, body-run log per operation) + "
               "reference-cache monitors.  Families of functions decorated through shared or separate decorator objects are modelled as one "
               "cache machine per decorated function (proved: every function observes its own projection of the history) and monitored "
               "against one independent reference cache per function.  Former finding (known/C13.json, fixed in the tree): alru_cache's "
               "default key dropped argument 0 from arg_names; the theorems are about the repaired construction, the old one is Cache.run_case_src.")

LETTERS = "abcdefghijklmnopqrstuvwxyz"
SELF = 99
# value kinds a body may return instead of its unique integer 100 + call id (see PAYLOADS in the runner); to the model
# they are just other integers - it never looks at a value (C13_values_opaque)
PAYLOAD_NAMES = {9001: "None", 9002: "0", 9003: "False", 9004: "empty-str", 9005: "empty-tuple", 9006: "empty-list",
                 9007: "tuple-of-None", 9008: "big-int", 9009: "0.0", 9010: "empty-dict"}
PAYLOAD_CODES = [9001, 9001, 9001, 9002, 9003, 9004, 9005, 9006, 9007, 9008, 9009, 9010]


def is_payload(v):
    return v in PAYLOAD_NAMES


def gen_payloads(rng, n):
    """per logical argument tuple of a function: the payload its body returns, or None = the unique integer.
    40% of the functions have payload keys at all; in those, each key gets one with probability 1/2."""
    if rng.random() >= 0.4:
        return [None] * n
    return [rng.choice(PAYLOAD_CODES) if rng.random() < 0.5 else None for _ in range(n)]



def pname(n):
    return "self" if n == SELF else LETTERS[n]


# --------------------------------------------------------------------------------------------- cases
def _call(i, args, kw, bl=False, body=None, inst=None, fn=None):
    d = {"op": "call", "id": i, "args": list(args), "kw": [list(x) for x in kw], "bl": bl,
         "body": body or ["ret", 100 + i]}
    if inst is not None:
        d["inst"] = inst
    if fn is not None:
        d["fn"] = fn
    return d


def gen_sig(rng):
    npos = rng.choice([0, 1, 1, 2, 2, 2, 3])
    ndef = rng.randint(0, npos)
    pos = []
    for i in range(npos):
        pos.append([i, rng.choice([0, 2, 2, 3]) if i >= npos - ndef else None])
    nkw = rng.choice([0, 0, 0, 1, 1, 2])
    kw = [[npos + j, rng.choice([None, 0, 2])] for j in range(nkw)]
    return {"pos": pos, "kw": kw, "varkw": rng.random() < 0.15}


def logical_space(rng, sig, n):
    """<= n logical argument tuples: a value per parameter (+ surplus keywords for **kwargs)"""
    params = sig["pos"] + sig["kw"]
    out = []
    for _ in range(n):
        vals = []
        for nm, d in params:
            if d is not None and rng.random() < 0.45:
                vals.append(d)
            else:
                vals.append(rng.choice([1, 2, 3]))
        extra = []
        if sig["varkw"] and rng.random() < 0.4:
            free = [x for x in range(len(params), 8)]
            for nm in rng.sample(free, rng.choice([1, 1, 2])):
                extra.append([nm, rng.choice([1, 2])])
        out.append((vals, extra))
    return out


def spell(rng, sig, logical):
    """one spelling of a logical argument tuple: (args, kw)"""
    vals, extra = logical
    npos = len(sig["pos"])
    p = rng.randint(0, npos)
    args = vals[:p]
    kw = []
    for (nm, d), v in list(zip(sig["pos"], vals))[p:]:
        if d is not None and v == d and rng.random() < 0.6:
            continue
        kw.append([nm, v])
    for (nm, d), v in zip(sig["kw"], vals[npos:]):
        if d is not None and v == d and rng.random() < 0.6:
            continue
        kw.append([nm, v])
    kw += [list(e) for e in extra]
    rng.shuffle(kw)
    return args, kw


def bad_spell(rng, sig, logical):
    args, kw = spell(rng, sig, logical)
    r = rng.random()
    names = [nm for nm, _ in sig["pos"] + sig["kw"]]
    if r < 0.3:
        args = args + [rng.choice([1, 2, 3])] * (len(sig["pos"]) - len(args) + 1)       # too many positionals
    elif r < 0.55 and kw:
        kw = kw[1:]                                                                        # maybe a missing argument
    elif r < 0.8 and args and sig["pos"]:
        j = rng.randrange(len(args))
        if j < len(sig["pos"]) and sig["pos"][j][0] not in [k for k, _ in kw]:
            kw = kw + [[sig["pos"][j][0], rng.choice([args[j], 1, 2])]]                    # duplicate value
    else:
        free = [x for x in range(len(names), 8) if x not in [k for k, _ in kw]]
        if free:
            kw = kw + [[rng.choice(free), 1]]                                             # unexpected keyword
    return args, kw


def gen_history(rng, sig, malformed, ninst, with_drop, n):
    space = logical_space(rng, sig, rng.choice([1, 2, 3, 4, 5]))
    pays = gen_payloads(rng, len(space))
    ops = []
    pending = []       # (id, inst) of blocking calls whose finish is still to be placed
    i = 0
    while len(ops) < n:
        r = rng.random()
        if pending and r < 0.25:
            j = rng.randrange(len(pending))
            cid, ci = pending.pop(j)
            f = {"op": "finish", "id": cid}
            if ci is not None:
                f["inst"] = ci
            ops.append(f)
            continue
        if with_drop and r < 0.35:
            ops.append({"op": "drop", "inst": rng.randrange(ninst)})
            continue
        if malformed and r < 0.40:
            f = {"op": "finish", "id": rng.randrange(0, max(1, i + 2))}
            if ninst:
                f["inst"] = rng.randrange(ninst)
            ops.append(f)
            continue
        j = rng.randrange(len(space))
        lg = space[j]
        if malformed and rng.random() < 0.3:
            args, kw = bad_spell(rng, sig, lg)
        else:
            args, kw = spell(rng, sig, lg)
        bl = rng.random() < 0.25
        body = ["raise", 500 + i] if rng.random() < 0.15 else ["ret", 100 + i if pays[j] is None else pays[j]]
        inst = rng.randrange(ninst) if ninst else None
        ops.append(_call(i, args, kw, bl, body, inst))
        if bl and rng.random() < 0.9:
            pending.append((i, inst))
        i += 1
    for cid, ci in pending:
        if rng.random() < 0.7:
            f = {"op": "finish", "id": cid}
            if ci is not None:
                f["inst"] = ci
            ops.append(f)
    return ops


LENS = [1, 2, 3, 4, 6, 8, 10, 14, 20, 30, 45, 60]


def gen_case(rng):
    malformed = rng.random() < 0.2
    r = rng.random()
    n = rng.choice(LENS)
    if r < 0.5:
        sig = gen_sig(rng)
        km = rng.choice(["default"] * 13 + ["first", "first", [["sum", 2], ["sum", 3]][rng.randrange(2)], ["sum", 2], "const"])
        target = "method" if (km == "default" and rng.random() < 0.3) else "fn"
        maxsize = rng.choice([1, 2, 2, 3, 3, 128])
        if malformed and rng.random() < 0.1:
            maxsize = rng.choice([0, -1])
        ninst = rng.choice([1, 2, 3]) if target == "method" else 0
        ops = gen_history(rng, sig, malformed, ninst, False, n)
        c = {"kind": "alru", "target": target, "km": km, "maxsize": maxsize, "sig": sig, "ops": ops}
    elif r < 0.8:
        sig = gen_sig(rng)
        ninst = rng.choice([1, 2, 2, 3])
        ops = gen_history(rng, sig, malformed, ninst, True, n)
        c = {"kind": "inst", "sig": sig, "ops": ops}
    else:
        ttl = rng.choice([0, 0, 5, 10, 100])
        now0 = rng.choice([1, 1000])
        if malformed:
            ttl = rng.choice([ttl, ttl, -5])
            now0 = rng.choice([now0, 0, 0, -3])
        ops = []
        pending = []
        i = 0
        lpay = rng.choice(PAYLOAD_CODES) if rng.random() < 0.25 else None     # the constant's value kind
        while len(ops) < n:
            q = rng.random()
            if pending and q < 0.2:
                ops.append({"op": "finish", "id": pending.pop(rng.randrange(len(pending)))})
            elif q < 0.35:
                ops.append({"op": "dirty"})
            elif q < 0.55:
                dts = [0, 1, 3, max(ttl, 0), max(ttl, 0) + 1, 2 * max(ttl, 0) + 1]
                if malformed:
                    dts += [-1, -7]
                ops.append({"op": "tick", "dt": rng.choice(dts)})
            elif malformed and q < 0.6:
                ops.append({"op": "finish", "id": rng.randrange(0, i + 2)})
            else:
                bl = rng.random() < 0.25
                body = ["raise", 500 + i] if rng.random() < 0.15 else ["ret", 100 + i if (lpay is None or rng.random() < 0.2) else lpay]
                ops.append(_call(i, [], [], bl, body))
                if bl and rng.random() < 0.9:
                    pending.append(i)
                i += 1
        for cid in pending:
            ops.append({"op": "finish", "id": cid})
        c = {"kind": "lazy", "ttl": ttl, "now0": now0, "ops": ops}
    c["meta"] = {"malformed": malformed}
    return c


# ---- families: 2-3 functions (or methods of one class) decorated through explicit decorator objects
SHARING = {2: [[0, 0], [0, 0], [0, 1]], 3: [[0, 0, 0], [0, 0, 0], [0, 1, 2], [0, 0, 1], [0, 1, 0], [0, 1, 1]]}


def _sim_sig(rng, sig):
    """a neighbouring signature: other defaults / one more trailing parameter / one keyword-only fewer / **kwargs toggled"""
    s = json.loads(json.dumps(sig))
    r = rng.random()
    npos = len(s["pos"])
    if r < 0.4 and npos:
        ndef = rng.randint(0, npos)
        s["pos"] = [[i, rng.choice([0, 2, 2, 3]) if i >= npos - ndef else None] for i in range(npos)]
    elif r < 0.65 and npos < 3:
        s["kw"] = [[m + 1, d] for m, d in s["kw"]]
        s["pos"].append([npos, rng.choice([0, 2, 3])])
    elif r < 0.8 and s["kw"]:
        s["kw"] = s["kw"][:-1]
    else:
        s["varkw"] = not s["varkw"]
    return s


def gen_family_history(rng, kind, sigs, malformed, ninst, with_drop, n):
    """interleaved calls of the functions of a family; a drop is only issued for an instance none of whose calls
    (in any method) may still be in flight"""
    nf = len(sigs)
    if rng.random() < 0.6:      # one common value domain, so that normalised arguments of different functions coincide
        base = logical_space(rng, sigs[0], rng.choice([1, 2, 3]))
        spaces = []
        for sg in sigs:
            if sg == sigs[0]:
                spaces.append(base)
            else:
                spaces.append(logical_space(rng, sg, rng.choice([1, 2, 3])))
    else:
        spaces = [logical_space(rng, sg, rng.choice([1, 2, 3, 4])) for sg in sigs]
    pays = [gen_payloads(rng, len(sp)) for sp in spaces]
    ops = []
    pending = []       # (id, inst, fn)
    maybe_busy = set()
    i = 0
    while len(ops) < n:
        r = rng.random()
        if pending and r < 0.25:
            cid, ci, cf = pending.pop(rng.randrange(len(pending)))
            f = {"op": "finish", "id": cid, "fn": cf}
            if ci is not None:
                f["inst"] = ci
            ops.append(f)
            continue
        if with_drop and r < 0.35:
            free = [x for x in range(ninst) if x not in maybe_busy]
            if free:
                ops.append({"op": "drop", "inst": rng.choice(free)})
                continue
        if malformed and r < 0.40:
            f = {"op": "finish", "id": rng.randrange(0, max(1, i + 2)), "fn": rng.randrange(nf)}
            if ninst:
                f["inst"] = rng.randrange(ninst)
            ops.append(f)
            continue
        fn = rng.randrange(nf)
        j = rng.randrange(len(spaces[fn]))
        lg = spaces[fn][j]
        if malformed and rng.random() < 0.3:
            args, kw = bad_spell(rng, sigs[fn], lg)
        else:
            args, kw = spell(rng, sigs[fn], lg)
        bl = rng.random() < 0.2
        body = ["raise", 500 + i] if rng.random() < 0.12 else ["ret", 100 + i if pays[fn][j] is None else pays[fn][j]]
        inst = rng.randrange(ninst) if ninst else None
        ops.append(_call(i, args, kw, bl, body, inst, fn))
        if bl:
            if inst is not None:
                maybe_busy.add(inst)
            if rng.random() < 0.9:
                pending.append((i, inst, fn))
        i += 1
    for cid, ci, cf in pending:
        if rng.random() < 0.7:
            f = {"op": "finish", "id": cid, "fn": cf}
            if ci is not None:
                f["inst"] = ci
            ops.append(f)
    return ops


FAM_LENS = [2, 3, 4, 6, 8, 10, 14, 20, 30, 45]


def gen_family(rng):
    malformed = rng.random() < 0.12
    nf = rng.choice([2, 2, 3])
    share = list(rng.choice(SHARING[nf]))
    nd = max(share) + 1
    n = rng.choice(FAM_LENS)
    r = rng.random()
    if r < 0.6 or r < 0.8:
        kind = "alru" if r < 0.6 else "inst"
        s0 = gen_sig(rng)
        if kind == "alru" and not s0["pos"] and rng.random() < 0.7:
            s0["pos"] = [[0, None]]
            s0["kw"] = [[m + 1, d] for m, d in s0["kw"]]
        q = rng.random()
        if q < 0.55:
            sigs = [json.loads(json.dumps(s0)) for _ in range(nf)]
        elif q < 0.8:
            sigs = [s0] + [_sim_sig(rng, s0) for _ in range(nf - 1)]
        else:
            sigs = [s0] + [gen_sig(rng) for _ in range(nf - 1)]
        if kind == "alru":
            decos = []
            for _ in range(nd):
                km = rng.choice(["default"] * 9 + ["first", "first", ["sum", 2], ["sum", 3], "const"])
                decos.append({"km": km, "maxsize": rng.choice([1, 2, 2, 3, 3, 4, 128])})
            if malformed and rng.random() < 0.1:
                decos[rng.randrange(nd)]["maxsize"] = rng.choice([0, -1])
            target = "method" if (all(d["km"] == "default" for d in decos) and rng.random() < 0.25) else "fn"
            ninst = rng.choice([1, 2]) if target == "method" else 0
            ops = gen_family_history(rng, kind, sigs, malformed, ninst, False, n)
            c = {"kind": "alru", "target": target, "decos": decos, "fns": [{"deco": share[f], "sig": sigs[f]} for f in range(nf)], "ops": ops}
        else:
            ninst = rng.choice([1, 2, 2, 3])
            ops = gen_family_history(rng, kind, sigs, malformed, ninst, True, n)
            c = {"kind": "inst", "decos": nd, "fns": [{"deco": share[f], "sig": sigs[f]} for f in range(nf)], "ops": ops}
    else:
        decos = [{"ttl": rng.choice([0, 0, 5, 10, 100])} for _ in range(nd)]
        now0 = rng.choice([1, 1000])
        if malformed:
            now0 = rng.choice([now0, 0, -3])
            decos[0]["ttl"] = rng.choice([decos[0]["ttl"], -5])
        ttls = [decos[share[f]]["ttl"] for f in range(nf)]
        lpays = [rng.choice(PAYLOAD_CODES) if rng.random() < 0.25 else None for _ in range(nf)]
        ops = []
        pending = []
        i = 0
        while len(ops) < n:
            q = rng.random()
            if pending and q < 0.2:
                cid, cf = pending.pop(rng.randrange(len(pending)))
                ops.append({"op": "finish", "id": cid, "fn": cf})
            elif q < 0.37:
                ops.append({"op": "dirty", "fn": rng.randrange(nf)})
            elif q < 0.52:
                t = max(rng.choice(ttls), 0)
                dts = [0, 1, 3, t, t + 1, 2 * t + 1]
                if malformed:
                    dts += [-1, -7]
                ops.append({"op": "tick", "dt": rng.choice(dts)})
            elif malformed and q < 0.57:
                ops.append({"op": "finish", "id": rng.randrange(0, i + 2), "fn": rng.randrange(nf)})
            else:
                bl = rng.random() < 0.2
                fn = rng.randrange(nf)
                body = ["raise", 500 + i] if rng.random() < 0.12 else ["ret", 100 + i if (lpays[fn] is None or rng.random() < 0.2) else lpays[fn]]
                ops.append(_call(i, [], [], bl, body, None, fn))
                if bl and rng.random() < 0.9:
                    pending.append((i, fn))
                i += 1
        for cid, cf in pending:
            ops.append({"op": "finish", "id": cid, "fn": cf})
        c = {"kind": "lazy", "decos": decos, "fns": [{"deco": share[f]} for f in range(nf)], "now0": now0, "ops": ops}
    c["meta"] = {"malformed": malformed, "family": True}
    return c


def all_spellings(sig, vals_per_param=(1, 2)):
    """every spelling of every logical tuple over a tiny value set (no surplus keywords)"""
    pos, kwo = sig["pos"], sig["kw"]
    out = []
    dom = []
    for nm, d in pos + kwo:
        dom.append(sorted(set(list(vals_per_param) + ([d] if d is not None else []))))
    for vals in itertools.product(*dom):
        for p in range(len(pos) + 1):
            rest = list(zip(pos, vals))[p:] + list(zip(kwo, vals[len(pos):]))
            opts = []
            for (nm, d), v in rest:
                o = [[[nm, v]]]
                if d is not None and v == d:
                    o.append([])
                opts.append(o)
            for ch in itertools.product(*opts):
                kw = [x for part in ch for x in part]
                out.append((list(vals[:p]), kw))
                if len(kw) >= 2:
                    out.append((list(vals[:p]), kw[::-1]))
    return out


EXH_SIGS = [
    {"pos": [[0, None], [1, 2]], "kw": [], "varkw": False},
    {"pos": [[0, None]], "kw": [[1, 0]], "varkw": False},
    {"pos": [[0, 2]], "kw": [], "varkw": False},
    {"pos": [[0, None], [1, None]], "kw": [], "varkw": False},
    {"pos": [[0, None], [1, 2]], "kw": [[2, 0]], "varkw": False},
    {"pos": [], "kw": [[0, 2], [1, None]], "varkw": False},
]


def exhaustive_cases():
    """For each of six signatures, each wrapper kind and each spelling a: the history a, b1, ..., bn over *all*
    spellings b of all logical argument tuples (cache large enough to hold everything): every ordered pair of
    spellings meets in some history, the first one cached when the second arrives."""
    cs = []
    for sig in EXH_SIGS:
        sp = all_spellings(sig)
        for kind, target in (("alru", "fn"), ("alru", "method"), ("inst", None)):
            inst = 0 if kind == "inst" or target == "method" else None
            for a in range(len(sp)):
                order = [a] + [b for b in range(len(sp)) if b != a]
                ops = [_call(j, sp[b][0], sp[b][1], False, None, inst) for j, b in enumerate(order)]
                ops.append(_call(len(order), sp[a][0], sp[a][1], False, None, inst))
                if kind == "alru":
                    c = {"kind": "alru", "target": target, "km": "default", "maxsize": 128, "sig": sig, "ops": ops}
                else:
                    c = {"kind": "inst", "sig": sig, "ops": ops}
                c["meta"] = {"exhaustive": True}
                cs.append(c)
    return cs


GEN_LENS = [3, 4, 6, 8, 10, 14, 20, 30, 45]


def gen_generations(rng):
    """INSTANCE GENERATIONS: alru_cache (default key) on a method whose instances have different lifetimes.  `drop`
    releases the program's references to the instance in a slot (+ gc); the next call on that slot is made on a fresh
    instance - the next *generation* of the slot (CPython hands it the address of the dead one if that was freed).  The
    remaining arguments come from a small key space, so a new generation soon repeats what a dead one has cached, while
    the dead generation's entries may still be in the LRU."""
    malformed = rng.random() < 0.1
    sig = gen_sig(rng)
    maxsize = rng.choice([1, 2, 3, 3, 4, 128, 128, 128])
    if malformed and rng.random() < 0.1:
        maxsize = rng.choice([0, -1])
    ninst = rng.choice([1, 1, 2, 2, 3])
    ops = gen_history(rng, sig, malformed, ninst, True, rng.choice(GEN_LENS))
    return {"kind": "alru", "target": "method", "km": "default", "maxsize": maxsize, "sig": sig, "ops": ops, "gens": True,
            "meta": {"malformed": malformed, "generations": True}}


def gen_cases(rng, tier):
    n = 500 if tier == "quick" else 12000
    cs = [gen_case(rng) for _ in range(n)]
    cs += [gen_family(rng) for _ in range(200 if tier == "quick" else 4000)]
    ex = exhaustive_cases()
    cs += ex if tier != "quick" else rng.sample(ex, 40)
    # drawn after everything else, so that the cases above are what they were before this class existed
    cs += [gen_generations(rng) for _ in range(100 if tier == "quick" else 2500)]
    for c in cs:
        c["tree"] = case_tree(c)
    return cs


# --------------------------------------------------------------------------------------------- Coq input
def _param(p):
    return {"": [p[0], "None" if p[1] is None else {"Some": [p[1]]}]}


def _body(b):
    return {"BRet": [b[1]]} if b[0] == "ret" else {"BRaise": [b[1]]}


def _kmt(km):
    return {"default": "KmDefault", "first": "KmFirst", "const": "KmConst"}.get(km) if isinstance(km, str) else {"KmSum": [km[1]]}


def _sigtree(sig, method):
    pos = ([[SELF, None]] if method else []) + sig["pos"]
    return {"mkSig": [[_param(p) for p in pos], [_param(p) for p in sig["kw"]], bool(sig["varkw"])]}


def _optree(kind, method, o):
    """alru / inst operation -> aop / pop tree (None: not an operation of that kind)"""
    if o["op"] == "call":
        args = ([o["inst"]] if method else []) + o["args"]
        cl = {"mkCall": [args, [{"": [k, v]} for k, v in o["kw"]]]}
        if kind == "alru":
            return {"ACall": [o["id"], cl, bool(o["bl"]), _body(o["body"])]}
        return {"PCall": [o["id"], o["inst"], cl, bool(o["bl"]), _body(o["body"])]}
    if o["op"] == "finish":
        if kind == "alru":
            return {"AFinish": [o["id"]]}
        return {"PFinish": [o["id"], o["inst"]]}
    if o["op"] == "drop":
        return {"PDrop": [o["inst"]]}
    return None


def _lazyop(o):
    if o["op"] == "call":
        return {"LCall": [o["id"], bool(o["bl"]), _body(o["body"])]}
    if o["op"] == "finish":
        return {"LFinish": [o["id"]]}
    if o["op"] == "dirty":
        return "LDirty"
    return {"LTick": [o["dt"]]}


def _goptree(o):
    """operation of an alru_cache method history with instance generations -> gop tree (self is not in the call)"""
    if o["op"] == "call":
        cl = {"mkCall": [list(o["args"]), [{"": [k, v]} for k, v in o["kw"]]]}
        return {"GCall": [o["id"], o["inst"], cl, bool(o["bl"]), _body(o["body"])]}
    if o["op"] == "finish":
        return {"GFinish": [o["id"]]}
    return {"GDrop": [o["inst"]]}


def is_family(c):
    return "fns" in c


def case_tree(c):
    kind = c["kind"]
    if is_family(c):
        def at(o, t):
            return {"": [{"n": o.get("fn", 0)}, t]}
        if kind == "lazy":
            return {"CLazyM": [[d["ttl"] for d in c["decos"]], [{"n": f["deco"]} for f in c["fns"]], c["now0"],
                               [at(o, _lazyop(o)) for o in c["ops"]]]}
        method = kind == "alru" and c["target"] == "method"
        fns = [{"": [{"n": f["deco"]}, _sigtree(f["sig"], method)]} for f in c["fns"]]
        ops = [at(o, _optree(kind, method, o)) for o in c["ops"]]
        if kind == "alru":
            return {"CAlruM": [[{"": [_kmt(d["km"]), d["maxsize"]]} for d in c["decos"]], fns, ops]}
        return {"CInstM": [{"n": c["decos"]}, fns, ops]}
    if kind == "lazy":
        return {"CLazy": [c["ttl"], c["now0"], [_lazyop(o) for o in c["ops"]]]}
    method = kind == "alru" and c["target"] == "method"
    st = _sigtree(c["sig"], method)
    if c.get("gens"):
        return {"CAlruG": [c["maxsize"], st, [_goptree(o) for o in c["ops"]]]}
    ops = [t for t in (_optree(kind, method, o) for o in c["ops"]) if t is not None]
    if kind == "alru":
        return {"CAlru": [_kmt(c["km"]), c["maxsize"], st, ops]}
    return {"CInst": [st, ops]}


CORPUS_RAW = [
    # the candidate defect: f(1) / f(1, b=3) / f(1, 2) / f(a=1) under the default key
    {"kind": "alru", "target": "fn", "km": "default", "maxsize": 128, "sig": {"pos": [[0, None], [1, 2]], "kw": [], "varkw": False},
     "ops": [_call(0, [1], []), _call(1, [1], [[1, 3]]), _call(2, [1, 2], []), _call(3, [], [[0, 1]])]},
    {"kind": "alru", "target": "method", "km": "default", "maxsize": 128, "sig": {"pos": [[0, None], [1, 2]], "kw": [], "varkw": False},
     "ops": [_call(0, [1], [], inst=0), _call(1, [1], [[1, 3]], inst=0), _call(2, [1, 2], [], inst=0), _call(3, [1], [], inst=1)]},
    # LRU order: get promotes, set of a present key promotes, eviction of the oldest
    {"kind": "alru", "target": "fn", "km": "first", "maxsize": 2, "sig": {"pos": [[0, None]], "kw": [], "varkw": False},
     "ops": [_call(0, [1], []), _call(1, [2], []), _call(2, [1], []), _call(3, [3], []), _call(4, [2], []), _call(5, [1], []),
             _call(6, [3], [], True), _call(7, [3], [], True), {"op": "finish", "id": 7}, {"op": "finish", "id": 6}, _call(8, [3], [])]},
    # errors are not cached, blocked or not
    {"kind": "alru", "target": "fn", "km": "default", "maxsize": 3, "sig": {"pos": [[0, None]], "kw": [[1, 0]], "varkw": True},
     "ops": [_call(0, [1], [], False, ["raise", 500]), _call(1, [1], []), _call(2, [2], [], True, ["raise", 502]), {"op": "finish", "id": 2},
             _call(3, [2], [[5, 1], [4, 2]]), _call(4, [2], [[4, 2], [5, 1]]), _call(5, [2], [[1, 0]])]},
    # per-instance: independence, drop, drop refused while busy, id reuse
    {"kind": "inst", "sig": {"pos": [[0, None], [1, 2]], "kw": [], "varkw": False},
     "ops": [_call(0, [1], [], inst=0), _call(1, [1], [[1, 2]], inst=0), _call(2, [1], [], inst=1), _call(3, [2], [], False, ["raise", 503], 1),
             {"op": "drop", "inst": 1}, _call(4, [1], [], inst=1), _call(5, [3], [], True, None, 0), {"op": "drop", "inst": 0},
             {"op": "finish", "id": 5, "inst": 0}, {"op": "drop", "inst": 0}, _call(6, [3], [], inst=0), {"op": "drop", "inst": 1}]},
    # lazy constant: ttl boundary, dirty, overlap, error
    {"kind": "lazy", "ttl": 10, "now0": 100,
     "ops": [_call(0, [], []), _call(1, [], []), {"op": "tick", "dt": 10}, _call(2, [], []), {"op": "tick", "dt": 1}, _call(3, [], []),
             {"op": "dirty"}, _call(4, [], [], True), _call(5, [], []), {"op": "finish", "id": 4}, _call(6, [], []),
             {"op": "dirty"}, _call(7, [], [], False, ["raise", 507]), _call(8, [], [])]},
    {"kind": "lazy", "ttl": 0, "now0": 1,
     "ops": [_call(0, [], []), {"op": "tick", "dt": 1000}, _call(1, [], []), {"op": "dirty"}, _call(2, [], []), _call(3, [], [])]},
    {"kind": "alru", "target": "fn", "km": "default", "maxsize": 0, "sig": {"pos": [[0, None]], "kw": [], "varkw": False}, "ops": [_call(0, [1], [])]},
    # instance generations (alru_cache on a method): the instance is dropped, the next call on the slot is made on a fresh
    # instance (same address, if the dead one was freed) with the same remaining arguments: a miss, the body runs
    {"kind": "alru", "target": "method", "km": "default", "maxsize": 128, "gens": True, "sig": {"pos": [[0, 2]], "kw": [], "varkw": False},
     "ops": [_call(0, [1], [], inst=0), {"op": "drop", "inst": 0}, _call(1, [1], [], inst=0), _call(2, [], [[0, 1]], inst=0)]},
    # ... two slots, a busy instance is not dropped, the dead generation's entry still counts in the LRU order (maxsize 2)
    {"kind": "alru", "target": "method", "km": "default", "maxsize": 2, "gens": True, "sig": {"pos": [[0, None]], "kw": [], "varkw": False},
     "ops": [_call(0, [1], [], inst=0), _call(1, [1], [], inst=1), {"op": "drop", "inst": 0}, _call(2, [1], [], inst=0), _call(3, [1], [], inst=1),
             _call(4, [2], [], True, None, 1), {"op": "drop", "inst": 1}, {"op": "finish", "id": 4}, {"op": "drop", "inst": 1},
             _call(5, [2], [], inst=1), _call(6, [1], [], inst=0), {"op": "drop", "inst": 0}, {"op": "drop", "inst": 0}, _call(7, [1], [], inst=0)]},
    # value kinds: a body that returns None (0, False, '', ...) is cached like any other; the second call is a hit
    {"kind": "alru", "target": "fn", "km": "default", "maxsize": 2, "sig": {"pos": [[0, None], [1, 2]], "kw": [], "varkw": False},
     "ops": [_call(0, [1], [], body=["ret", 9001]), _call(1, [1], [], body=["ret", 9001]), _call(2, [], [[0, 1]], body=["ret", 9001]),
             _call(3, [2], [], body=["ret", 9002]), _call(4, [3], []), _call(5, [2], [], body=["ret", 9002]), _call(6, [1], [], body=["ret", 9001])]},
    {"kind": "inst", "sig": {"pos": [[0, None]], "kw": [[1, 0]], "varkw": False},
     "ops": [_call(0, [4], [], body=["ret", 9001], inst=0), _call(1, [], [[0, 4]], body=["ret", 9001], inst=0), _call(2, [4], [[1, 0]], body=["ret", 9001], inst=0),
             _call(3, [4], [], body=["ret", 9001], inst=1), _call(4, [5], [], body=["ret", 9003], inst=0), _call(5, [5], [], body=["ret", 9003], inst=0)]},
    {"kind": "lazy", "ttl": 0, "now0": 1000,
     "ops": [_call(0, [], [], body=["ret", 9001]), _call(1, [], [], body=["ret", 9001]), {"op": "dirty"}, _call(2, [], [], body=["ret", 9006]), _call(3, [], [], body=["ret", 9006])]},
    # families.  `memo = alru_cache(maxsize=2)` applied to two functions: coinciding normalised arguments ...
    {"kind": "alru", "target": "fn", "decos": [{"km": "default", "maxsize": 2}],
     "fns": [{"deco": 0, "sig": {"pos": [[0, None], [1, 1]], "kw": [], "varkw": False}}, {"deco": 0, "sig": {"pos": [[0, None], [1, 1]], "kw": [], "varkw": False}}],
     "ops": [_call(0, [1], [], fn=0), _call(1, [1], [[1, 1]], fn=0), _call(2, [1], [], fn=1), _call(3, [], [[0, 1]], fn=1)]},
    # ... and disjoint arguments: each function has its own maxsize budget, nothing is evicted
    {"kind": "alru", "target": "fn", "decos": [{"km": "first", "maxsize": 2}],
     "fns": [{"deco": 0, "sig": {"pos": [[0, None]], "kw": [], "varkw": False}}, {"deco": 0, "sig": {"pos": [[0, None]], "kw": [], "varkw": False}}],
     "ops": [_call(0, [1], [], fn=0), _call(1, [2], [], fn=0), _call(2, [3], [], fn=1), _call(3, [4], [], fn=1),
             _call(4, [1], [], fn=0), _call(5, [2], [], fn=0), _call(6, [3], [], fn=1), _call(7, [4], [], fn=1)]},
    # one acached_per_instance() object on two methods of one class, one alazy_constant() object on two functions
    {"kind": "inst", "decos": 1,
     "fns": [{"deco": 0, "sig": {"pos": [[0, None]], "kw": [], "varkw": False}}, {"deco": 0, "sig": {"pos": [[0, 1]], "kw": [], "varkw": False}}],
     "ops": [_call(0, [1], [], inst=0, fn=0), _call(1, [], [], inst=0, fn=1), _call(2, [1], [], inst=0, fn=0), _call(3, [1], [], inst=0, fn=1),
             {"op": "drop", "inst": 0}, _call(4, [1], [], inst=0, fn=1)]},
    {"kind": "lazy", "decos": [{"ttl": 10}], "fns": [{"deco": 0}, {"deco": 0}], "now0": 100,
     "ops": [_call(0, [], [], fn=0), _call(1, [], [], fn=1), {"op": "dirty", "fn": 0}, _call(2, [], [], fn=1), _call(3, [], [], fn=0),
             {"op": "tick", "dt": 11}, _call(4, [], [], fn=1), _call(5, [], [], fn=0), _call(6, [], [], fn=0)]},
]


def _corpus():
    out = []
    for c in CORPUS_RAW:
        c = json.loads(json.dumps(c))
        c["meta"] = {"corpus": True}
        c["tree"] = case_tree(c)
        out.append(c)
    return out


CORPUS = _corpus()


def model_input(c):
    return coqrun.coq_of(c.get("tree") or case_tree(c))


def canon(c):
    return json.dumps({k: v for k, v in c.items() if k not in ("meta", "tree", "idx")}, sort_keys=True)


# --------------------------------------------------------------------------------------------- reference
_SIGFN = {}


def _sigfn(sig, method):
    k = json.dumps([sig, method])
    f = _SIGFN.get(k)
    if f is None:
        parts = ["self"] if method else []
        for n, d in sig["pos"]:
            parts.append(pname(n) if d is None else "%s=%d" % (pname(n), d))
        if sig["kw"]:
            parts.append("*")
            for n, d in sig["kw"]:
                parts.append(pname(n) if d is None else "%s=%d" % (pname(n), d))
        if sig["varkw"]:
            parts.append("**kwargs")
        ns = {}
        exec("def f(%s): pass" % ", ".join(parts), ns)
        f = _SIGFN[k] = inspect.signature(ns["f"])
    return f


def normalise(sig, method, args, kw):
    """the call's bound arguments as Python itself binds them; None if they do not bind"""
    s = _sigfn(sig, method)
    try:
        ba = s.bind(*args, **{pname(n): v for n, v in kw})
    except TypeError:
        return None
    ba.apply_defaults()
    items = []
    for name, v in ba.arguments.items():
        if name == "kwargs":
            items.append((name, tuple(sorted(v.items()))))
        else:
            items.append((name, v))
    return tuple(items)


def _custom_key(km, args, kw):
    if km == "first":
        return ("first", args[0] if args else -1)
    if km == "const":
        return ("const",)
    return ("sum", (sum(args) + sum(v for _, v in kw)) % km[1])


class _Ref:
    """the reference cache of the statement, for one case"""

    def __init__(self, c):
        self.c = c
        self.kind = c["kind"]
        self.lru = []            # alru: [key, value, producer id] oldest first
        self.inst = {}           # inst: instance -> {key: (value, producer)}
        self.pending = {}        # (id, inst) -> (key, body)
        self.lazy = {"has": False, "at": None, "dirty": False, "val": None, "now": c.get("now0", 0)}
        self.evictions = 0
        self.hits = 0
        self.misses = 0
        self.forced = 0
        self.drops = 0
        self.first_call_of_key = {}
        self.gens = bool(c.get("gens"))
        self.gen = {}            # generations: slot -> generation of the instance now in it
        self.pend_slot = {}      # generations: id of a pending call -> slot of its instance
        self.key_at = {}         # call id -> the key it had when it was made (the generation of a slot changes)
        self.stale = 0           # calls of a new generation whose remaining arguments a dead generation still has in the LRU

    def key(self, o):
        c = self.c
        method = c["kind"] == "alru" and c["target"] == "method"
        args = ([("I", o["inst"])] if method else []) + list(o["args"])
        if c["kind"] == "alru" and c["km"] != "default":
            return _custom_key(c["km"], o["args"], o["kw"]), normalise(c["sig"], False, o["args"], o["kw"]) is not None
        n = normalise(c["sig"], method or c["kind"] == "inst", ([None] if (method or c["kind"] == "inst") else []) + list(o["args"]), o["kw"])
        if n is None:
            return None, False
        if method:
            # the instance is an argument like any other; an instance is a (slot, generation) pair
            n = (("self", (o["inst"], self.gen.get(o["inst"], 0)) if self.gens else o["inst"]),) + n[1:]
        elif c["kind"] == "inst":
            n = n[1:]
        return n, True

    # ---- stores
    def lookup(self, o, k):
        if self.kind == "alru":
            for j, e in enumerate(self.lru):
                if e[0] == k:
                    self.lru.append(self.lru.pop(j))
                    return e
            return None
        d = self.inst.setdefault(o["inst"], {})
        return d.get(k)

    def put(self, o_inst, k, v, producer):
        if self.kind == "alru":
            for j, e in enumerate(self.lru):
                if e[0] == k:
                    self.lru.pop(j)
                    self.lru.append([k, v, producer])
                    return
            if len(self.lru) >= self.c["maxsize"]:
                self.lru.pop(0)
                self.evictions += 1
            self.lru.append([k, v, producer])
        else:
            if o_inst in self.inst:
                self.inst[o_inst][k] = [k, v, producer]


def _res_name(r):
    return r if isinstance(r, str) else next(iter(r))


def walk(c, impl_rs=None, body_runs=None):
    """Walks the history with the reference cache.  Without impl_rs: returns the reference object
    (statistics for nontrivial()).  With impl_rs (the implementation's per-op results): returns the
    list of findings, stopping at the first deviation (later ones are its consequences)."""
    R = _Ref(c)
    kind = c["kind"]
    fs = []
    if kind == "alru" and c["maxsize"] <= 0:
        return R if impl_rs is None else fs
    tag = kind if kind != "alru" else "alru:%s:%s" % (c["km"] if isinstance(c["km"], str) else "sum", c["target"])
    if c.get("gens"):
        tag += ":generations"
    if c.get("_family"):        # the projection of a family history onto one of its functions (see family_monitors)
        tag += ":" + c["_family"]
    producers = {}     # value -> ids of the calls whose bodies produced it (one id for the unique integers, several for payloads)
    spell_of = {}      # producer id -> spelling
    # LRU-order clauses are only attributable when the lookups and stores seen so far were keyed the way the reference
    # keys them.  Two bodies that overlap (one pending when the other starts) under *different spellings* are the one
    # situation in which a key construction that distinguishes spellings can diverge from the reference silently
    # (both miss legitimately, the stores land in different / shared entries); deviations after that are qualified.
    taint = [False]
    pend_spell = {}    # (id, inst) -> spelling of pending calls
    def q(site):
        return ("after-overlapping-respelled-misses:" + site) if taint[0] else site
    ran = set(body_runs or [])

    def finding(clause, site, msg, k):
        fs.append(dict(clause=clause, site="%s:%s" % (tag, site), msg="op %d: %s" % (k, msg)))

    for k, o in enumerate(c["ops"]):
        got = None
        size = None
        if impl_rs is not None:
            g = impl_rs[k]
            if kind == "lazy":
                got = g
            else:
                got = g[""][0]
                size = g[""][1:]
        name = o["op"]
        if kind == "lazy":
            L = R.lazy
            if L["now"] <= 0 or c["ttl"] < 0:
                return R if impl_rs is None else fs          # clock outside the monitored stream
            if name == "tick":
                if o["dt"] < 0:
                    return R if impl_rs is None else fs
                L["now"] += o["dt"]
                if L["now"] <= 0:
                    return R if impl_rs is None else fs
                continue
            if name == "dirty":
                L["dirty"] = True
                continue
            if name == "finish":
                p = R.pending.pop((o["id"], None), None)
                if p is None:
                    want = "RNoop"
                elif p[1][0] == "ret":
                    want = {"RDone": [p[1][1]]}
                    L.update(has=True, at=L["now"], dirty=False, val=p[1][1])
                else:
                    want = {"RRaise": [p[1][1]]}
                if impl_rs is not None and got != want:
                    finding("refines-reference", "finish:%s-instead-of-%s" % (_res_name(got), _res_name(want)),
                            "finish of call %d reported %s, the reference cache says %s" % (o["id"], got, want), k)
                    return fs
                continue
            # call
            if not L["has"]:
                why = "never-computed"
            elif L["dirty"]:
                why = "dirty"
            elif c["ttl"] != 0 and L["at"] < L["now"] - c["ttl"]:
                why = "ttl-expired"
            else:
                why = None
            if why is None:
                R.hits += 1
                want = {"RHit": [L["val"]]}
                if impl_rs is not None and got != want:
                    if _res_name(got) in ("RMiss", "RPending", "RRaise"):
                        finding("lazy-recompute", "recompute-when-fresh", "the constant was recomputed (%s) although it was computed at %s, now=%s, ttl=%s and not dirtied"
                                % (got, L["at"], L["now"], c["ttl"]), k)
                    else:
                        finding("lazy-recompute", "wrong-cached-value", "returned %s, the cached constant is %s" % (got, L["val"]), k)
                    return fs
                continue
            R.misses += 1
            if why != "never-computed":
                R.forced += 1
            if o["bl"]:
                want = "RPending"
                R.pending[(o["id"], None)] = (None, o["body"])
            elif o["body"][0] == "ret":
                want = {"RMiss": [o["body"][1]]}
                L.update(has=True, at=L["now"], dirty=False, val=o["body"][1])
            else:
                want = {"RRaise": [o["body"][1]]}
            if impl_rs is not None:
                if got != want or o["id"] not in ran:
                    if _res_name(got) in ("RHit", "RNone"):
                        finding("lazy-recompute", "no-recompute-when-%s" % why, "returned %s without running the body although the constant is %s" % (got, why), k)
                    elif o["id"] not in ran:
                        finding("errors-not-cached", "%s-without-body-run" % _res_name(got), "call %d reported %s but its body never ran" % (o["id"], got), k)
                    else:
                        finding("refines-reference", "call:%s-instead-of-%s" % (_res_name(got), _res_name(want)), "reported %s, the reference says %s" % (got, want), k)
                    return fs
            continue

        # ------------------------------------------------ alru / inst
        if name == "drop" and R.gens:
            # alru_cache on a method: the program lets go of the instance; whatever the LRU holds for it stays where it
            # is (the reference cache is keyed on the instance like on any argument) but can never be asked for again
            busy = o["inst"] in R.pend_slot.values()
            if impl_rs is not None and got != ("RBusy" if busy else "RUnit"):
                return fs
            if not busy:
                R.gen[o["inst"]] = R.gen.get(o["inst"], 0) + 1
                R.drops += 1
        elif name == "drop":
            busy = any(i == o["inst"] for (_, i) in R.pending)
            if impl_rs is not None and got != ("RBusy" if busy else "RUnit"):
                return fs          # the harness refused / performed the drop differently: not a statement clause
            if not busy and o["inst"] in R.inst:
                R.inst.pop(o["inst"], None)
                R.drops += 1
        elif name == "finish":
            p = R.pending.pop((o["id"], o.get("inst") if kind == "inst" else None), None)
            pend_spell.pop((o["id"], o.get("inst") if kind == "inst" else None), None)
            R.pend_slot.pop(o["id"], None)
            if p is None:
                want = "RNoop"
            elif p[1][0] == "ret":
                want = {"RDone": [p[1][1]]}
                R.put(o.get("inst"), p[0], p[1][1], o["id"])
                producers.setdefault(p[1][1], []).append(o["id"])
            else:
                want = {"RRaise": [p[1][1]]}
            if impl_rs is not None and got != want:
                finding("refines-reference", "finish:%s-instead-of-%s" % (_res_name(got), _res_name(want)),
                        "finish of call %d reported %s, the reference cache says %s" % (o["id"], got, want), k)
                return fs
        else:
            key, binds = R.key(o)
            R.key_at[o["id"]] = key
            spell_of[o["id"]] = (o["args"], sorted(map(tuple, o["kw"])), o.get("inst"))
            if kind == "inst":
                R.inst.setdefault(o["inst"], {})
            if key is None:
                # default key, arguments do not bind: outside the statement.  TypeError is what Python gives;
                # anything else desynchronises the reference, so stop quietly.
                if impl_rs is not None and got != "RTypeError":
                    return fs
            else:
                e = R.lookup(o, key)
                gn = _res_name(got) if impl_rs is not None else None
                # what the reference cache does
                if e is not None:
                    R.hits += 1
                    want = {"RHit": [e[1]]}
                else:
                    R.misses += 1
                    if R.gens and any(_other_instance(x[0], key) and _dead(R, x[0]) for x in R.lru):
                        R.stale += 1
                    if binds and any(sp != spell_of[o["id"]] for sp in pend_spell.values()):
                        taint[0] = True
                    if not binds:
                        want = "RTypeError"
                    elif o["bl"]:
                        want = "RPending"
                        R.pending[(o["id"], o.get("inst") if kind == "inst" else None)] = (key, o["body"])
                        pend_spell[(o["id"], o.get("inst") if kind == "inst" else None)] = spell_of[o["id"]]
                        if R.gens:
                            R.pend_slot[o["id"]] = o["inst"]
                    elif o["body"][0] == "ret":
                        want = {"RMiss": [o["body"][1]]}
                        R.put(o.get("inst"), key, o["body"][1], o["id"])
                    else:
                        want = {"RRaise": [o["body"][1]]}
                if impl_rs is not None:
                    if gn == "RHit":
                        # a value served from the cache: whose is it?
                        v = got["RHit"][0]
                        # its producer: the latest body that returned it - for a payload (a value several bodies return)
                        # the latest one under this call's own key (and instance), if there is one
                        cands = producers.get(v, [])
                        src = cands[-1] if cands else None
                        for cid in reversed(cands):
                            if _key_of_id(R, c, cid) == key and (kind != "inst" or spell_of[cid][2] == o.get("inst")):
                                src = cid
                                break
                        srckey = _key_of_id(R, c, src) if src is not None else None
                        if src is None:
                            finding("refines-reference", "hit-unknown-value", "returned %s which no completed body produced" % v, k)
                        elif R.gens and _other_instance(srckey, key):
                            dead = _dead(R, srckey)
                            finding("no-cross-talk", "hit-on-dead-instance-value" if dead else "hit-on-other-live-instance-value",
                                    "call %d %s on the instance in slot %d (generation %d) received %s without running its body; that value was "
                                    "computed by call %d on a different instance, the one of generation %d in slot %d%s; the reference cache has "
                                    "nothing for the instance called"
                                    % (o["id"], _show(o), key[0][1][0], key[0][1][1], v, src, srckey[0][1][1], srckey[0][1][0],
                                       ", which the program had dropped before" if dead else ""), k)
                        elif srckey != key:
                            if kind == "inst" and spell_of[src][2] != spell_of[o["id"]][2]:
                                finding("per-instance-independent", "hit-on-other-instance-value",
                                        "call %d on instance %s received %s, the value computed by call %d on instance %s" % (o["id"], o["inst"], v, src, spell_of[src][2]), k)
                            else:
                                finding("no-cross-talk", "hit-on-different-args",
                                        "call %d %s (normalised %s) received %s, the value computed by call %d %s (normalised %s)"
                                        % (o["id"], _show(o), key, v, src, spell_of[src], srckey), k)
                        elif e is None:
                            if kind == "inst":
                                finding("vanish-with-instance", "hit-after-drop", "call %d received %s computed by call %d before the instance was dropped" % (o["id"], v, src), k)
                            else:
                                finding("size-and-lru", q("hit-on-evicted-key"), "call %d received %s (from call %d) although an LRU cache of size %d has evicted that key"
                                        % (o["id"], v, src, c["maxsize"]), k)
                        elif e[1] != v:
                            finding("refines-reference", "%s:hit-stale-value" % ("same-spelling" if spell_of.get(e[2]) == spell_of.get(src) else "respelled-args"), "returned %s (from call %d), the reference cache holds the later value %s for key %s" % (v, src, e[1], key), k)
                    elif e is not None:
                        same = spell_of.get(e[2]) == spell_of[o["id"]]
                        vq = (":stored-value-" + PAYLOAD_NAMES[e[1]]) if is_payload(e[1]) else ""
                        finding("refines-reference", (("%s:body-rerun-on-cached-args" % q("same-spelling")) if same else "respelled-args:body-rerun-on-cached-args") + vq,
                                "call %d %s has the same normalised arguments/key %s as call %d %s whose value %s the reference cache still holds, "
                                "but it was not served from the cache (%s)" % (o["id"], _show(o), key, e[2], spell_of.get(e[2]), e[1], got), k)
                    elif binds and o["id"] not in ran and gn in ("RRaise", "RMiss", "RDone", "RNone", "RPending"):
                        finding("errors-not-cached", "%s-without-body-run" % gn, "call %d reported %s but its body never ran" % (o["id"], got), k)
                    elif got != want:
                        finding("refines-reference", "call:%s-instead-of-%s" % (gn, _res_name(want)), "reported %s, the reference says %s" % (got, want), k)
                    if fs:
                        return fs
                if want not in ("RPending", "RTypeError") and _res_name(want) == "RMiss":
                    producers.setdefault(o["body"][1], []).append(o["id"])
        # sizes
        if impl_rs is not None and size is not None:
            if kind == "alru" and size[0] >= 0:
                if size[0] > c["maxsize"]:
                    finding("size-and-lru", "size-exceeds-maxsize", "len(cache) = %d > maxsize = %d" % (size[0], c["maxsize"]), k)
                    return fs
                if c.get("_family") and not taint[0] and size[0] != len(R.lru):
                    # every decorated function has its own maxsize budget: its cache holds what its own reference LRU holds
                    finding("size-and-lru", "entry-count-differs-from-own-reference",
                            "this function's cache holds %d entries, its own reference LRU (maxsize %d) holds %d"
                            % (size[0], c["maxsize"], len(R.lru)), k)
                    return fs
            if kind == "inst" and size[0] >= 0:
                if size[0] != len(R.inst):
                    site = "entry-survives-drop" if size[0] > len(R.inst) else "live-instance-entry-missing"
                    finding("vanish-with-instance", site, "%d per-instance caches exist, %d instances are alive and were called" % (size[0], len(R.inst)), k)
                    return fs
                tot = sum(len(d) for d in R.inst.values())
                if size[1] != tot:
                    finding("refines-reference", "entry-count-differs", "%d entries cached, the reference holds %d" % (size[1], tot), k)
                    return fs
    return R if impl_rs is None else fs


def _show(o):
    return "(%s)" % ", ".join([str(a) for a in o["args"]] + ["%s=%s" % (pname(n), v) for n, v in o["kw"]])


def _other_instance(k1, k2):
    """two keys of a method with instance generations: same remaining arguments, different instance (slot, generation)"""
    return bool(k1 and k2 and k1[0][0] == "self" and k2[0][0] == "self" and k1[1:] == k2[1:] and k1[0][1] != k2[0][1])


def _dead(R, k):
    """is the instance in key k one the program has dropped?"""
    slot, g = k[0][1]
    return R.gen.get(slot, 0) != g


def _key_of_id(R, c, cid):
    if cid in R.key_at:
        return R.key_at[cid]
    for o in c["ops"]:
        if o["op"] == "call" and o["id"] == cid:
            return R.key(o)[0]
    return None


# --------------------------------------------------------------------------------------------- families
def fn_conf(c, f):
    """the configuration function f of a family was decorated with"""
    fd = c["fns"][f]
    d = c["decos"][fd["deco"]] if c["kind"] != "inst" else {}
    return fd, d


def sharing_of(c, f):
    d = c["fns"][f]["deco"]
    n = sum(1 for g in c["fns"] if g["deco"] == d)
    return "shared-decorator-object" if n > 1 else "own-decorator-object"


def project(c, f):
    """The history as function f alone sees it: its own calls / finishes / dirty(), plus what is common to the family
    (drops of instances, clock ticks).  Returns (single-function case, indices of the kept operations)."""
    fd, d = fn_conf(c, f)
    keep = [k for k, o in enumerate(c["ops"]) if o.get("fn", f) == f or o["op"] in ("drop", "tick")]
    pc = {"kind": c["kind"], "ops": [c["ops"][k] for k in keep],
          "_family": "family:%s" % sharing_of(c, f)}
    if c["kind"] == "alru":
        pc.update(target=c["target"], km=d["km"], maxsize=d["maxsize"], sig=fd["sig"])
    elif c["kind"] == "inst":
        pc.update(sig=fd["sig"])
    else:
        pc.update(ttl=d["ttl"], now0=c["now0"])
    return pc, keep


def family_monitors(c, rs, runs):
    """The reference of the statement for a family of decorated functions is one independent reference cache per
    function (per method and instance; per lazy constant).  (1) isolation clauses on the interleaved history,
    (2) every function's projection of the history against its own reference cache."""
    kind = c["kind"]
    nf = len(c["fns"])
    fs = []
    if kind == "alru" and any(d["maxsize"] <= 0 for d in c["decos"]):
        return [dict(clause="size-and-lru", site="alru:accepts-nonpositive-maxsize", msg="alru_cache(maxsize<=0) was accepted")]
    tag0 = kind if kind != "alru" else "alru:%s" % c["target"]
    fn_of_call = {o["id"]: o.get("fn") for o in c["ops"] if o["op"] == "call"}
    producer = {o["body"][1]: o for o in c["ops"] if o["op"] == "call" and o["body"][0] == "ret" and not is_payload(o["body"][1])}

    def res_of(k):
        g = rs[k]
        return g if kind == "lazy" else g[""][0]

    # (1a) a miss must run the body of THAT function
    for e in runs:
        cid, bf = e[""]
        if cid in fn_of_call and bf != fn_of_call[cid]:
            fs.append(dict(clause="no-cross-talk", site="%s:%s:body-of-other-function-ran" % (tag0, sharing_of(c, fn_of_call[cid])),
                           msg="call %d of function %d was computed by the body of function %s" % (cid, fn_of_call[cid], bf)))
            break
    # (1b) a value served from the cache must have been computed by that function's own body
    for k, o in enumerate(c["ops"]):
        if o["op"] != "call":
            continue
        g = res_of(k)
        if _res_name(g) == "RHit":
            v = g["RHit"][0]
            po = producer.get(v)
            if po is not None and po.get("fn") != o.get("fn"):
                same = (po["args"], sorted(map(tuple, po["kw"])), po.get("inst")) == (o["args"], sorted(map(tuple, o["kw"])), o.get("inst"))
                fs.append(dict(clause="no-cross-talk",
                               site="%s:%s:hit-on-other-function-value:%s" % (tag0, sharing_of(c, o["fn"]), "same-spelling" if same else "other-spelling"),
                               msg="op %d: call %d of function %d %s received %s without running its body; that value was computed by call %d "
                                   "of function %d %s" % (k, o["id"], o["fn"], _show(o), v, po["id"], po["fn"], _show(po))))
                break
    # (2) per function: its projection against its own reference cache
    run_ids = {}
    for e in runs:
        cid, bf = e[""]
        run_ids.setdefault(bf, []).append(cid)
    for f in range(nf):
        pc, keep = project(c, f)
        prs = []
        for k in keep:
            g = rs[k]
            if kind == "lazy":
                prs.append(g)
            elif kind == "alru":
                prs.append({"": [g[""][0], g[""][1][f]]})
            else:
                prs.append({"": [g[""][0]] + list(g[""][1][f][""])})
        sub = walk(pc, prs, run_ids.get(f, []))
        if fs and fs[0]["clause"] == "no-cross-talk":
            # the projection sees a value of another function as a value nobody produced: same deviation as (1)
            sub = [x for x in sub if not x["site"].endswith(":hit-unknown-value")]
        for x in sub:
            m = re.match(r"op (\d+): (.*)", x["msg"], re.S)
            if m:       # index in the family history, not in the projection
                x["msg"] = "op %d: %s" % (keep[int(m.group(1))], m.group(2))
            x["msg"] = "function %d of %d (%s): %s" % (f, nf, sharing_of(c, f), x["msg"])
        fs += sub
    if not fs:
        seen = set()
        for e in runs:
            cid = e[""][0]
            if cid in seen:
                fs.append(dict(clause="refines-reference", site="%s:body-ran-twice" % kind, msg="the body of call %s ran twice" % cid))
                break
            seen.add(cid)
    return fs


def family_stats(c):
    """reference statistics of a family (for nontrivial / distribution)"""
    st = {"hits": 0, "misses": 0, "evictions": 0, "forced": 0, "drops": 0, "called": set(), "keys": {}}
    for f in range(len(c["fns"])):
        pc, _ = project(c, f)
        if pc["kind"] == "alru" and pc["maxsize"] <= 0:
            continue
        R = walk(pc)
        st["hits"] += R.hits
        st["misses"] += R.misses
        st["evictions"] += R.evictions
        st["forced"] += R.forced
        st["drops"] = max(st["drops"], R.drops)
        ks = set()
        for o in pc["ops"]:
            if o["op"] == "call":
                st["called"].add(f)
                if c["kind"] != "lazy":
                    ks.add(json.dumps([R.key(o)[0], o.get("inst") if c["kind"] == "inst" else None]))
        st["keys"][f] = ks
    return st


def family_collides(st):
    fs = sorted(st["keys"])
    return any(st["keys"][a] & st["keys"][b] for i, a in enumerate(fs) for b in fs[i + 1:])


def monitors(c, io, build):
    if "out" not in io:
        return [dict(clause="refines-reference", site="%s:%s" % (c["kind"], next(iter(io)).lower()),
                     msg="the history did not run to completion: %s" % json.dumps(io)[:200])]
    out = io["out"]
    if out == "OBadMaxsize":
        if c["kind"] == "alru" and ((not is_family(c) and c["maxsize"] <= 0) or (is_family(c) and any(d["maxsize"] <= 0 for d in c["decos"]))):
            return []
        return [dict(clause="refines-reference", site="decorator:rejects-valid-maxsize", msg="the decorator raised ValueError for maxsize=%s" % c.get("maxsize"))]
    (ctor, (rs, runs)), = out.items()
    if is_family(c):
        return family_monitors(c, rs, runs)
    if c["kind"] == "alru" and c["maxsize"] <= 0:
        return [dict(clause="size-and-lru", site="alru:accepts-nonpositive-maxsize", msg="alru_cache(maxsize=%s) was accepted" % c["maxsize"])]
    fs = walk(c, rs, runs)
    # the body of a call runs at most once
    if not fs:
        seen = set()
        for i in runs:
            if i in seen:
                fs.append(dict(clause="refines-reference", site="%s:body-ran-twice" % c["kind"], msg="the body of call %s ran twice" % i))
                break
            seen.add(i)
    return fs


def _open_known():
    """is the default-key defect still recorded as an open (status: known) finding?"""
    import os
    p = os.path.join(os.path.dirname(os.path.abspath(__file__)), "..", "..", "known", "C13.json")
    try:
        return any(k.get("status") == "known" and "default" in k.get("site", "") for k in json.load(open(p)))
    except (OSError, ValueError):
        return False


KEY_DEFECT_OPEN = _open_known()


def compare(c, m, io):
    fixed, src = m[""]
    if "out" not in io:
        return "the implementation did not complete the history: %s" % json.dumps(io)[:100]
    out = io["out"]
    order = io.get("order")
    if order is not None and order != sorted(order):
        return "the gated operations were not performed in history order: %s" % order[:30]
    if out == fixed:
        return None
    if out == src and KEY_DEFECT_OPEN:
        # While known/C13.json lists the default-key defect as open, behaviour equal to the model of the
        # *unrepaired* key construction is accepted by the correspondence; every statement-level symptom of it is
        # still reported by the monitors (as KNOWN-FINDING).  Once the entry is marked fixed this branch is dead.
        return None
    if out == src:
        return ("implementation differs from Cache.run_case (repaired key construction) but equals Cache.run_case_src "
                "(the key construction of the unrepaired tree, tools.py:229)")
    return "results / cache sizes / body-run log differ between Cache.run_case and the implementation"


def nontrivial(c):
    if is_family(c):
        # >= 2 functions called, the reference caches see a hit and a miss, and the functions meet: coinciding
        # normalised arguments / keys in two functions (alru, per-instance), or a forced recomputation (lazy)
        st = family_stats(c)
        if len(st["called"]) < 2 or st["hits"] < 1 or st["misses"] < 1:
            return False
        return st["forced"] >= 1 if c["kind"] == "lazy" else (family_collides(st) or st["evictions"] >= 1)
    R = walk(c)
    if c.get("gens"):
        # a fresh instance asks for what a dropped instance still has in the reference LRU, and something is hit
        return R.hits >= 1 and R.drops >= 1 and R.stale >= 1
    if c["kind"] == "alru":
        return R.hits >= 1 and R.misses >= 1 and R.evictions >= 1
    if c["kind"] == "inst":
        insts = {o.get("inst") for o in c["ops"] if o["op"] == "call"}
        return R.hits >= 1 and R.misses >= 1 and (len(insts) >= 2 or R.drops >= 1)
    return R.hits >= 1 and R.misses >= 1 and R.forced >= 1


def distribution(cases):
    d = {"kind": {}, "km": {}, "maxsize": {}, "oplen": {}, "malformed": 0, "exhaustive_spelling_pairs": 0, "blocking_calls": 0,
         "raising_bodies": 0, "calls": 0, "drops": 0, "finishes": 0, "sig_positional": {}, "sig_defaults": {}, "sig_kwonly": {}, "sig_varkw": 0,
         "payload_bodies": {}, "cases_with_payload_hit_expected": 0,
         "generations": {"cases": 0, "drops_performed": 0, "cases_with_dead_generation_entry_asked_again": 0},
         "family": {"cases": 0, "kind": {}, "functions": {}, "decorator_sharing": {}, "same_signature": 0,
                    "coinciding_keys_across_functions": 0, "reference_evictions": 0}}
    for c in cases:
        if is_family(c):
            F = d["family"]
            F["cases"] += 1
            k = c["kind"] + (":" + c["target"] if c["kind"] == "alru" else "")
            F["kind"][k] = F["kind"].get(k, 0) + 1
            nf = len(c["fns"])
            F["functions"][str(nf)] = F["functions"].get(str(nf), 0) + 1
            nd = len({f["deco"] for f in c["fns"]})
            sh = "all-one-object" if nd == 1 else "all-separate" if nd == nf else "mixed"
            F["decorator_sharing"][sh] = F["decorator_sharing"].get(sh, 0) + 1
            if c["kind"] != "lazy":
                F["same_signature"] += 1 if all(f["sig"] == c["fns"][0]["sig"] for f in c["fns"]) else 0
                st = family_stats(c)
                F["coinciding_keys_across_functions"] += 1 if family_collides(st) else 0
                F["reference_evictions"] += 1 if st["evictions"] else 0
        k = ("family:" if is_family(c) else "") + c["kind"] + (":" + c["target"] if c["kind"] == "alru" else "") + (":generations" if c.get("gens") else "")
        d["kind"][k] = d["kind"].get(k, 0) + 1
        if c.get("gens") and c["maxsize"] > 0:
            G = d["generations"]
            Rg = walk(c)
            G["cases"] += 1
            G["drops_performed"] += Rg.drops
            G["cases_with_dead_generation_entry_asked_again"] += 1 if Rg.stale else 0
        if c["kind"] == "alru" and not is_family(c):
            km = c["km"] if isinstance(c["km"], str) else "sum"
            d["km"][km] = d["km"].get(km, 0) + 1
            d["maxsize"][str(c["maxsize"])] = d["maxsize"].get(str(c["maxsize"]), 0) + 1
        if c["kind"] != "lazy" and not is_family(c):
            s = c["sig"]
            for nm, val in (("sig_positional", len(s["pos"])), ("sig_defaults", sum(1 for _, x in s["pos"] + s["kw"] if x is not None)), ("sig_kwonly", len(s["kw"]))):
                d[nm][str(val)] = d[nm].get(str(val), 0) + 1
            d["sig_varkw"] += 1 if s["varkw"] else 0
        L = len(c["ops"])
        b = "1-3" if L <= 3 else "4-10" if L <= 10 else "11-30" if L <= 30 else "31+"
        d["oplen"][b] = d["oplen"].get(b, 0) + 1
        m = c.get("meta", {})
        d["malformed"] += 1 if m.get("malformed") else 0
        d["exhaustive_spelling_pairs"] += 1 if m.get("exhaustive") else 0
        seenpay = set()
        rehit = False
        for o in c["ops"]:
            if o["op"] == "call" and o["body"][0] == "ret" and is_payload(o["body"][1]):
                nm = PAYLOAD_NAMES[o["body"][1]]
                d["payload_bodies"][nm] = d["payload_bodies"].get(nm, 0) + 1
                sk = json.dumps([o.get("fn"), o.get("inst"), o["args"], sorted(o["kw"]), o["body"][1]])
                rehit = rehit or sk in seenpay
                seenpay.add(sk)
        d["cases_with_payload_hit_expected"] += 1 if rehit else 0
        for o in c["ops"]:
            if o["op"] == "call":
                d["calls"] += 1
                d["blocking_calls"] += 1 if o["bl"] else 0
                d["raising_bodies"] += 1 if o["body"][0] == "raise" else 0
            elif o["op"] == "drop":
                d["drops"] += 1
            elif o["op"] == "finish":
                d["finishes"] += 1
    return d


def shrink(c):
    ops = c["ops"]

    def mk(nops, **kw):
        n = {k: v for k, v in c.items() if k not in ("tree", "idx", "meta")}
        n = json.loads(json.dumps(n))
        n["ops"] = json.loads(json.dumps(nops))
        n.update(kw)
        n["meta"] = {"shrunk": True}
        n["tree"] = case_tree(n)
        return n
    # drop a suffix, then single ops
    for cut in (len(ops) // 2, len(ops) - 1):
        if 0 < cut < len(ops):
            yield mk(ops[:cut])
    for i in range(len(ops)):
        yield mk(ops[:i] + ops[i + 1:])
    for i, o in enumerate(ops):
        if o["op"] == "call" and o["bl"]:
            o2 = dict(o, bl=False)
            yield mk(ops[:i] + [o2] + ops[i + 1:])
    if is_family(c):
        # fewer functions: drop the last function when no operation addresses it
        nf = len(c["fns"])
        if nf > 2 and all(o.get("fn", 0) != nf - 1 for o in ops):
            yield mk(ops, fns=c["fns"][:-1])
