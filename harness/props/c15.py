"""C15 — fn.asyncio() under an event loop matches the asynq result.

Case = {"root": LEAF, "mode0": bool, "probes": [LEAF], ...}.  The caller coroutine does
`await root.asyncio(arg)` in its own context (flag mode0), keeps running, looks at is_asyncio_mode() and
then makes the plain synchronous calls g(arg) listed in "probes".  AST:

  V (a value)   None | int | {"x": i} a fresh VErr(i) instance (Exception subclass) used as DATA
                | {"bx": i} a fresh VBase(i) instance (BaseException subclass) used as data
  S (what a yield statement yields)
      None | {"c": V} ConstFuture(V) | {"bad": n} the int n | {"t": FN} | {"px": PX}
      | {"tuple": [S]} | {"list": [S]} | {"dict": [[key, S], ...]}
  FN  {"id", "kind": gen|plain|method, "afn": none|twin|native, "delay", "allow", "body": [STMT], "fn": key (optional)}
      "id" names the ACTIVATION (it is the argument of the call); "fn" names the FUNCTION OBJECT: all nodes with the
      same key are calls of one decorated function (same kind/afn/allow), which finds its statement list by its
      argument - recursion, a function called again by its callees, several activations in one yielded list.
      Without "fn" the node has a function object of its own.
      "afn": "native" = the function is decorated with asyncio_fn=<the user's own `async def`>, which is the SAME statement
      list written natively: {"y": call leaf} is `acc.append(await g.asyncio(arg))` (only single call leaves), {"sync": ..}
      the same plain synchronous call, try/except/raise/return the same; it first suspends "delay" times.
  PX  {"id", "kind": fn|method, "ret": {"c": V} | {"t": FN}}          an @async_proxy() function
  STMT {"y": S, "site": n}            acc.append((yield S))
       {"try": [STMT], "exc": [STMT]} try: ... except Exception as e: acc.append({-1: id(e)}); ...
         ... "keep": true             ... except Exception as e: acc.append(e); ...   (the instance itself, as data)
       {"raise": eid} | {"ret": 1}    raise VErr(eid) | return acc
       {"retv": [V]}                  return V          (a bare value instead of the accumulator)
       {"retlast": 1}                 return acc[-1] if acc else None
       {"push": V}                    acc.append(V)
       {"sync": LEAF}                 acc.append(g(arg))   -- a plain synchronous call
  a body that falls off its end returns acc (the list of everything it received).
"""
import json

from ..lib import coqrun

PROP = "C15"
COQ_IMPORTS = ["Asyncio"]
COQ_FN = "Asyncio.run_case"
IMPL = "c15_impl.py"
SHARD = 120
RULE = ("batch-free tree programs: 1..30 @asynq() functions / methods / plain (non-generator) functions / @async_proxy() "
        "functions, each body a list of yield / try-except / raise / return statements (try nested to depth 3, handlers "
        "that yield again), yield structures None / ConstFuture / task / proxy / nested tuple-list-dict to depth 3 incl. "
        "empty ones, with or without an explicit asyncio_fn (native coroutine with 0..3 suspensions, or a coroutine "
        "awaiting the converted twin), started from a context whose flag is off (85%) or already on; about 10% of the cases "
        "contain plain synchronous calls (with/without allow_sync_call); 12% malformed stream (non-futures inside "
        "structures, bare int yields); about half of the cases use exception INSTANCES AS DATA (15-60% of their values): "
        "ConstFuture(exc), a proxy returning it, `return exc` from a generator / plain function / native asyncio_fn, an except "
        "clause that keeps the caught instance and returns it (`return acc[-1]`), Exception and BaseException subclasses, as "
        "members of tuple/list/dict yields (about a quarter of all cases) and as bare yields; bodies return the accumulator, a bare "
        "value or the last thing received; FUNCTION IDENTITY: call nodes are activations, and in about 40% of the cases several "
        "activations are calls of ONE decorated function object (post-hoc grouping of nodes with the same kind/asyncio_fn/"
        "allow_sync_call in a third of the random cases; 140 directed recursion cases: 1..3 functions calling themselves / each "
        "other to depth 1..5 through bare yields, list/tuple/dict members, two calls per level, a proxy or an intermediate "
        "function, with try/except at some levels, bottoms that return or raise) - a function is re-entered while an outer "
        "activation of it is still running in about 30% of all cases (nesting 2..5+); THE CALLER GOES ON: in about half of the cases "
        "the awaiting coroutine makes 1-2 plain synchronous calls of @asynq()/@async_proxy() functions after the await (a third of "
        "them of a function that is also used inside the awaited tree); EXPLICIT asyncio_fn WITH A BODY (130 directed cases + a third of the random "
        "cases that have one): the `async def` given as asyncio_fn makes plain synchronous calls of @asynq()/@async_proxy() functions (caught or not, "
        "allow_sync_call or not), awaits converted functions that do, awaits further explicit asyncio_fns, suspends 0-3 times first; it is yielded alone / in "
        "list / tuple / dict / nested, after an earlier suspension of the parent, by functions, methods, twins, behind a proxy, or is itself the root "
        "(awaited outside asyncio mode: its calls run); distinct = different canonical AST; non-trivial = a nested "
        "structure or an except clause that is reached statically")
TRUSTED = ["the asyncio event loop (asyncio.run, ensure_future, asyncio.wait, contextvars copy per Task) is exercised, not modelled",
           "harness/props/c15.py emit: JSON AST -> Gallina resumption (CPS of the statement list); the same AST is interpreted "
           "by real generator closures in harness/impl/c15_impl.py"]
EXPLANATION = ("Twelve Coq theorems (props/C15.v, closed under the global context) about Asyncio.v: drive/resolve/await_leaf/"
               "call_asyncio model decorators.py:109-140,170-230,290-308 and asynq_to_async.py:24-90; eval/unwrap model what the "
               "scheduler computes for a batch-free tree program; values include exception instances used as data (VExc: a member "
               "that returned an exception object succeeded - exception_value_is_data).  Programs are HOAS resumptions (continuations are arbitrary "
               "Gallina functions outcome -> prog), so the theorems hold for every finite program of the class, not for a syntax.  "
               "driveH/run_asyncioH refine them with an explicit heap of AsyncioMode objects (shared by all Tasks, unlike the context) "
               "and the code's choice of one new object per activation (reentrant_mode_confined: the refined run is the abstract "
               "run for every program, whatever function its activations belong to - recursion, re-entrance through callees, parallel "
               "activations - and no run touches an object that existed before; caller_continues: after the await a plain "
               "synchronous call of the caller runs its callee and delivers the callee's own outcome).  "
               "An explicit asyncio_fn is a program of its own (AfNative q) driven WITHOUT AsyncioMode in the flag of its awaiter "
               "(explicit_asyncio_fn_in_subtree: below a converted coroutine - alone or inside any structure - its body sees the flag on and its plain "
               "synchronous calls are refused; awaited outside asyncio mode they run).  "
               "Each generated case is run as root(arg) and as `await root.asyncio(arg)` under asyncio.run in the pure and the "
               "Cython build (activations of one function share one real decorated object, which looks its body up by its argument); "
               "both outcomes, the flag after the await, the outcome/flag/events of every plain synchronous call the caller makes "
               "afterwards and the multiset of body-start/completion/sync-call events "
               "are compared with Asyncio.run_case evaluated by vm_compute; the monitors encode the statement directly on the "
               "implementation's own log (real execution order).")
ASSUMPTIONS = [
    "event-loop assumption (named in Asyncio.v): asyncio.wait(ALL_COMPLETED) returns only after every task finished; each Task "
    "runs on a copy of the context taken at ensure_future; tasks of a batch-free program do not influence each other",
    "program class per DESIGN 5.21 row C15: tasks, ConstFuture, None, nested tuple/list/dict, raise, try/except Exception, return; "
    "no result(), ErrorFuture, lazy Future, batches, shared handles; an @async_proxy() function returns a future (does not raise)",
    "an explicit asyncio_fn is assumed to agree with the asynq function (hypothesis `agree` of asyncio_eq_seq: its body, read as an asynq program, "
    "computes what the asynq function computes; built so by the generator - the same statement list); it awaits single calls (no gather of its own)",
    "raised exceptions are Exception subclasses (BaseException subclasses occur only as values, never raised)",
    "the caller awaits one root at a time (two top-level .asyncio() calls of the same function running concurrently from contexts "
    "with the flag off are not generated); proxies are not shared between activations",
]

# ------------------------------------------------------------------------------------------ AST helpers


def leaf_node(s):
    return s["t"] if "t" in s else s["px"]


def walk_struct(s):
    """yields every sub-structure, pre-order"""
    yield s
    if s is None:
        return
    for key in ("tuple", "list"):
        if key in s:
            for x in s[key]:
                yield from walk_struct(x)
    if "dict" in s:
        for _, x in s["dict"]:
            yield from walk_struct(x)


def struct_leaves(s):
    """direct leaves of a structure, left to right"""
    return [x for x in walk_struct(s) if x is not None and ("t" in x or "px" in x or "c" in x or "bad" in x)]


def walk_stmts(stmts):
    for st in stmts:
        yield st
        if "try" in st:
            yield from walk_stmts(st["try"])
            yield from walk_stmts(st["exc"])


def sub_fns(leaf):
    """every FN/PX node reachable from a leaf, pre-order (dicts)"""
    n = leaf_node(leaf)
    yield n
    if "px" in leaf:
        if "t" in n["ret"]:
            yield from sub_fns(n["ret"])
        return
    for st in walk_stmts(n["body"]):
        if "y" in st:
            for x in walk_struct(st["y"]):
                if x is not None and ("t" in x or "px" in x):
                    yield from sub_fns(x)
        elif "sync" in st:
            yield from sub_fns(st["sync"])


def has_sync(c):
    return any("body" in n and any("sync" in st for st in walk_stmts(n["body"])) for n in sub_fns(c["root"]))


# ------------------------------------------------------------------------------------------ emit: AST -> Gallina
class _Emit:
    def __init__(self):
        self.n = 0

    def fresh(self):
        self.n += 1
        return self.n

    def val(self, v):
        if isinstance(v, dict):
            return "(VExc (%d)%%Z)" % (v["x"] if "x" in v else v["bx"])
        return "VNone" if v is None else "(VInt (%d)%%Z)" % v

    def call(self, fn, px=None):
        """LCall / LPxCall of one activation.  An explicit (native) asyncio_fn is the user's own coroutine with the
        SAME statement list (a yield of a call leaf = `await g.asyncio(arg)`): AfNative <body>, the body bound once."""
        kind = {"gen": "KGen", "plain": "KPlain", "method": "KMethod"}[fn["kind"]]
        head = "LCall" if px is None else "LPxCall (%d)%%Z" % px
        body = self.body(fn["body"])
        if fn["afn"] == "native":
            i = self.fresh()
            return "(let nb%d := %s in %s (mkcfg (%d)%%Z %s (AfNative nb%d)) nb%d)" % (i, body, head, fn["id"], kind, i, i)
        a = {"none": "AfNone", "twin": "AfTwin"}[fn["afn"]]
        return "(%s (mkcfg (%d)%%Z %s %s) %s)" % (head, fn["id"], kind, a, body)

    def leaf(self, s):
        if "c" in s:
            return "(LConst %s)" % self.val(s["c"])
        if "t" in s:
            return self.call(s["t"])
        px = s["px"]
        if "c" in px["ret"]:
            return "(LPxConst (%d)%%Z %s)" % (px["id"], self.val(px["ret"]["c"]))
        return self.call(px["ret"]["t"], px["id"])

    def struct(self, s):
        if s is None:
            return "YNone"
        if "bad" in s:
            return "YBad"
        if "c" in s or "t" in s or "px" in s:
            return "(YLeaf %s)" % self.leaf(s)
        if "tuple" in s:
            return "(YTuple [%s])" % "; ".join(self.struct(x) for x in s["tuple"])
        if "list" in s:
            return "(YList [%s])" % "; ".join(self.struct(x) for x in s["list"])
        if "dict" in s:
            return "(YDict [%s])" % "; ".join("((%d)%%Z, %s)" % (k, self.struct(x)) for k, x in s["dict"])
        raise ValueError(s)

    def body(self, stmts):
        return self.stmts(stmts, "(@nil val)", lambda a: "(Ret (VList %s))" % a, lambda e, a: "(Raise %s)" % e)

    def stmts(self, stmts, acc, kn, ke):
        """acc: Gallina text of the accumulator; kn(acc) / ke(exn, acc): texts of the continuations"""
        if not stmts:
            return kn(acc)
        st, rest = stmts[0], stmts[1:]
        i = self.fresh()
        if "y" in st or "sync" in st:
            head = ("Yield %s" % self.struct(st["y"])) if "y" in st else (
                "Sync %s %s" % ("true" if leaf_node(st["sync"]).get("allow") else "false", self.leaf(st["sync"])))
            return ("(%s (fun o%d : outcome => match o%d with Ok v%d => let a%d := (%s ++ [v%d]) in %s | Err e%d => %s end))"
                    % (head, i, i, i, i, acc, i, self.stmts(rest, "a%d" % i, kn, ke), i, ke("e%d" % i, acc)))
        if "try" in st:
            join = "(fun ja%d : list val => %s)" % (i, self.stmts(rest, "ja%d" % i, kn, ke))
            kj = lambda a: "(j%d %s)" % (i, a)
            kept = ("VExc he%d" if st.get("keep") else "VDict [((-1)%%Z, VInt he%d)]") % i
            handler = "(fun (he%d : exn) (ha%d : list val) => let hb%d := (ha%d ++ [%s]) in %s)" % (
                i, i, i, i, kept, self.stmts(st["exc"], "hb%d" % i, kj, ke))
            kh = lambda e, a: "(h%d %s %s)" % (i, e, a)
            return "(let j%d := %s in let h%d := %s in %s)" % (i, join, i, handler, self.stmts(st["try"], acc, kj, kh))
        if "push" in st:
            return "(let a%d := (%s ++ [%s]) in %s)" % (i, acc, self.val(st["push"]), self.stmts(rest, "a%d" % i, kn, ke))
        if "raise" in st:
            return ke("(%d)%%Z" % st["raise"], acc)
        if "ret" in st:
            return "(Ret (VList %s))" % acc
        if "retv" in st:
            return "(Ret %s)" % self.val(st["retv"][0])
        if "retlast" in st:
            return "(Ret (last %s VNone))" % acc
        raise ValueError(st)


def model_input(c):
    e = _Emit()
    probes = "; ".join("(%s, %s)" % ("true" if leaf_node(pr).get("allow") else "false", e.leaf(pr)) for pr in c.get("probes", []))
    return "%s [%s] %s" % (e.leaf(c["root"]), probes, "true" if c["mode0"] else "false")


def mkcase(root, mode0, probes=(), meta=None):
    probes = list(probes)
    return {"root": root, "mode0": mode0, "probes": probes,
            "tree": {"root": root, "mode0": mode0, "probes": probes}, "meta": meta or {}}


def all_nodes(c):
    """every FN/PX node of the case: the root's tree, then the probes' trees"""
    for leaf in [c["root"]] + list(c.get("probes", [])):
        yield from sub_fns(leaf)


def fn_key(n):
    return n.get("fn", ("own", n["id"]))


def sharing_profile(c):
    """(some function object has >= 2 activations, max number of activations of one function that are nested in each
    other (1 = never re-entered), a probe calls a function that is also used inside the root's tree)"""
    count = {}
    for n in all_nodes(c):
        if "body" in n:
            count[fn_key(n)] = count.get(fn_key(n), 0) + 1
    shared = any(v > 1 for v in count.values())

    def depth(leaf, active):
        n = leaf_node(leaf)
        best = 0
        if "body" in n:
            k = fn_key(n)
            active = dict(active)
            active[k] = active.get(k, 0) + 1
            best = active[k]
            for st in walk_stmts(n["body"]):
                subs = []
                if "y" in st:
                    subs = [x for x in walk_struct(st["y"]) if x is not None and ("t" in x or "px" in x)]
                elif "sync" in st:
                    subs = [st["sync"]]
                for x in subs:
                    best = max(best, depth(x, active))
        elif "t" in n["ret"]:
            best = depth(n["ret"], active)
        return best
    nest = depth(c["root"], {}) if shared else 1
    inroot = {fn_key(n) for n in sub_fns(c["root"]) if "body" in n and "fn" in n}
    pshare = any("body" in n and fn_key(n) in inroot for pr in c.get("probes", []) for n in sub_fns(pr))
    return shared, nest, pshare


# ------------------------------------------------------------------------------------------ generator
class _Gen:
    def __init__(self, rng, malformed, sync, budget, xp=0.0):
        self.rng = rng
        self.xp = xp              # probability that a generated value is an exception instance (used as data)
        self.malformed = malformed
        self.sync = sync
        self.budget = budget      # remaining number of call nodes
        self.nid = 0
        self.nsite = 0
        self.neid = 0

    def new_id(self):
        self.nid += 1
        return self.nid

    def val(self):
        r = self.rng
        if self.xp and r.random() < self.xp:
            return {"x": self.eid()} if r.random() < 0.85 else {"bx": self.eid()}
        return None if r.random() < 0.15 else r.randrange(0, 40)

    def ret_stmt(self):
        """one of the three return forms: the accumulator, a bare value, the last thing received/caught"""
        x = self.rng.random()
        if x < 0.5:
            return {"ret": 1}
        if x < 0.78:
            return {"retv": [self.val()]}
        return {"retlast": 1}

    def leaf_body(self):
        """yield-free body for plain functions / native coroutines / sync callees"""
        r = self.rng.random()
        pre = [{"push": self.val()}] if self.rng.random() < 0.8 else []
        x = self.rng.random()
        if x < (0.3 if self.xp else 0.08):
            # return a bare value / catch the own error and hand it back as data
            if self.rng.random() < 0.6:
                return pre + [{"retv": [self.val()]}]
            return [{"try": pre + [{"raise": self.eid()}], "exc": [], "keep": self.rng.random() < 0.8}, {"retlast": 1}]
        if r < 0.55:
            return pre
        if r < 0.8:
            return pre + [{"raise": self.eid()}]
        if r < 0.9:
            return [{"try": pre + [{"raise": self.eid()}], "exc": []}]
        return [{"try": [{"raise": self.eid()}], "exc": pre + [{"raise": self.eid()}]}]

    def eid(self):
        self.neid += 1
        return 100 + self.neid

    def fn(self, depth, callee=False):
        r = self.rng
        self.budget -= 1
        nid = self.new_id()
        node = {"id": nid, "kind": "gen", "afn": "none", "delay": 0, "allow": False, "body": []}
        leafy = callee or depth <= 0 or self.budget <= 0 or (r.random() < 0.3 and nid > 1)
        if leafy:
            node["body"] = self.leaf_body()
            node["kind"] = r.choice(["gen", "gen", "plain", "plain", "method"])
            x = r.random()
            if callee:
                node["allow"] = node["kind"] != "proxy" and r.random() < 0.3
            elif x < 0.3:
                node["afn"] = "native"
                node["delay"] = r.choice([0, 1, 1, 2, 3])
            elif x < 0.4:
                node["afn"] = "twin"
        else:
            node["kind"] = r.choice(["gen", "gen", "gen", "method"])
            if r.random() < 0.1:
                node["afn"] = "twin"
            node["body"] = self.stmts(depth, 0)
        return node

    def px(self, depth, callee=False):
        r = self.rng
        nid = self.new_id()
        node = {"id": nid, "kind": r.choice(["fn", "fn", "method"])}
        if r.random() < 0.3:
            node["ret"] = {"c": self.val()}
        else:
            node["ret"] = {"t": self.fn(depth - 1, callee)}
        return node

    def call_leaf(self, depth, callee=False):
        if self.rng.random() < 0.15:
            return {"px": self.px(depth, callee)}
        return {"t": self.fn(depth - 1, callee)}

    def struct(self, depth, sdepth):
        r = self.rng
        x = r.random()
        if self.malformed and x < 0.08:
            return {"bad": r.randrange(0, 9)}
        if x < 0.08:
            return None
        if x < 0.2:
            return {"c": self.val()}
        if x < 0.62 or sdepth >= 3:
            if self.budget <= 0:
                return {"c": self.val()}
            return self.call_leaf(depth)
        n = r.choice([0, 1, 2, 2, 3, 3, 4])
        kind = r.choice(["tuple", "list", "list", "dict"])
        items = [self.struct(depth, sdepth + 1) for _ in range(n)]
        if kind == "dict":
            keys = r.sample(range(0, 12), n)
            return {"dict": [[k, it] for k, it in zip(keys, items)]}
        return {kind: items}

    def stmts(self, depth, tdepth):
        r = self.rng
        out = []
        for _ in range(r.choice([1, 1, 2, 2, 3, 4])):
            x = r.random()
            if x < 0.6:
                self.nsite += 1
                site = self.nsite
                out.append({"y": self.struct(depth, 0), "site": site})
            elif x < 0.8 and tdepth < 3:
                st = {"try": self.stmts(depth, tdepth + 1), "exc": self.stmts(depth, tdepth + 1) if r.random() < 0.6 else []}
                if r.random() < (0.4 if self.xp else 0.05):
                    st["keep"] = True
                out.append(st)
            elif x < 0.85:
                out.append({"raise": self.eid()})
            elif x < 0.88:
                out.append(self.ret_stmt())
            elif x < 0.91:
                out.append({"push": self.val()})
            elif self.sync:
                out.append({"sync": self.call_leaf(0, callee=True)})
            else:
                self.nsite += 1
                site = self.nsite
                out.append({"y": self.struct(depth, 0), "site": site})
        return out


def gen_case(rng):
    malformed = rng.random() < 0.12
    sync = rng.random() < 0.15
    xp = rng.choice([0, 0, 0, 0, 0.15, 0.3, 0.3, 0.6])
    g = _Gen(rng, malformed, sync, rng.choice([1, 2, 3, 5, 8, 12, 20, 30]), xp)
    depth = rng.choice([1, 2, 2, 3, 3, 4])
    x = rng.random()
    if x < 0.1:
        root = {"px": g.px(depth)}
    else:
        root = {"t": g.fn(depth)}
    return mkcase(root, rng.random() < 0.15, (), {"malformed": malformed, "sync": sync, "xval": xp > 0})


# ---- the function-identity dimension: which activations are calls of the same function object, and what the caller
# ---- does after the await
def _max_id(c):
    return max(n["id"] for n in all_nodes(c))


def add_probes(c, rng, n=None):
    """the caller's plain synchronous calls after the await: small yield-free callees (function / method / plain / proxy)"""
    g = _Gen(rng, False, False, 3, rng.choice([0, 0, 0.3]))
    g.nid = _max_id(c)
    g.neid = 700
    for _ in range(n if n is not None else rng.choice([1, 1, 2])):
        c["probes"].append(g.call_leaf(0, callee=True))
    c["tree"]["probes"] = c["probes"]


def share_functions(c, rng, eager=False):
    """post-hoc: put call nodes with the same (kind, afn, allow) into common function objects - nested ones
    (recursion / re-entered through a callee), siblings of one yield, cousins, the probes' callees"""
    groups = {}
    for n in all_nodes(c):
        if "body" in n:
            groups.setdefault((n["kind"], n["afn"], bool(n.get("allow"))), []).append(n)
    k = 0
    for sig in sorted(groups, key=str):
        nodes = groups[sig]
        if len(nodes) < 2:
            continue
        ncls = 1 if eager else rng.choice([1, 1, 2, 3])
        for n in nodes:
            if rng.random() < (0.95 if eager else 0.8):
                n["fn"] = "s%d_%d" % (k, rng.randrange(ncls))
        k += 1


def gen_rec_case(rng):
    """directed: a group of 1..3 functions that call each other / themselves to depth 1..5 (fact, fib, countdown-then-raise,
    mutual recursion), links as bare yields or inside list/tuple/dict, behind a proxy, with try/except at some levels"""
    nfun = rng.choice([1, 1, 1, 2, 2, 3])
    depth = rng.choice([1, 2, 2, 3, 3, 4, 5])
    kind = rng.choice(["gen", "gen", "gen", "method"])
    afn = rng.choice(["none", "none", "none", "none", "twin"])
    xp = rng.choice([0, 0, 0, 0.3])
    st = {"id": 0, "site": 0, "eid": 0, "budget": rng.choice([6, 10, 16, 24])}

    def val():
        if xp and rng.random() < xp:
            st["eid"] += 1
            return {"x": 300 + st["eid"]}
        return None if rng.random() < 0.15 else rng.randrange(0, 40)

    def site():
        st["site"] += 1
        return st["site"]

    def eid():
        st["eid"] += 1
        return 300 + st["eid"]

    def other(body):
        st["id"] += 1
        return {"t": {"id": st["id"], "kind": rng.choice(["gen", "plain", "method"]), "afn": "none", "delay": 0, "allow": False, "body": body}}

    def act(level, f):
        st["id"] += 1
        st["budget"] -= 1
        node = {"id": st["id"], "kind": kind, "afn": afn, "delay": 0, "allow": False, "body": [], "fn": "r%d" % f}
        if level >= depth or st["budget"] <= 0:
            x = rng.random()
            node["body"] = ([] if x < 0.25 else [{"retv": [val()]}] if x < 0.5 else [{"raise": eid()}] if x < 0.8
                            else [{"push": val()}, {"y": {"c": val()}, "site": site()}])
            return node
        body = []
        if rng.random() < 0.3:
            body.append(rng.choice([{"push": val()}, {"y": {"c": val()}, "site": site()}]))
        for _ in range(rng.choice([1, 1, 1, 2])):
            nxt = lambda: {"t": act(level + 1, rng.randrange(nfun))}
            link = rng.choice(["bare", "bare", "bare", "list", "tuple", "dict", "two", "two", "px", "via"])
            if link == "bare":
                y = nxt()
            elif link == "list":
                y = {"list": [nxt()] + ([{"c": val()}] if rng.random() < 0.4 else [])}
            elif link == "tuple":
                y = {"tuple": ([other([{"raise": eid()}] if rng.random() < 0.4 else [])] if rng.random() < 0.5 else []) + [nxt()]}
            elif link == "dict":
                y = {"dict": [[rng.randrange(0, 5), nxt()], [7, {"list": [nxt()] if rng.random() < 0.5 else []}]]}
            elif link == "two":
                y = {rng.choice(["tuple", "list"]): [nxt(), nxt()]}
            elif link == "px":
                st["id"] += 1
                pid = st["id"]
                y = {"px": {"id": pid, "kind": rng.choice(["fn", "method"]), "ret": nxt()}}
            else:
                # re-entered through a callee that is a different function
                st["id"] += 1
                mid = st["id"]
                y = {"t": {"id": mid, "kind": "gen", "afn": "none", "delay": 0, "allow": False,
                           "body": [{"y": nxt() if rng.random() < 0.6 else {"list": [nxt()]}, "site": site()}, {"retlast": 1}]}}
            stmt = {"y": y, "site": site()}
            if rng.random() < 0.3:
                stmt = {"try": [stmt], "exc": [{"y": {"c": val()}, "site": site()}] if rng.random() < 0.5 else []}
                if rng.random() < 0.3:
                    stmt["keep"] = True
            body.append(stmt)
        x = rng.random()
        if x < 0.2:
            body.append({"retlast": 1})
        elif x < 0.3:
            body.append({"retv": [val()]})
        elif x < 0.36:
            body.append({"raise": eid()})
        node["body"] = body
        return node

    root = {"t": act(0, 0)}
    if rng.random() < 0.08:
        st["id"] += 1
        root = {"px": {"id": st["id"], "kind": "fn", "ret": root}}
    c = mkcase(root, rng.random() < 0.15, (), {"rec": True})
    if rng.random() < 0.85:
        add_probes(c, rng)
        if rng.random() < 0.35:
            # the caller calls (synchronously) a function of the recursive group itself: a yield-free activation of it
            pr = c["probes"][0]
            if "t" in pr:
                pr["t"].update(kind=kind, afn=afn, delay=0, allow=False, fn="r0")
    return c


# ---- the explicit-asyncio_fn dimension (round s8): an explicit asyncio_fn is a coroutine with a BODY of its own - it makes
# ---- plain synchronous calls, awaits other functions, looks at the flag - and it sits somewhere in the subtree of a
# ---- running .asyncio() computation (or is awaited from outside asyncio mode)
def _max_site(c):
    return max([st["site"] for n in all_nodes(c) if "body" in n for st in walk_stmts(n["body"]) if "y" in st] or [0])


def _wrap_sync(rng, callee):
    st = {"sync": callee}
    return {"try": [st], "exc": []} if rng.random() < 0.65 else st


def add_native_bodies(c, rng):
    """post-hoc: the explicit asyncio_fns of a random case (yield-free bodies so far) get plain synchronous calls and
    awaits of further functions"""
    g = _Gen(rng, False, False, 3, rng.choice([0, 0, 0.3]))
    g.nid = _max_id(c)
    g.neid = 800
    site = _max_site(c)
    changed = False
    for n in list(sub_fns(c["root"])):
        if n.get("afn") != "native" or rng.random() < 0.35:
            continue
        changed = True
        x = rng.random()
        pos = rng.randrange(0, len(n["body"]) + 1)
        if x < 0.6 or n["kind"] == "plain":
            n["body"].insert(pos, _wrap_sync(rng, g.call_leaf(0, callee=True)))
        else:
            # `await g.asyncio(arg)`: g converted, with a plain synchronous call of its own half of the time
            g.nid += 1
            cid = g.nid
            body = [_wrap_sync(rng, g.call_leaf(0, callee=True))] if rng.random() < 0.5 else g.leaf_body()
            child = {"id": cid, "kind": rng.choice(["gen", "method"]), "afn": "none", "delay": 0, "allow": False, "body": body}
            site += 1
            n["body"].insert(pos, {"y": {"t": child}, "site": site})
            if rng.random() < 0.3:
                n["body"].insert(rng.randrange(0, len(n["body"]) + 1), _wrap_sync(rng, g.call_leaf(0, callee=True)))
    if changed:
        c["meta"]["native_bodies"] = True
    return changed


def gen_native_case(rng):
    """directed: converted parents (function / method / twin) that yield children with an explicit asyncio_fn - alone, in
    list / tuple / dict, nested, after a suspension - whose coroutine bodies call @asynq() functions synchronously, await
    converted functions that do, await further explicit asyncio_fns; roots that are themselves explicit asyncio_fns or
    proxies (awaited outside asyncio mode: the calls run)"""
    st = {"id": 0, "site": 0, "eid": 0, "budget": rng.choice([3, 4, 6, 9])}
    xp = rng.choice([0, 0, 0, 0.3])

    def nid():
        st["id"] += 1
        return st["id"]

    def site():
        st["site"] += 1
        return st["site"]

    def eid():
        st["eid"] += 1
        return 500 + st["eid"]

    def val():
        if xp and rng.random() < xp:
            return {"x": eid()}
        return None if rng.random() < 0.15 else rng.randrange(0, 40)

    def callee():
        x = rng.random()
        body = [] if x < 0.3 else [{"push": val()}] if x < 0.6 else [{"retv": [val()]}] if x < 0.8 else [{"raise": eid()}]
        if rng.random() < 0.15:
            return {"px": {"id": nid(), "kind": rng.choice(["fn", "method"]), "ret": {"c": val()}}}
        return {"t": {"id": nid(), "kind": rng.choice(["gen", "gen", "method", "plain"]), "afn": "none", "delay": 0,
                      "allow": rng.random() < 0.15, "body": body}}

    def ending(body):
        x = rng.random()
        if x < 0.2:
            body.append({"retlast": 1})
        elif x < 0.3:
            body.append({"retv": [val()]})
        elif x < 0.36:
            body.append({"raise": eid()})
        return body

    def native(level):
        st["budget"] -= 1
        node = {"id": nid(), "kind": "gen", "afn": "native", "delay": rng.choice([0, 0, 1, 2, 3]), "allow": False, "body": []}
        body = []
        what = rng.choice(["sync", "sync", "sync", "sync2", "flag", "await-conv", "await-conv", "await-native"])
        if level >= 3 or st["budget"] <= 0:
            what = rng.choice(["sync", "sync", "flag"])
        if what == "flag":
            body = [{"push": val()}] if rng.random() < 0.5 else []
        elif what == "sync":
            body = [_wrap_sync(rng, callee())]
            if rng.random() < 0.3:
                body.insert(rng.randrange(2), {"push": val()})
        elif what == "sync2":
            body = [_wrap_sync(rng, callee()), _wrap_sync(rng, callee())]
        else:
            child = conv(level + 1, small=True) if what == "await-conv" else native(level + 1)
            aw = {"y": {"t": child}, "site": site()}
            if rng.random() < 0.3:
                aw = {"try": [aw], "exc": []}
            body = [aw]
            if rng.random() < 0.5:
                body.insert(rng.randrange(2), _wrap_sync(rng, callee()))
        node["body"] = ending(body)
        has_y = any("y" in x for x in walk_stmts(node["body"]))
        node["kind"] = rng.choice(["gen", "gen", "method"] if has_y else ["gen", "gen", "method", "plain"])
        return node

    def conv(level, small=False):
        st["budget"] -= 1
        node = {"id": nid(), "kind": rng.choice(["gen", "gen", "method"]), "afn": rng.choice(["none", "none", "none", "twin"]),
                "delay": 0, "allow": False, "body": []}
        body = []
        if small or level >= 3 or st["budget"] <= 0:
            x = rng.random()
            body = [_wrap_sync(rng, callee())] if x < 0.6 else [{"y": {"t": native(level + 1)}, "site": site()}] if (x < 0.85 and level < 3) else []
            node["body"] = ending(body)
            return node
        if rng.random() < 0.3:
            # one step of the loop (and, with a delay, a real suspension) before the interesting yield
            pre = {"t": native(3)} if rng.random() < 0.5 else {"c": val()}
            body.append({"y": pre, "site": site()})
        if rng.random() < 0.15:
            body.append(_wrap_sync(rng, callee()))
        for _ in range(rng.choice([1, 1, 1, 2])):
            def child():
                x = rng.random()
                return {"t": native(level + 1)} if x < 0.7 else {"t": conv(level + 1)} if x < 0.85 else {"c": val()}
            link = rng.choice(["bare", "bare", "list", "tuple", "dict", "nested", "two"])
            if link == "bare":
                y = {"t": native(level + 1)}
            elif link == "list":
                y = {"list": [child()] + ([None] if rng.random() < 0.3 else [])}
            elif link == "tuple":
                y = {"tuple": ([{"c": val()}] if rng.random() < 0.4 else []) + [child()]}
            elif link == "dict":
                y = {"dict": [[rng.randrange(0, 5), child()], [7, {"list": [child()] if rng.random() < 0.5 else []}]]}
            elif link == "nested":
                y = {"dict": [[0, {"list": [child(), None]}], [1, {"tuple": [{"c": val()}, child()]}]]}
            else:
                y = {rng.choice(["tuple", "list"]): [child(), child()]}
            stmt = {"y": y, "site": site()}
            if rng.random() < 0.35:
                stmt = {"try": [stmt], "exc": [{"y": {"c": val()}, "site": site()}] if rng.random() < 0.4 else []}
                if rng.random() < 0.3:
                    stmt["keep"] = True
            body.append(stmt)
        node["body"] = ending(body)
        return node

    x = rng.random()
    if x < 0.72:
        root = {"t": conv(0)}
    elif x < 0.86:
        root = {"t": native(0)}
    elif x < 0.95:
        root = {"px": {"id": nid(), "kind": rng.choice(["fn", "method"]), "ret": {"t": native(1) if rng.random() < 0.6 else conv(1)}}}
    else:
        root = {"t": conv(0, small=True)}
    c = mkcase(root, rng.random() < 0.15, (), {"native": True})
    if rng.random() < 0.3:
        add_probes(c, rng, 1)
    if rng.random() < 0.2:
        share_functions(c, rng)
    return c


def _exhaustive_native():
    """thorough tier: parent kind x link x position of the suspension x what the explicit asyncio_fn does x delay x flag"""
    cases = []
    for pkind in ("gen", "method"):
        for pafn in ("none", "twin"):
            for link in ("bare", "list", "tuple", "dict", "nested", "via-native", "via-conv", "via-px"):
                for what in ("sync", "sync-caught", "flag", "await-conv-sync", "sync-allow"):
                    for ckind in ("gen", "method", "plain"):
                        for delay in (0, 2):
                            for pre in (False, True):
                                for mode0 in (False, True):
                                    if what == "await-conv-sync" and ckind == "plain":
                                        continue
                                    ids = iter(range(1, 100))
                                    sites = iter(range(1, 100))
                                    rid = next(ids)
                                    cal = {"t": _fn(next(ids), [{"push": 1}], "gen", allow=(what == "sync-allow"))}
                                    if what in ("sync", "sync-allow"):
                                        cb = [{"sync": cal}]
                                    elif what == "sync-caught":
                                        cb = [{"try": [{"sync": cal}], "exc": []}]
                                    elif what == "flag":
                                        cb = [{"push": 2}]
                                    else:
                                        cb = [{"y": {"t": _fn(next(ids), [{"try": [{"sync": cal}], "exc": []}])}, "site": next(sites)}]
                                    child = {"t": _fn(next(ids), cb, ckind, "native", delay)}
                                    if link == "via-native":
                                        child = {"t": _fn(next(ids), [{"y": child, "site": next(sites)}], "gen", "native", 1)}
                                    elif link == "via-conv":
                                        child = {"t": _fn(next(ids), [{"y": {"list": [child]}, "site": next(sites)}])}
                                    elif link == "via-px":
                                        child = {"px": {"id": next(ids), "kind": "fn", "ret": child}}
                                    y = (child if link in ("bare", "via-native", "via-conv", "via-px") else {"list": [child, None]} if link == "list"
                                         else {"tuple": [{"c": 1}, child]} if link == "tuple" else {"dict": [[3, child]]} if link == "dict"
                                         else {"dict": [[0, {"list": [child, None]}], [1, {"tuple": [{"c": 2}]}]]})
                                    body = [{"try": [{"y": y, "site": next(sites)}], "exc": []}]
                                    if pre:
                                        body.insert(0, {"y": {"t": _fn(next(ids), [], "gen", "native", 1)}, "site": next(sites)})
                                    root = {"t": _fn(rid, body, pkind, pafn)}
                                    cases.append(mkcase(root, mode0, (), {"exhaustive": "native"}))
    return cases


def _exhaustive_rec():
    """thorough tier: every small recursion shape - depth x link x bottom x where it is caught x 1|2 functions x kind x flag"""
    cases = []
    for depth in (1, 2, 3, 4):
        for link in ("bare", "list", "tuple", "dict", "two"):
            for bottom in ("ret", "raise"):
                for caught in ("no", "root", "mid"):
                    for nfun in (1, 2):
                        for kind in ("gen", "method"):
                            for mode0 in (False, True):
                                ids = iter(range(1, 200))
                                sites = iter(range(1, 200))

                                def act(level, budget=[14]):
                                    i = next(ids)
                                    budget[0] -= 1
                                    node = _fn(i, [], kind)
                                    node["fn"] = "r%d" % (level % nfun)
                                    if level >= depth or budget[0] <= 0:
                                        node["body"] = [{"raise": 400 + i}] if bottom == "raise" else [{"retv": [i]}]
                                        return node
                                    nx = lambda: {"t": act(level + 1)}
                                    y = (nx() if link == "bare" else {"list": [nx()]} if link == "list" else
                                         {"tuple": [{"c": 1}, nx()]} if link == "tuple" else {"dict": [[3, nx()]]} if link == "dict"
                                         else {"tuple": [nx(), nx()]})
                                    stmt = {"y": y, "site": next(sites)}
                                    if (caught == "root" and level == 0) or (caught == "mid" and level == 1):
                                        stmt = {"try": [stmt], "exc": []}
                                    node["body"] = [stmt]
                                    return node
                                root = {"t": act(0, [14])}
                                probe = {"t": _fn(next(ids), [{"retv": [5]}], "gen")}
                                cases.append(mkcase(root, mode0, [probe], {"exhaustive": "rec"}))
    return cases


def _exhaustive_small():
    """every structure of a small grammar around one failing / one succeeding child (thorough tier)"""
    cases = []

    def leaf(i, fail, xret=False):
        return {"t": {"id": i, "kind": "gen", "afn": "none", "delay": 0, "allow": False,
                      "body": [{"raise": 100 + i}] if fail else [{"retv": [{"x": 200 + i}]}] if xret else []}}
    atoms = ["ok", "fail", "const", "none", "xconst", "xok"]
    shapes = []
    for a in atoms:
        for b in atoms:
            for wrap in ("tuple", "list", "dict"):
                for inner in (None, "tuple", "list", "dict"):
                    shapes.append((a, b, wrap, inner))
    for (a, b, wrap, inner) in shapes:
        ids = iter(range(2, 90))

        def atom(k):
            if k == "ok":
                return leaf(next(ids), False)
            if k == "fail":
                return leaf(next(ids), True)
            if k == "const":
                return {"c": 7}
            if k == "xconst":
                return {"c": {"x": 300 + next(ids)}}
            if k == "xok":
                return leaf(next(ids), False, True)
            return None

        def mk(kind, items):
            if kind == "dict":
                return {"dict": [[i, x] for i, x in enumerate(items)]}
            return {kind: items}
        x, y = atom(a), atom(b)
        if inner:
            s = mk(wrap, [x, mk(inner, [y, leaf(next(ids), True)]), leaf(next(ids), False)])
        else:
            s = mk(wrap, [x, y])
        for caught in (False, True):
            st = {"y": s, "site": 1}
            body = [{"try": [st], "exc": [{"y": leaf(next(ids), False), "site": 2}]}] if caught else [st]
            root = {"t": {"id": 1, "kind": "gen", "afn": "none", "delay": 0, "allow": False, "body": body}}
            cases.append(mkcase(root, False, (), {"exhaustive": True}))
    return cases


def gen_cases(rng, tier):
    n = 500 if tier == "quick" else 12000
    cs = [gen_case(rng) for _ in range(n)]          # (same PRNG stream as before the function-identity dimension)
    # decorate a part of them afterwards: shared function objects, plain synchronous calls after the await
    for c in cs:
        x = rng.random()
        if x < 0.4:
            add_probes(c, rng)
        if x < 0.25 or x > 0.85:
            share_functions(c, rng, eager=x > 0.93)
    nrec = 140 if tier == "quick" else 3000
    cs = cs + [gen_rec_case(rng) for _ in range(nrec)]
    # (draws of the explicit-asyncio_fn dimension come last: the cases above are the same as before it existed, except
    # that a third of those with an explicit asyncio_fn get coroutine bodies that do something)
    for c in cs[:n]:
        if not c["probes"] and not any("fn" in nd for nd in all_nodes(c)) and rng.random() < 0.45:
            add_native_bodies(c, rng)
    nnat = 130 if tier == "quick" else 3000
    cs = cs + [gen_native_case(rng) for _ in range(nnat)]
    if tier != "quick":
        cs = _exhaustive_small() + _exhaustive_rec() + _exhaustive_native() + cs
    return [c for c in cs if _valid(c)]


# ------------------------------------------------------------------------------------------ corpus
def _fn(i, body, kind="gen", afn="none", delay=0, allow=False):
    return {"id": i, "kind": kind, "afn": afn, "delay": delay, "allow": allow, "body": body}


def _case(root, mode0=False, probes=()):
    return mkcase(root, mode0, probes, {"corpus": True})


def _rfn(i, key, body, kind="gen", afn="none"):
    n = _fn(i, body, kind, afn)
    n["fn"] = key
    return n


CORPUS = [
    # the nine shapes of test_asynq_to_async, generalised
    _case({"t": _fn(1, [{"y": {"c": 3}, "site": 1}, {"y": None, "site": 2}, {"y": {"list": []}, "site": 3}])}),
    _case({"t": _fn(1, [{"y": {"dict": [[0, {"list": [{"t": _fn(2, [])}, {"t": _fn(3, [], "plain")}]}],
                                         [1, {"tuple": [{"t": _fn(4, [], "method")}, {"c": None}]}],
                                         [2, {"t": _fn(5, [], "plain", "native", 2)}], [3, {"dict": []}], [4, {"tuple": []}]]}, "site": 1}])}),
    # several failures: all awaited, first in structure order raised, caught, then yields again
    _case({"t": _fn(1, [{"try": [{"y": {"list": [{"t": _fn(2, [], "gen", "native", 3)}, {"t": _fn(3, [{"raise": 103}], "gen", "native", 1)},
                                                  {"tuple": [{"t": _fn(4, [{"raise": 104}])}, {"t": _fn(5, [])}]}]}, "site": 1}],
                         "exc": [{"y": {"t": _fn(6, [{"y": {"c": 1}, "site": 3}])}, "site": 2}]},
                        {"y": {"t": _fn(7, [{"raise": 107}])}, "site": 4}])}),
    # nested failure inside a dict inside a tuple; outer earlier sibling fails later in time
    _case({"t": _fn(1, [{"y": {"tuple": [{"t": _fn(2, [{"raise": 102}], "gen", "native", 3)},
                                          {"dict": [[5, {"t": _fn(3, [{"raise": 103}])}], [1, {"t": _fn(4, [])}]]}]}, "site": 1}])}),
    # method root, proxy children, explicit twin
    _case({"t": _fn(1, [{"y": {"list": [{"px": {"id": 2, "kind": "fn", "ret": {"c": 5}}},
                                         {"px": {"id": 3, "kind": "method", "ret": {"t": _fn(4, [{"raise": 104}], "method")}}}]}, "site": 1}],
                    "method", "twin")}),
    _case({"px": {"id": 1, "kind": "fn", "ret": {"t": _fn(2, [{"y": {"px": {"id": 3, "kind": "fn", "ret": {"c": None}}}, "site": 1}])}}}),
    _case({"px": {"id": 1, "kind": "method", "ret": {"c": 9}}}, mode0=True),
    # failure at the root, flag on before
    _case({"t": _fn(1, [{"y": {"t": _fn(2, [{"raise": 102}])}, "site": 1}])}, mode0=True),
    _case({"t": _fn(1, [{"raise": 101}], "plain")}),
    _case({"t": _fn(1, [], "plain", "native", 1)}),
    # non-futures
    _case({"t": _fn(1, [{"try": [{"y": {"bad": 5}, "site": 1}], "exc": []}, {"y": {"list": [{"t": _fn(2, [{"raise": 102}])}, {"bad": 1}]}, "site": 2}])}),
    # plain synchronous calls inside asyncio mode: function, method, proxy, allow_sync_call
    _case({"t": _fn(1, [{"try": [{"sync": {"t": _fn(2, [])}}], "exc": []},
                        {"try": [{"sync": {"t": _fn(3, [], "method")}}], "exc": []},
                        {"try": [{"sync": {"px": {"id": 4, "kind": "fn", "ret": {"t": _fn(5, [])}}}}], "exc": []},
                        {"sync": {"t": _fn(6, [], "plain", allow=True)}},
                        {"y": {"t": _fn(7, [{"sync": {"t": _fn(8, [])}}])}, "site": 1}])}),
    # exception instances as DATA: the minimal case `yield [f.asynq()]` where f does `return VErr(..)`
    _case({"t": _fn(1, [{"y": {"list": [{"t": _fn(2, [{"retv": [{"x": 102}]}])}]}, "site": 1}])}),
    # a dict of validation results: a validator that returns its error, one that catches its own error and hands the
    # caught instance back, a ConstFuture / a proxy / an explicit asyncio_fn holding exception objects, nested
    _case({"t": _fn(1, [{"y": {"dict": [[0, {"list": [{"t": _fn(2, [])},
                                                       {"t": _fn(3, [{"try": [{"raise": 103}], "exc": [], "keep": True}, {"retlast": 1}])},
                                                       {"t": _fn(4, [{"retv": [{"x": 104}]}], "plain", "native", 2)}]}],
                                         [1, {"c": {"bx": 105}}],
                                         [2, {"tuple": [{"px": {"id": 6, "kind": "fn", "ret": {"c": {"x": 106}}}}, {"tuple": [{"c": {"x": 107}}]}]}]]},
                         "site": 1}])}),
    # an exception *value* earlier in structure order than a real failure: the failure is what is raised; the parent keeps
    # the caught instance as data, yields again and returns it
    _case({"t": _fn(1, [{"try": [{"y": {"tuple": [{"t": _fn(2, [{"retv": [{"x": 102}]}], "gen", "native", 1)},
                                                   {"t": _fn(3, [{"raise": 103}])}]}, "site": 1}],
                         "exc": [{"y": {"list": [{"c": {"x": 108}}, {"t": _fn(4, [{"retv": [{"bx": 104}]}], "method")}]}, "site": 2}],
                         "keep": True},
                        {"retlast": 1}])}),
    # ---- re-entered functions (all activations with the same "fn" key are calls of ONE decorated function) + the caller goes on
    # fact(3)-like: f awaits f awaits f, bare yields (awaited in the caller's own context); afterwards the caller calls g(arg)
    _case({"t": _rfn(1, "f", [{"y": {"t": _rfn(2, "f", [{"y": {"t": _rfn(3, "f", [{"retv": [1]}])}, "site": 2}])}, "site": 1}])},
          probes=[{"t": _fn(4, [{"push": 1}], "plain")}]),
    # countdown that finally raises, through a list and a dict; the caller then calls the same function synchronously
    _case({"t": _rfn(1, "f", [{"y": {"list": [{"t": _rfn(2, "f", [{"y": {"dict": [[0, {"t": _rfn(3, "f", [{"raise": 103}])}]]}, "site": 2}])}]},
                               "site": 1}])},
          probes=[{"t": _rfn(4, "f", [{"retv": [9]}])}]),
    # fib-like (two recursive calls in a tuple) of a method, re-entered through a different function g (f -> g -> f), one
    # branch raises and is caught half way; started with the flag off - and the same started inside asyncio mode
    _case({"t": _rfn(1, "f", [{"y": {"tuple": [{"t": _rfn(2, "f", [{"retv": [1]}], "method")},
                                                {"t": _fn(3, [{"try": [{"y": {"t": _rfn(4, "f", [{"y": {"t": _rfn(5, "f", [{"raise": 105}], "method")},
                                                                                                  "site": 3}], "method")}, "site": 2}],
                                                               "exc": []}])}]}, "site": 1}], "method")},
          probes=[{"t": _fn(6, [], "method")}, {"px": {"id": 7, "kind": "fn", "ret": {"c": 4}}}]),
    _case({"t": _rfn(1, "f", [{"y": {"t": _rfn(2, "f", [{"y": {"t": _rfn(3, "f", [])}, "site": 2}])}, "site": 1}])}, mode0=True,
          probes=[{"t": _fn(4, [{"push": 1}])}]),
    # ---- explicit asyncio_fns with a body, in the subtree of a running coroutine (round s8)
    # minimal: parent yields (alone) a child whose `async def` calls leaf(x) synchronously and reports what happened
    _case({"t": _fn(1, [{"y": {"t": _fn(2, [{"try": [{"sync": {"t": _fn(3, [{"push": 1}])}}], "exc": []}], "gen", "native")}, "site": 1}])}),
    # a method parent, one suspension first, then a dict of a list and a tuple: such children as Tasks, next to a converted
    # sibling; one child lets the RuntimeError escape (caught by the parent), one suspends twice before it makes the call
    _case({"t": _fn(1, [{"y": {"t": _fn(2, [], "gen", "native", 2)}, "site": 1},
                        {"try": [{"y": {"dict": [[0, {"list": [{"t": _fn(3, [{"try": [{"sync": {"t": _fn(4, [], "method")}}], "exc": []}],
                                                                           "method", "native", 2)}, None]}],
                                                 [1, {"tuple": [{"t": _fn(5, [{"push": 7}])},
                                                                {"t": _fn(6, [{"sync": {"t": _fn(7, [{"retv": [3]}], "plain")}}], "plain", "native")}]}]]},
                                  "site": 2}], "exc": []}], "method")}),
    # the root itself is an explicit asyncio_fn awaited from outside asyncio mode: its own call runs (flag off there); the
    # converted function it awaits switches the mode on for its subtree - the call made by an explicit asyncio_fn awaited
    # there (inside a list) is refused; afterwards the flag is off again and the root's second call runs
    _case({"t": _fn(1, [{"sync": {"t": _fn(2, [{"push": 1}])}},
                        {"y": {"t": _fn(3, [{"y": {"list": [{"t": _fn(4, [{"try": [{"sync": {"t": _fn(5, [])}}], "exc": []}], "gen", "native", 1)}]},
                                             "site": 2}])}, "site": 1},
                        {"sync": {"t": _fn(6, [{"push": 2}], "method")}}], "gen", "native")}),
]


def _is_xv(v):
    return isinstance(v, dict) and ("x" in v or "bx" in v)


def _returns_exc_value(s):
    """statically: may this direct member of a collection complete successfully with an exception instance as its value"""
    if s is None:
        return False
    if "c" in s:
        return _is_xv(s["c"])
    if "px" in s:
        r = s["px"]["ret"]
        return _is_xv(r["c"]) if "c" in r else _returns_exc_value(r)
    if "t" in s:
        sts = list(walk_stmts(s["t"]["body"]))
        return any(("retv" in st and _is_xv(st["retv"][0])) for st in sts) or (
            any("retlast" in st for st in sts) and any(st.get("keep") or ("push" in st and _is_xv(st["push"])) for st in sts))
    return False


def exc_value_profile(c):
    """(has an exception-instance value anywhere, a collection yield has a member that may complete with one)"""
    anyx = incoll = False
    for n in sub_fns(c["root"]):
        if "ret" in n:
            anyx = anyx or ("c" in n["ret"] and _is_xv(n["ret"]["c"]))
            continue
        for st in walk_stmts(n["body"]):
            if st.get("keep") or ("push" in st and _is_xv(st["push"])) or ("retv" in st and _is_xv(st["retv"][0])):
                anyx = True
            if "y" in st:
                for x in walk_struct(st["y"]):
                    if x is None:
                        continue
                    if "c" in x and _is_xv(x["c"]):
                        anyx = True
                    items = x.get("tuple") or x.get("list") or [y for _, y in x.get("dict", [])]
                    if any(_returns_exc_value(y) for y in items):
                        incoll = True
    return anyx, incoll


def canon(c):
    return json.dumps({"root": c["root"], "mode0": c["mode0"], "probes": c.get("probes", [])}, sort_keys=True)


def nontrivial(c):
    for n in sub_fns(c["root"]):
        for st in walk_stmts(n.get("body", [])):
            if "try" in st:
                return True
            if "y" in st and st["y"] is not None and any(k in st["y"] for k in ("tuple", "list", "dict")) \
                    and any(x is not None and any(k in x for k in ("tuple", "list", "dict")) for x in list(walk_struct(st["y"]))[1:]):
                return True
    return False


def distribution(cases):
    d = {"calls": {}, "root": {}, "kinds": {}, "afn": {}, "struct_depth": {}, "mode0": 0, "malformed": 0, "sync": 0,
         "with_try": 0, "with_failure": 0, "with_proxy": 0, "with_exception_value": 0,
         "collection_member_completes_with_exception_value": 0, "bare_value_return": 0,
         "shared_function_object": 0, "function_reentered_while_running": {}, "with_probe_after_await": 0,
         "probe_calls_function_used_in_tree": 0,
         "explicit_asyncio_fn_with_a_body_that_calls_or_awaits": 0, "explicit_asyncio_fn_sync_call_where_flag_must_be_on": {},
         "explicit_asyncio_fn_sync_call_outside_asyncio_mode": 0, "explicit_asyncio_fn_awaits_a_function": 0}

    def sdepth(s):
        if s is None or not any(k in s for k in ("tuple", "list", "dict")):
            return 0
        items = s.get("tuple") or s.get("list") or [x for _, x in s.get("dict", [])]
        return 1 + max([sdepth(x) for x in items] or [0])
    for c in cases:
        nodes = list(sub_fns(c["root"]))
        n = len(nodes)
        b = "1" if n == 1 else "2-4" if n <= 4 else "5-10" if n <= 10 else "11+"
        d["calls"][b] = d["calls"].get(b, 0) + 1
        d["root"]["px" if "px" in c["root"] else c["root"]["t"]["kind"]] = d["root"].get("px" if "px" in c["root"] else c["root"]["t"]["kind"], 0) + 1
        sd = 0
        tr = fl = px = False
        for nd in nodes:
            if "ret" in nd:
                px = True
                continue
            d["kinds"][nd["kind"]] = d["kinds"].get(nd["kind"], 0) + 1
            d["afn"][nd["afn"]] = d["afn"].get(nd["afn"], 0) + 1
            for st in walk_stmts(nd["body"]):
                tr = tr or "try" in st
                fl = fl or "raise" in st
                if "y" in st:
                    sd = max(sd, sdepth(st["y"]))
        d["struct_depth"][str(sd)] = d["struct_depth"].get(str(sd), 0) + 1
        d["mode0"] += 1 if c["mode0"] else 0
        d["malformed"] += 1 if c.get("meta", {}).get("malformed") else 0
        d["sync"] += 1 if has_sync(c) else 0
        d["with_try"] += tr
        d["with_failure"] += fl
        d["with_proxy"] += px
        ax, ic = exc_value_profile(c)
        d["with_exception_value"] += ax
        d["collection_member_completes_with_exception_value"] += ic
        sh, nest, psh = sharing_profile(c)
        d["shared_function_object"] += sh
        if nest >= 2:
            d["function_reentered_while_running"][str(min(nest, 5))] = d["function_reentered_while_running"].get(str(min(nest, 5)), 0) + 1
        d["with_probe_after_await"] += 1 if c.get("probes") else 0
        d["probe_calls_function_used_in_tree"] += psh
        exp = flag_expectations(c)
        nb = aw = off = False
        for nd in nodes:
            if nd.get("afn") != "native":
                continue
            sts = list(walk_stmts(nd["body"]))
            aw = aw or any("y" in st for st in sts)
            if any("sync" in st or "y" in st for st in sts):
                nb = True
            if any("sync" in st for st in sts) and nd["id"] in exp:
                on, how, _ = exp[nd["id"]]
                if on:
                    key = how.split("-by-")[0]
                    d["explicit_asyncio_fn_sync_call_where_flag_must_be_on"][key] = d["explicit_asyncio_fn_sync_call_where_flag_must_be_on"].get(key, 0) + 1
                else:
                    off = True
        d["explicit_asyncio_fn_with_a_body_that_calls_or_awaits"] += nb
        d["explicit_asyncio_fn_awaits_a_function"] += aw
        d["explicit_asyncio_fn_sync_call_outside_asyncio_mode"] += off
        d["bare_value_return"] += any("retv" in st or "retlast" in st for nd in nodes if "body" in nd for st in walk_stmts(nd["body"]))
    return d


# ------------------------------------------------------------------------------------------ compare
def _sorted_events(evs):
    return sorted(evs, key=lambda e: json.dumps(e, sort_keys=True))


def _project(out):
    seq_out, seq_ev, aio, probes = out[""]
    aio_out, aio_flag, aio_ev = aio[""]
    pr = [[x[""][0], x[""][1], _sorted_events(x[""][2])] for x in probes]
    return [seq_out, _sorted_events(seq_ev), aio_out, aio_flag, _sorted_events(aio_ev), pr]


def compare(c, m, io):
    a, b = _project(m), _project(io["out"])
    names = ["asynq outcome", "asynq body/done/sync events", "asyncio outcome", "flag after the await", "asyncio body/done/sync events",
             "the caller's plain synchronous calls after the await (outcome, flag, events)"]
    for n, x, y in zip(names, a, b):
        if x != y:
            return "%s: model %s, implementation %s" % (n, json.dumps(x)[:300], json.dumps(y)[:300])
    return None


# ------------------------------------------------------------------------------------------ monitors
def _okind(o):
    if "Ok" in o:
        return "value"
    e = o["Err"][0]
    if isinstance(e, dict):
        return "unexpected-exception"
    return {-1: "TypeError", -9: "RuntimeError"}.get(e, "exception")


def _vtree(v):
    """the tree form (as the runner prints values) of an AST value"""
    if isinstance(v, dict):
        return {"VExc": [v["x"] if "x" in v else v["bx"]]}
    return "VNone" if v is None else {"VInt": [v]}


def _shape_ok(s, v):
    """does the value tree v have the shape of the yielded structure s (leaves: anything)"""
    if s is None:
        return v == "VNone"
    if "c" in s:
        return v == _vtree(s["c"])
    if "t" in s or "px" in s:
        return True
    if "bad" in s:
        return False
    for key, ctor in (("tuple", "VTuple"), ("list", "VList")):
        if key in s:
            return isinstance(v, dict) and ctor in v and len(v[ctor][0]) == len(s[key]) and all(
                _shape_ok(x, y) for x, y in zip(s[key], v[ctor][0]))
    if "dict" in s:
        if not (isinstance(v, dict) and "VDict" in v and len(v["VDict"][0]) == len(s["dict"])):
            return False
        return all(kv[""][0] == k and _shape_ok(x, kv[""][1]) for (k, x), kv in zip(s["dict"], v["VDict"][0]))
    return False


def _leaf_values(s, v, out):
    """pairs (call id, value delivered at its position) for task/proxy leaves"""
    if s is None or "c" in s or "bad" in s:
        return
    if "t" in s:
        out.append((s["t"]["id"], v))
    elif "px" in s:
        r = s["px"]["ret"]
        if "t" in r:
            out.append((r["t"]["id"], v))
        else:
            out.append((None, (v, _vtree(r["c"]))))
    elif "tuple" in s or "list" in s:
        for x, y in zip(s.get("tuple", s.get("list")), v["VTuple" if "tuple" in s else "VList"][0]):
            _leaf_values(x, y, out)
    elif "dict" in s:
        for (k, x), kv in zip(s["dict"], v["VDict"][0]):
            _leaf_values(x, kv[""][1], out)


def _call_id(x):
    """id of the @asynq() call behind a leaf of a structure (None for constants / constant proxies)"""
    if "t" in x:
        return x["t"]["id"]
    if "px" in x and "t" in x["px"]["ret"]:
        return x["px"]["ret"]["t"]["id"]
    return None


def _skind(s):
    return "bare" if (s is None or not any(k in s for k in ("tuple", "list", "dict"))) else next(k for k in ("tuple", "list", "dict") if k in s)


def flag_expectations(c):
    """From the statement alone: what is_asyncio_mode() is inside each activation reachable from the root through
    yields / awaits when the root is awaited via .asyncio() from a context whose flag is mode0.  The flag is on in the
    whole subtree of a running converted coroutine; an explicit asyncio_fn does not switch it on itself, so it sees the
    flag of whoever awaits it; a proxy's own function runs converted, what it returns is awaited by the proxy's awaiter.
    {activation id: (flag inside, how it is reached, what it is)}"""
    exp = {}

    def visit(leaf, ctx, how):
        n = leaf_node(leaf)
        if "ret" in n:
            exp[n["id"]] = (True, how, "proxy")
            if "t" in n["ret"]:
                visit(n["ret"], ctx, how + "-through-a-proxy")
            return
        native = n["afn"] == "native"
        inside = ctx if native else True
        what = "explicit-asyncio_fn" if native else n["kind"]
        exp[n["id"]] = (inside, how, what)
        for st in walk_stmts(n["body"]):
            if "y" in st:
                for x in walk_struct(st["y"]):
                    if x is not None and ("t" in x or "px" in x):
                        visit(x, inside, ("awaited-by-%s" % what) if native else "yielded-%s-by-%s" % (_skind(st["y"]), what))
    visit(c["root"], bool(c["mode0"]), "root")
    return exp


def monitors(c, io, build):
    fs = []
    if not isinstance(io, dict) or "aio" not in io:
        return [dict(clause="run", site="runner-output:%s" % (list(io)[:1] if isinstance(io, dict) else type(io).__name__),
                     msg="the case did not run to completion: %s" % json.dumps(io)[:300])]
    seq, aio = io["seq"], io["aio"]
    sync = has_sync(c)
    rootkind = "proxy" if "px" in c["root"] else c["root"]["t"]["kind"] + ("+asyncio_fn" if c["root"]["t"]["afn"] != "none" else "")
    sites = {}
    for n in sub_fns(c["root"]):
        for st in walk_stmts(n.get("body", [])):
            if "y" in st:
                sites[st["site"]] = st["y"]

    # (1) same value or same exception as fn(args)   [programs with plain synchronous calls differ by design: clause 6]
    if not sync and seq["out"] != aio["out"]:
        fs.append(dict(clause="same-outcome", site="%s:asynq-%s:asyncio-%s" % (rootkind, _okind(seq["out"]), _okind(aio["out"])),
                       msg="root(args) gave %s but await root.asyncio(args) gave %s" % (json.dumps(seq["out"])[:200], json.dumps(aio["out"])[:200])))
    for name, run in (("asynq", seq), ("asyncio", aio)):
        if _okind(run["out"]) == "unexpected-exception":
            fs.append(dict(clause="same-outcome", site="%s:%s:unexpected-exception-class" % (rootkind, name),
                           msg="%s run ended with an exception no generated code raises: %s" % (name, json.dumps(run["out"])[:200])))

    # (2)-(4) at every yield under asyncio: all awaited, shape kept, first error in structure order
    log = aio["log"]
    done_pos = {}
    done_out = {}
    for i, ev in enumerate(log):
        if ev[0] == "done":
            done_pos.setdefault(ev[1], i)
            done_out.setdefault(ev[1], ev[2])
    pending = {}
    for i, ev in enumerate(log):
        if ev[0] == "yield":
            pending[(ev[1], ev[2])] = i
        if ev[0] != "resume":
            continue
        s = sites.get(ev[2])
        ypos = pending.get((ev[1], ev[2]), -1)
        got = ev[3]
        leaves = struct_leaves(s)
        skind = "bare" if (s is None or not any(k in s for k in ("tuple", "list", "dict"))) else next(k for k in ("tuple", "list", "dict") if k in s)
        calls = [_call_id(x) for x in leaves if _call_id(x) is not None]
        late = [cid for cid in calls if not (cid in done_pos and ypos < done_pos[cid] < i)]
        if late:
            fs.append(dict(clause="all-awaited", site="%s:%s-resumed-before-all-done" % (skind, "failed" if "Err" in got else "ok"),
                           msg="yield site %d of call %s was resumed with %s while calls %s yielded together with it had not finished" % (
                               ev[2], ev[1], json.dumps(got)[:120], late)))
            continue
        # exception instances that members of this yield completed *successfully* with (their values)
        held = set()
        for x in leaves:
            if "bad" in x:
                continue
            cid = _call_id(x)
            o = done_out.get(cid) if cid is not None else {"Ok": [_vtree((x["c"] if "c" in x else x["px"]["ret"]["c"]))]}
            if o and "Ok" in o and isinstance(o["Ok"][0], dict) and "VExc" in o["Ok"][0]:
                held.add(o["Ok"][0]["VExc"][0])
        # expected first failure in structure order
        first = None
        for x in leaves:
            if "bad" in x:
                first = -1
                break
            cid = _call_id(x)
            if cid is not None and "Err" in done_out[cid]:
                first = done_out[cid]["Err"][0]
                break
        if first is not None:
            if got != {"Err": [first]}:
                what = "value" if "Ok" in got else "exception-object-returned-by-a-member" if (not isinstance(got["Err"][0], dict) and got["Err"][0] in held) else "other-exception"
                fs.append(dict(clause="first-error-in-order", site="%s:%s-instead-of-first-failure" % (skind, what),
                               msg="yield site %d of call %s: the first failure in structure order is %s but the yield delivered %s" % (
                                   ev[2], ev[1], first, json.dumps(got)[:160])))
            continue
        if "Err" in got:
            # nothing yielded here failed.  Is the raised instance one that a member *returned* (its value)?
            if (not isinstance(got["Err"][0], dict) and got["Err"][0] in held):
                fs.append(dict(clause="first-error-in-order", site="%s:exception-object-returned-by-a-member-raised-at-the-yield" % skind,
                               msg="yield site %d of call %s raised %s: no member failed, the raised instance is the *value* a member "
                                   "completed with (members' exception values: %s)" % (ev[2], ev[1], json.dumps(got)[:120], sorted(held))))
            else:
                fs.append(dict(clause="first-error-in-order", site="%s:exception-without-failed-child" % skind,
                               msg="yield site %d of call %s raised %s although nothing yielded there failed" % (ev[2], ev[1], json.dumps(got)[:120])))
            continue
        v = got["Ok"][0]
        if not _shape_ok(s, v):
            fs.append(dict(clause="shape-kept", site="%s:shape-changed" % skind,
                           msg="yield site %d of call %s yielded %s but received %s" % (ev[2], ev[1], json.dumps(s)[:160], json.dumps(v)[:160])))
            continue
        lv = []
        _leaf_values(s, v, lv)
        for cid, val in lv:
            if cid is None:
                if val[0] != val[1]:
                    fs.append(dict(clause="shape-kept", site="%s:constant-proxy-value-changed" % skind,
                                   msg="yield site %d: a proxy returning ConstFuture(%s) delivered %s" % (ev[2], val[1], val[0])))
            elif done_out[cid] != {"Ok": [val]}:
                fs.append(dict(clause="shape-kept", site="%s:value-at-wrong-position" % skind,
                               msg="yield site %d of call %s: position of call %s holds %s but that call returned %s" % (
                                   ev[2], ev[1], cid, json.dumps(val)[:120], json.dumps(done_out[cid])[:120])))

    # (5) try/except behaves the same: the same except clauses caught the same exceptions
    if not sync:
        cs = sorted(json.dumps(ev[1:]) for ev in seq["log"] if ev[0] == "caught")
        ca = sorted(json.dumps(ev[1:]) for ev in aio["log"] if ev[0] == "caught")
        if cs != ca:
            how = "fewer" if len(ca) < len(cs) else "more" if len(ca) > len(cs) else "different"
            fs.append(dict(clause="try-except-same", site="%s:%s-exceptions-caught-under-asyncio" % (rootkind, how),
                           msg="except clauses caught %s on the scheduler but %s under asyncio" % (cs[:6], ca[:6])))

    # (6) the flag is confined to the running coroutine
    okind = "failure" if "Err" in aio["out"] else "value"
    if aio["after"] != aio["before"]:
        fs.append(dict(clause="mode-confined", site="after-%s:before=%s:after=%s" % (okind, aio["before"], aio["after"]),
                       msg="is_asyncio_mode() was %s before `await root.asyncio()` and %s after it (%s)" % (aio["before"], aio["after"], okind)))
    if aio["after_exit"] != "false" or aio["outer_after"] != "false" or aio["outer_before"] != "false":
        fs.append(dict(clause="mode-confined", site="after-%s:flag-leaked-outside-the-loop" % okind,
                       msg="is_asyncio_mode() outside: before run %s, after run %s, after the driver's own AsyncioMode exit %s" % (
                           aio["outer_before"], aio["outer_after"], aio["after_exit"])))
    if seq["flag_before"] != "false" or seq["flag_after"] != "false":
        fs.append(dict(clause="mode-confined", site="flag-on-around-scheduler-run",
                       msg="is_asyncio_mode() was %s/%s around the plain root(args) call" % (seq["flag_before"], seq["flag_after"])))
    # the flag is on inside every converted body (that is what makes clause 7 apply there)
    native = {n["id"] for n in sub_fns(c["root"]) if n.get("afn") == "native"}
    exp = flag_expectations(c)
    # (targets of plain synchronous calls are not in the awaited subtree: refused inside asyncio mode, run by the scheduler
    # when an explicit asyncio_fn awaited from outside asyncio mode makes the call - clause 7 below)
    insubtree = set(exp) if sync else {n["id"] for n in sub_fns(c["root"])}
    for ev in aio["log"]:
        if ev[0] == "body" and ev[1] not in native and ev[1] in insubtree and ev[2] != "true":
            fs.append(dict(clause="mode-confined", site="flag-off-inside-converted-body",
                           msg="body of call %s ran under .asyncio() with is_asyncio_mode() false" % ev[1]))
    for ev in seq["log"]:
        if ev[0] == "body" and ev[2] != "false":
            fs.append(dict(clause="mode-confined", site="flag-on-inside-scheduler-body",
                           msg="body of call %s ran on the scheduler with is_asyncio_mode() true" % ev[1]))
    # ... and it is still on when a converted body goes on after a yield (a nested await must not switch it off under its
    # caller), whatever was awaited there - other activations of the same function included
    shared, nest, _ = sharing_profile(c)
    re_tag = "re-entered-function" if nest >= 2 else "shared-function" if shared else "distinct-functions"
    for ev in aio["log"]:
        if ev[0] == "resume" and len(ev) > 4 and ev[1] not in native and ev[1] in insubtree and ev[4] != "true":
            fs.append(dict(clause="mode-confined", site="flag-off-inside-converted-body-after-a-yield:%s" % re_tag,
                           msg="call %s was resumed at yield site %s under .asyncio() with is_asyncio_mode() false" % (ev[1], ev[2])))
            break
    for ev in seq["log"]:
        if ev[0] == "resume" and len(ev) > 4 and ev[4] != "false":
            fs.append(dict(clause="mode-confined", site="flag-on-inside-scheduler-body-after-a-yield",
                           msg="call %s was resumed at yield site %s on the scheduler with is_asyncio_mode() true" % (ev[1], ev[2])))
            break
    # the flag covers the whole SUBTREE of the running coroutine: a child that comes with an explicit asyncio_fn (which does
    # not enter AsyncioMode itself) sees it on when it is awaited below a converted coroutine - alone or as a member of a
    # tuple / list / dict, at its start and after each of its own awaits - and off when it is awaited outside asyncio mode
    seen_nat = set()
    for ev in aio["log"]:
        if ev[0] == "body" and ev[1] in native and ev[1] in exp:
            when = "at-its-start"
            got = ev[2]
        elif ev[0] == "resume" and len(ev) > 4 and ev[1] in native and ev[1] in exp:
            when = "after-an-await"
            got = ev[4]
        else:
            continue
        want, how, _ = exp[ev[1]]
        if got != ("true" if want else "false") and (ev[1], when) not in seen_nat:
            seen_nat.add((ev[1], when))
            if want:
                fs.append(dict(clause="mode-confined", site="flag-off-inside-explicit-asyncio_fn-below-a-running-coroutine:%s:%s" % (how, when),
                               msg="the explicit asyncio_fn of call %s (%s) ran in the subtree of a running .asyncio() coroutine with "
                                   "is_asyncio_mode() false %s" % (ev[1], how, when)))
            else:
                fs.append(dict(clause="mode-confined", site="flag-on-inside-explicit-asyncio_fn-outside-asyncio-mode:%s:%s" % (how, when),
                               msg="the explicit asyncio_fn of call %s (%s) was awaited from a context outside asyncio mode but saw "
                                   "is_asyncio_mode() true %s" % (ev[1], how, when)))
    # the caller keeps running after the await: with the flag off before the await, asyncio mode is over - a plain
    # synchronous call of an @asynq() function runs (no RuntimeError); with the flag on before, it is still refused
    for k, pr in enumerate(aio.get("probes", [])):
        node = leaf_node(c["probes"][k])
        kinds = [ev[1] for ev in pr["log"] if ev[0] == "sync"]
        kind = kinds[-1] if kinds else "none"
        what = "proxy" if "ret" in node else node["kind"]
        if aio["before"] == "false":
            if pr["flag"] != "false":
                fs.append(dict(clause="mode-confined", site="after-%s:flag-on-after-a-plain-synchronous-call-of-the-caller" % okind,
                               msg="is_asyncio_mode() is %s in the caller after its synchronous call number %d" % (pr["flag"], k)))
            if kind != "SRan":
                fs.append(dict(clause="mode-confined", site="after-%s:plain-synchronous-call-after-the-await-%s:%s" % (
                    okind, {"SRefused": "refused", "SAllowed": "skipped"}.get(kind, kind), what),
                               msg="the caller started outside asyncio mode; after `await root.asyncio()` (%s) its plain synchronous call "
                                   "of call %s did not run the callee: %s, outcome %s" % (okind, node["id"], kind, json.dumps(pr["out"])[:160])))
        else:
            if kind == "SRan" or any(ev[0] == "body" for ev in pr["log"]):
                fs.append(dict(clause="sync-call-refused", site="sync-call-ran-in-asyncio-mode",
                               msg="the caller is inside asyncio mode; its plain synchronous call of call %s after the await ran the callee" % node["id"]))
            elif kind == "SOther":
                fs.append(dict(clause="sync-call-refused", site="sync-call-raised-other-exception",
                               msg="a plain synchronous call inside asyncio mode raised something other than RuntimeError"))
            elif kind == "SAllowed" and not node.get("allow"):
                fs.append(dict(clause="sync-call-refused", site="no-RuntimeError-without-allow_sync_call",
                               msg="the caller is inside asyncio mode; its plain synchronous call of call %s returned without RuntimeError "
                                   "although allow_sync_call is off" % node["id"]))

    # (7) while the flag is on, a plain synchronous call of an @asynq() function raises RuntimeError - at every point of the
    # subtree of the running coroutine: in converted bodies and in the coroutine bodies of explicit asyncio_fns awaited
    # there.  Where the flag is legitimately off (an explicit asyncio_fn awaited from outside asyncio mode) the call runs.
    if sync:
        nodes = {n["id"]: n for n in sub_fns(c["root"])}
        owner_of = {}
        for n in sub_fns(c["root"]):
            for st in walk_stmts(n.get("body", [])):
                if "sync" in st:
                    for m in sub_fns(st["sync"]):
                        owner_of[m["id"]] = n["id"]
        for ev in aio["log"]:
            if ev[0] == "sync":
                me = ev[2] if len(ev) > 2 else None
                callee = nodes.get(ev[3]) if len(ev) > 3 else None
                if me not in exp:
                    continue
                on, how, what = exp[me]
                where = ":inside-explicit-asyncio_fn:%s" % how if what == "explicit-asyncio_fn" else ""
                if on:
                    if ev[1] == "SRan":
                        fs.append(dict(clause="sync-call-refused", site="sync-call-ran-in-asyncio-mode" + where,
                                       msg="call %s (%s, %s) is in the subtree of a running .asyncio() coroutine; its plain synchronous call of "
                                           "an @asynq() function (call %s) ran the callee on the scheduler instead of raising RuntimeError" % (
                                               me, what, how, ev[3] if len(ev) > 3 else "?")))
                    elif ev[1] == "SOther":
                        fs.append(dict(clause="sync-call-refused", site="sync-call-raised-other-exception" + where,
                                       msg="a plain synchronous call inside asyncio mode (made by call %s) raised something other than RuntimeError" % me))
                    elif ev[1] == "SAllowed" and not (callee or {}).get("allow"):
                        fs.append(dict(clause="sync-call-refused", site="no-RuntimeError-without-allow_sync_call" + where,
                                       msg="a plain synchronous call inside asyncio mode (made by call %s) returned without RuntimeError "
                                           "although allow_sync_call is off" % me))
                elif ev[1] != "SRan":
                    fs.append(dict(clause="mode-confined", site="plain-synchronous-call-%s-outside-asyncio-mode%s" % (
                        {"SRefused": "refused", "SAllowed": "skipped"}.get(ev[1], ev[1]), where),
                                   msg="call %s (%s, %s) runs outside asyncio mode, but its plain synchronous call did not run the callee: %s" % (
                                       me, what, how, ev[1])))
            if ev[0] == "body" and ev[1] in owner_of and exp.get(owner_of[ev[1]], (False,))[0]:
                on, how, what = exp[owner_of[ev[1]]]
                where = ":inside-explicit-asyncio_fn:%s" % how if what == "explicit-asyncio_fn" else ""
                fs.append(dict(clause="sync-call-refused", site="callee-body-ran-in-asyncio-mode" + where,
                               msg="body of call %s (target of a plain synchronous call made by call %s inside asyncio mode) ran under the event loop" % (
                                   ev[1], owner_of[ev[1]])))
    return fs


def crash_finding(c, io, build):
    """the runner only drives public API inside try/except Exception: if it dies on a case, the
    bridge raised a BaseException or broke the event loop - a failing input, not an infrastructure error"""
    return dict(clause="run", site="runner-crashed", msg="the case could not be run: %s" % json.dumps(io)[:600])


# ------------------------------------------------------------------------------------------ shrink
def _clone(x):
    return json.loads(json.dumps(x))


def shrink(c):
    out = []
    probes0 = c.get("probes", [])

    def emit(root, mode0, probes=None):
        if root is None or not ("t" in root or "px" in root):
            return
        out.append(mkcase(root, mode0, _clone(probes0 if probes is None else probes), {"shrunk": True}))

    if c["mode0"]:
        emit(_clone(c["root"]), False)
    # fewer plain synchronous calls after the await
    if probes0:
        emit(_clone(c["root"]), c["mode0"], [])
        if len(probes0) > 1:
            for i in range(len(probes0)):
                emit(_clone(c["root"]), c["mode0"], probes0[:i] + probes0[i + 1:])
    # every activation gets a function object of its own / one function class at a time is dissolved
    keys = sorted({n["fn"] for n in all_nodes(c) if "fn" in n})
    for drop in ([None] + keys if len(keys) > 1 else [None] if keys else []):
        r2, p2 = _clone(c["root"]), _clone(probes0)
        for leaf in [r2] + p2:
            for n in sub_fns(leaf):
                if "fn" in n and (drop is None or n["fn"] == drop):
                    del n["fn"]
        emit(r2, c["mode0"], p2)
    # promote any sub-call to the root
    seen = 0
    for n in list(sub_fns(c["root"]))[1:]:
        emit(_clone({"t": n} if "body" in n else {"px": n}), c["mode0"])
        seen += 1
        if seen > 25:
            break
    # in-place simplifications, addressed by a counter over a deterministic traversal
    def variants():
        k = 0
        while True:
            root = _clone(c["root"])
            state = {"k": k, "done": False}

            def try_apply():
                state["k"] -= 1
                if state["k"] < 0 and not state["done"]:
                    state["done"] = True
                    return True
                return False

            def s_struct(s):
                if s is None:
                    return s
                for key in ("tuple", "list"):
                    if key in s:
                        for i in range(len(s[key])):
                            if try_apply():
                                s[key].pop(i)
                                return s
                        for i in range(len(s[key])):
                            if try_apply():
                                return s[key][i]
                        s[key] = [s_struct(x) for x in s[key]]
                        return s
                if "dict" in s:
                    for i in range(len(s["dict"])):
                        if try_apply():
                            s["dict"].pop(i)
                            return s
                    for i in range(len(s["dict"])):
                        if try_apply():
                            return s["dict"][i][1]
                    s["dict"] = [[k2, s_struct(x)] for k2, x in s["dict"]]
                    return s
                if "c" in s and _is_xv(s["c"]):
                    if try_apply():
                        return {"c": 1}
                    return s
                if "t" in s:
                    if try_apply():
                        return {"c": 1}
                    s_fn(s["t"])
                    return s
                if "px" in s:
                    if try_apply():
                        return s["px"]["ret"]
                    if "t" in s["px"]["ret"]:
                        s_fn(s["px"]["ret"]["t"])
                    return s
                return s

            def s_stmts(stmts):
                for i in range(len(stmts)):
                    if try_apply():
                        stmts.pop(i)
                        return
                for i, st in enumerate(stmts):
                    if "try" in st:
                        if try_apply():
                            stmts[i:i + 1] = st["try"]
                            return
                        if st.get("keep") and try_apply():
                            del st["keep"]
                            return
                        s_stmts(st["try"])
                        s_stmts(st["exc"])
                    elif "y" in st:
                        st["y"] = s_struct(st["y"])
                    elif "sync" in st:
                        if "t" in st["sync"]:
                            s_fn(st["sync"]["t"])

            def s_fn(fn):
                if fn["afn"] != "none" and try_apply():
                    fn["afn"] = "none"
                    return
                if fn["kind"] == "method" and try_apply():
                    fn["kind"] = "gen"
                    return
                if fn.get("delay") and try_apply():
                    fn["delay"] = 0
                    return
                s_stmts(fn["body"])

            if "t" in root:
                s_fn(root["t"])
            elif "t" in root["px"]["ret"]:
                s_fn(root["px"]["ret"]["t"])
            if not state["done"]:
                return
            yield root
            k += 1
            if k > 150:
                return
    for r in variants():
        emit(r, c["mode0"])
    return [x for x in out if _valid(x)]


def _valid(c):
    """plain functions and native coroutines have yield-free bodies; the activations of one function object agree on
    what the function is (kind, asyncio_fn, allow_sync_call); activation ids are unique"""
    sigs = {}
    ids = set()
    for n in all_nodes(c):
        if n["id"] in ids:
            return False
        ids.add(n["id"])
        if "fn" in n:
            if "body" not in n:
                return False
            sig = (n["kind"], n["afn"], bool(n.get("allow")))
            if sigs.setdefault(n["fn"], sig) != sig:
                return False
    sites = set()
    for n in all_nodes(c):
        if "body" not in n:
            continue
        for st in walk_stmts(n["body"]):
            if "y" in st:
                if st["site"] in sites:
                    return False
                sites.add(st["site"])
        if n["kind"] == "plain" and any("y" in st for st in walk_stmts(n["body"])):
            return False
        if n["afn"] == "native":
            # the explicit asyncio_fn is the same statement list written as an `async def`: what it awaits is
            # `g.asyncio(arg)` of a single call leaf (the asynq body yields g.asynq(arg) there)
            for st in walk_stmts(n["body"]):
                if "y" in st and not (st["y"] is not None and ("t" in st["y"] or "px" in st["y"])):
                    return False
    return True
