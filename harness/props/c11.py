"""C11 — batch lifecycle: pending -> flushed | cancelled exactly once; no item left pending;
items complete before the batch is announced; the registry is switched before the body runs."""
import itertools
import json

from ..lib import coqrun

PROP = "C11"
COQ_IMPORTS = ["Batch"]
COQ_FN = "Batch.run_case"
IMPL = "c11_impl.py"
SHARD = 200
RULE = ("op histories (add through the registry, add to a named batch, flush, cancel with/without error, item.value()/error(), "
        "batch.value()/error(), set_value/set_error on items and batches, is_flushed/is_cancelled/is_empty/is_computed, registry "
        "query) of length 0..30 over a harness BatchBase/BatchItemBase pair whose _flush executes a generated flush script per "
        "batch (set all / some / no items, item errors, raise Exception or BaseException after k actions, create requests while "
        "flushing, double-set, cancel from inside the body, re-entrant requests while the body runs: the body or an on_computed subscriber "
        "of an item it has just set asks an item of the batch being flushed for value()/error(), the body calls self.flush() or "
        "self.value()/error(), caught or propagating) and over the built-in DebugBatch/DebugBatchItem; 70% mostly-valid "
        "stream, 30% malformed stream (double flush, cancel/add/set after finish, unknown ids); thorough adds every op word of "
        "length 3 over a 13-op alphabet x 9 scripts; distinct = different (flavour, scripts, op list); non-trivial = at least one "
        "completing op on an existing batch/item and at least one op after it")
TRUSTED = ["qcore.events.EventHook.safe_trigger / qcore.errors.reraise are exercised, not modelled separately",
           "the harness batch's _try_switch_active_batch follows DebugBatch's discipline (replace the registry entry iff it is self)"]
ASSUMPTIONS = ["requests made from inside a flush concern the batch being flushed and its own items; a body / subscriber asking an item of ANOTHER "
               "pending batch (a nested flush of a different batch) and subscribers installed from outside the body are not generated",
               "batch.value()/error() asked while the body runs is modelled with the repaired behaviour (BatchingError); the unrepaired code "
               "runs the body again: known finding, on such a case only that site is reported",
               "_cancel, _try_switch_active_batch and on_computed subscribers do not raise (batching.py documents the second; a raising "
               "_cancel is outside the statement's quantifier, see docs/C11.md)",
               "debug options: default, or ENABLE_COMPLEX_ASSERTIONS off (a third of the histories); KEEP_DEPENDENCIES and DUMP_* off; one thread"]
EXPLANATION = ("Batch.v models BatchBase/BatchItemBase/DebugBatch with a scripted flush body and the active-batch registry; "
               "theorems in props/C11.v hold for every script list and every op history; the correspondence compares every op "
               "result, the complete event log (item/batch on_computed, body entry with the registry's value, _cancel hook, item "
               "construction) and the final state of every batch and item.")


def _val(rng):
    return "VNone" if rng.random() < 0.15 else {"VInt": [rng.randrange(-3, 50)]}


def N(k):
    return {"n": k}


def _oe(rng, base):
    return "None" if rng.random() < 0.5 else {"Some": [rng.randrange(base, base + 40)]}


# ------------------------------------------------------------------ flush scripts
def _kd(rng):
    return rng.choice(["KValue", "KValue", "KError"])


def _bool(rng, p_true=0.7):
    return "true" if rng.random() < p_true else "false"


def gen_reentrant(rng):
    """One re-entrant request made while the body runs: the body (or an on_computed subscriber of an item it
    sets) asks an item of the batch being flushed for value()/error(), or the body calls self.flush()."""
    q = rng.random()
    if q < 0.40:
        return {"ARead": [N(rng.randrange(0, 4)), _kd(rng), _bool(rng)]}
    if q < 0.48:
        return {"AReadBatch": [_kd(rng), _bool(rng)]}
    if q < 0.85:
        return {"ASetRead": [N(rng.randrange(0, 3)), _val(rng), N(rng.randrange(0, 4)), _kd(rng)]}
    return {"AReflush": [_bool(rng)]}


def gen_script(rng):
    r = rng.random()
    if r < 0.20:
        return ["ASetAll"]
    if r < 0.27:
        return []
    if r < 0.39:
        # a body that is otherwise well behaved, with re-entrant requests before / between its writes
        acts = [gen_reentrant(rng) for _ in range(rng.choice([1, 1, 2]))]
        tail = rng.choice([["ASetAll"], [], [{"ASet": [N(1), _val(rng)]}], [{"ASet": [N(0), _val(rng)]}, {"ASet": [N(1), _val(rng)]}],
                           [{"ANew": [_val(rng)]}, "ASetAll"]])
        if rng.random() < 0.3:
            acts.insert(0, {"ASet": [N(rng.randrange(0, 2)), _val(rng)]})
        return acts + tail
    acts = []
    n = rng.choice([1, 1, 2, 2, 3, 4, 6])
    for _ in range(n):
        q = rng.random()
        if q < 0.30:
            acts.append({"ASet": [N(rng.randrange(0, 4)), _val(rng)]})
        elif q < 0.45:
            acts.append({"ASetErr": [N(rng.randrange(0, 4)), rng.randrange(300, 340)]})
        elif q < 0.57:
            acts.append("ASetAll")
        elif q < 0.70:
            acts.append({"ARaise": [rng.randrange(1, 60)]})
        elif q < 0.78:
            acts.append({"ABase": [rng.randrange(60, 90)]})
        elif q < 0.88:
            acts.append({"ANew": [_val(rng)]})
        elif q < 0.94:
            acts.append(gen_reentrant(rng))
        else:
            acts.append({"ACancel": [_oe(rng, 400)]})
    return acts


# ------------------------------------------------------------------ op histories
BATCH_OPS1 = ["OFlush", "OBatchValue", "OBatchError", "OIsFlushed", "OIsCancelled", "OIsEmpty"]
ITEM_OPS1 = ["OItemValue", "OItemError", "OItemComputed"]


def gen_ops(rng, malformed, flavour):
    """Op history.  A rough tracker (which batch is newest, which are probably finished, which batch an item
    probably joined) only steers the choice of ids towards existing objects; it is not an oracle."""
    n = rng.choice([0, 1, 2, 3, 5, 8, 12, 16, 22, 30]) if not malformed else rng.randrange(3, 22)
    ops = []
    top = [0]          # newest batch (the active one)
    finished = set()
    item_batch = []

    def finish(b):
        if b <= top[0] and b not in finished:
            finished.add(b)
            if b == top[0]:
                top[0] += 1

    def bid(want_finished=None):
        if rng.random() < 0.06:
            return rng.randrange(0, top[0] + 3)
        if want_finished and finished and rng.random() < 0.8:
            return rng.choice(sorted(finished))
        if want_finished is False or rng.random() < 0.6:
            return top[0]
        return rng.randrange(0, top[0] + 1)

    def iid():
        if not item_batch or rng.random() < 0.06:
            return rng.randrange(0, len(item_batch) + 3)
        if rng.random() < 0.5:
            return len(item_batch) - 1 - min(len(item_batch) - 1, rng.choice([0, 0, 1, 2]))
        return rng.randrange(0, len(item_batch))

    def add(b):
        if b <= top[0] and b not in finished:
            item_batch.append(b)

    def touch_item(i):
        if i < len(item_batch):
            finish(item_batch[i])

    for _ in range(n):
        r = rng.random()
        if malformed:
            if r < 0.18:
                b = bid(want_finished=rng.random() < 0.6)
                ops.append({"OFlush": [N(b)]})
                finish(b)
            elif r < 0.30:
                b = bid(want_finished=rng.random() < 0.6)
                ops.append({"OCancel": [N(b), _oe(rng, 500)]})
                finish(b)
            elif r < 0.44:
                b = bid(want_finished=rng.random() < 0.7)
                ops.append({"OAddTo": [N(b), _val(rng)]})
                add(b)
            elif r < 0.52:
                i = iid()
                ops.append({"OItemSet": [N(i), _val(rng)]})
            elif r < 0.58:
                ops.append({"OItemSetErr": [N(iid()), rng.randrange(200, 240)]})
            elif r < 0.64:
                b = bid(want_finished=rng.random() < 0.6)
                ops.append({"OBatchSet": [N(b), _val(rng)]})
                finish(b)
            elif r < 0.70:
                b = bid(want_finished=rng.random() < 0.6)
                ops.append({"OBatchSetErr": [N(b), rng.randrange(240, 280)]})
                finish(b)
            elif r < 0.80:
                ops.append({"OAdd": [_val(rng)]})
                add(top[0])
            elif r < 0.90:
                i = iid()
                nm = rng.choice(ITEM_OPS1)
                ops.append({nm: [N(i)]})
                if nm != "OItemComputed":
                    touch_item(i)
            else:
                b = bid()
                nm = rng.choice(BATCH_OPS1)
                ops.append({nm: [N(b)]})
                if nm in ("OFlush", "OBatchValue", "OBatchError"):
                    finish(b)
        else:
            if r < 0.30:
                ops.append({"OAdd": [_val(rng)]})
                add(top[0])
            elif r < 0.34:
                b = bid(want_finished=False)
                ops.append({"OAddTo": [N(b), _val(rng)]})
                add(b)
            elif r < 0.44:
                b = bid(want_finished=rng.random() < 0.15)
                ops.append({"OFlush": [N(b)]})
                finish(b)
            elif r < 0.50:
                b = bid(want_finished=rng.random() < 0.25)
                ops.append({"OCancel": [N(b), _oe(rng, 500)]})
                finish(b)
            elif r < 0.62:
                i = iid()
                ops.append({"OItemValue": [N(i)]})
                touch_item(i)
            elif r < 0.68:
                i = iid()
                ops.append({"OItemError": [N(i)]})
                touch_item(i)
            elif r < 0.73:
                ops.append({"OItemComputed": [N(iid())]})
            elif r < 0.77:
                b = bid()
                ops.append({rng.choice(["OBatchValue", "OBatchError"]): [N(b)]})
                finish(b)
            elif r < 0.86:
                ops.append({rng.choice(["OIsFlushed", "OIsCancelled", "OIsEmpty"]): [N(bid())]})
            elif r < 0.89:
                ops.append("OActive")
            elif r < 0.92:
                ops.append({"OItemSet": [N(iid()), _val(rng)]})
            elif r < 0.94:
                ops.append({"OItemSetErr": [N(iid()), rng.randrange(200, 240)]})
            elif r < 0.97:
                b = bid(want_finished=False)
                ops.append({"OBatchSet": [N(b), _val(rng)]})
                finish(b)
            else:
                b = bid(want_finished=False)
                ops.append({"OBatchSetErr": [N(b), rng.randrange(240, 280)]})
                finish(b)
    return ops


def _case(flavour, scripts, ops, meta, opts=None):
    a = [flavour, scripts, ops]
    c = {"args": a, "tree": a, "meta": meta}
    if opts:
        c["opts"] = opts      # debug options the run is made under; the model has none (they must not matter)
    return c


def gen_case(rng):
    malformed = rng.random() < 0.30
    flavour = "D" if rng.random() < 0.25 else "H"
    scripts = [] if flavour == "D" else [gen_script(rng) for _ in range(rng.choice([0, 1, 2, 3, 4, 6]))]
    return _case(flavour, scripts, gen_ops(rng, malformed, flavour), {"malformed": malformed})


SMALL_SCRIPTS = [
    ["ASetAll"],
    [],
    [{"ASet": [N(0), {"VInt": [5]}]}, {"ARaise": [7]}],
    [{"ABase": [61]}],
    [{"ANew": ["VNone"]}, "ASetAll", {"ANew": [{"VInt": [2]}]}],
    [{"ASetErr": [N(0), 301]}, {"ASet": [N(0), {"VInt": [1]}]}],
    [{"ACancel": ["None"]}, "ASetAll"],
    [{"ASetRead": [N(0), {"VInt": [5]}, N(1), "KValue"]}, {"ARead": [N(1), "KError", "true"]}, {"ASet": [N(1), {"VInt": [6]}]}],
    [{"ARead": [N(0), "KValue", "false"]}, "ASetAll"],
]
SMALL_OPS = [
    {"OAdd": [{"VInt": [1]}]}, {"OAddTo": [N(0), "VNone"]}, {"OFlush": [N(0)]}, {"OFlush": [N(1)]},
    {"OCancel": [N(0), "None"]}, {"OCancel": [N(0), {"Some": [501]}]}, {"OItemValue": [N(0)]}, {"OItemError": [N(1)]},
    {"OBatchValue": [N(0)]}, {"OBatchError": [N(0)]}, {"OItemSet": [N(0), {"VInt": [9]}]}, {"OBatchSetErr": [N(0), 241]},
    {"OIsCancelled": [N(0)]},
]


def gen_cases(rng, tier):
    n = 500 if tier == "quick" else 6000
    cs = [gen_case(rng) for _ in range(n)]
    for i, c in enumerate(cs):      # every third history runs with the expensive assertions switched off
        if i % 3 == 2:
            c["opts"] = {"ENABLE_COMPLEX_ASSERTIONS": False}
    if tier != "quick":
        for sc in SMALL_SCRIPTS:
            for w in itertools.product(SMALL_OPS, repeat=3):
                cs.append(_case("H", [sc, ["ASetAll"]], [{"OAdd": [{"VInt": [3]}]}] + list(w), {"exhaustive": True}))
        for w in itertools.product(SMALL_OPS, repeat=3):
            cs.append(_case("D", [], [{"OAdd": [{"VInt": [3]}]}] + list(w), {"exhaustive": True}))
    return cs


def _mk(flavour, scripts, ops):
    return _case(flavour, scripts, ops, {"corpus": True})


_A = lambda v: {"OAdd": [{"VInt": [v]}]}
CORPUS = [
    # well-behaved flush, then protocol errors: second flush, cancel after flush, add after flush
    _mk("H", [["ASetAll"]], [_A(1), _A(2), {"OFlush": [N(0)]}, {"OFlush": [N(0)]}, {"OCancel": [N(0), "None"]},
                             {"OAddTo": [N(0), "VNone"]}, {"OItemValue": [N(0)]}, {"OItemValue": [N(1)]}, {"OIsEmpty": [N(0)]}]),
    # body sets one item then raises: value-set > flush error
    _mk("H", [[{"ASet": [N(0), {"VInt": [5]}]}, {"ARaise": [7]}]], [_A(1), _A(2), {"OItemValue": [N(1)]}, {"OItemValue": [N(0)]},
                                                                  {"OBatchError": [N(0)]}, {"OIsCancelled": [N(0)]}]),
    # body sets nothing: AssertionError "wasn't set"
    _mk("H", [[]], [_A(1), {"OFlush": [N(0)]}, {"OItemError": [N(0)]}, {"OItemValue": [N(0)]}, {"OBatchValue": [N(0)]}]),
    # BaseException in the body: flush() still does not raise
    _mk("H", [[{"ABase": [61]}]], [_A(1), {"OFlush": [N(0)]}, {"OItemValue": [N(0)]}, {"OFlush": [N(0)]}]),
    # requests created while flushing join the fresh batch
    _mk("H", [[{"ANew": [{"VInt": [8]}]}, "ASetAll", {"ANew": ["VNone"]}]], [_A(1), {"OItemValue": [N(0)]}, "OActive",
                                                                        {"OItemComputed": [N(1)]}, {"OItemValue": [N(2)]}, "OActive"]),
    # cancel with and without an error; cancel is a no-op afterwards
    _mk("H", [], [_A(1), {"OCancel": [N(0), {"Some": [501]}]}, {"OCancel": [N(0), "None"]}, {"OItemError": [N(0)]}, _A(2),
                  {"OCancel": [N(1), "None"]}, {"OItemValue": [N(1)]}, {"OFlush": [N(1)]}]),
    # item set from outside before the flush: the body's set_value raises FutureIsAlreadyComputed
    _mk("H", [["ASetAll"]], [_A(1), _A(2), {"OItemSet": [N(0), {"VInt": [9]}]}, {"OFlush": [N(0)]}, {"OItemValue": [N(0)]},
                             {"OItemError": [N(1)]}, {"OItemSet": [N(1), "VNone"]}]),
    # cancel from inside the body
    _mk("H", [[{"ASet": [N(0), {"VInt": [4]}]}, {"ACancel": ["None"]}, "ASetAll"]], [_A(1), _A(2), {"OFlush": [N(0)]},
                                                                               {"OItemValue": [N(0)]}, {"OItemError": [N(1)]}]),
    # batch.value() / set_value on the batch itself, then flush
    _mk("H", [[{"ARaise": [9]}]], [_A(1), {"OBatchValue": [N(0)]}, {"OFlush": [N(0)]}, _A(2), {"OBatchSet": [N(1), {"VInt": [3]}]},
                                   {"OItemError": [N(1)]}, {"OBatchSet": [N(1), "VNone"]}]),
    # DebugBatch
    _mk("D", [], [_A(1), _A(2), {"OItemValue": [N(1)]}, {"OFlush": [N(0)]}, "OActive", _A(3), {"OCancel": [N(1), "None"]},
                  {"OItemValue": [N(2)]}, {"OAddTo": [N(0), "VNone"]}, {"OAddTo": [N(2), "VNone"]}, {"OFlush": [N(2)]}]),
    _mk("D", [], [{"OFlush": [N(0)]}, {"OFlush": [N(0)]}, {"OIsEmpty": [N(1)]}, _A(1), {"OItemSetErr": [N(0), 201]},
                  {"OBatchError": [N(1)]}, {"OItemValue": [N(0)]}]),
]


# ---- re-entrant requests while the flush body runs
_S = lambda k, v: {"ASet": [N(k), {"VInt": [v]}]}
# an on_computed subscriber of item 0 asks its sibling 1 (not yet set) for its value while the body is running:
# refused with BatchingError, the body runs once, item 1 gets the value the body sets afterwards
CORPUS.insert(0, _mk("H", [[{"ASetRead": [N(0), {"VInt": [5]}, N(1), "KValue"]}, _S(1, 7)]],
                     [_A(1), _A(2), {"OItemValue": [N(0)]}, {"OItemValue": [N(1)]}, {"OFlush": [N(0)]}, {"OIsEmpty": [N(0)]}]))
# the body itself asks its pending items for error()/value() and calls self.flush(), all caught, then sets every item
CORPUS.insert(1, _mk("H", [[{"ARead": [N(1), "KError", "true"]}, {"ARead": [N(0), "KValue", "true"]}, {"AReflush": ["true"]}, "ASetAll"]],
                     [_A(1), _A(2), {"OFlush": [N(0)]}, {"OItemValue": [N(0)]}, {"OItemError": [N(1)]}]))
# the same request not caught by the body: the BatchingError becomes the flush error of the unset items
CORPUS.insert(2, _mk("H", [[_S(0, 3), {"ARead": [N(1), "KValue", "false"]}, "ASetAll"]],
                     [_A(1), _A(2), {"OItemError": [N(1)]}, {"OBatchError": [N(0)]}, {"OItemValue": [N(0)]}, {"OIsCancelled": [N(0)]}]))

# the body asks the batch itself for error() between two writes (known finding on the unrepaired tree: the body runs again)
CORPUS.insert(3, _mk("H", [[_S(0, 3), {"AReadBatch": ["KError", "true"]}, _S(1, 4)]],
                     [_A(1), _A(2), {"OFlush": [N(0)]}, {"OItemValue": [N(1)]}, {"OBatchError": [N(0)]}]))

# expensive assertions switched off: a body that sets some / none of its items still leaves no item pending
CORPUS.append(_case("H", [[]], [_A(1), {"OFlush": [N(0)]}, {"OItemComputed": [N(0)]}, {"OItemError": [N(0)]}, {"OItemValue": [N(0)]},
                                {"OBatchValue": [N(0)]}], {"corpus": True}, {"ENABLE_COMPLEX_ASSERTIONS": False}))
CORPUS.append(_case("H", [[{"ASet": [N(0), {"VInt": [5]}]}]], [_A(1), _A(2), {"OItemValue": [N(1)]}, {"OItemValue": [N(0)]},
                                                              {"OItemComputed": [N(1)]}], {"corpus": True}, {"ENABLE_COMPLEX_ASSERTIONS": False}))


def model_input(c):
    return coqrun.coq_of(c["args"][1]) + " " + coqrun.coq_of(c["args"][2])


def canon(c):
    return json.dumps([c["args"], c.get("opts")], sort_keys=True)


def _opname(o):
    return o if isinstance(o, str) else next(iter(o))


def _arg(o):
    return [] if isinstance(o, str) else next(iter(o.values()))


REENTRANT = ("ARead", "AReflush", "ASetRead", "AReadBatch")
COMPLETING_B = ("OFlush", "OCancel", "OBatchValue", "OBatchError", "OBatchSet", "OBatchSetErr")
COMPLETING_I = ("OItemValue", "OItemError", "OItemSet", "OItemSetErr")


def nontrivial(c):
    ops = c["args"][2]
    adds = 0
    for k, o in enumerate(ops[:-1]):
        n = _opname(o)
        if n in ("OAdd", "OAddTo"):
            adds += 1
        elif n in COMPLETING_B and _arg(o)[0]["n"] == 0:
            return True
        elif n in COMPLETING_I and _arg(o)[0]["n"] < adds:
            return True
    return False


def _project_debug(m):
    """DebugBatch has no override point to observe body entry / the _cancel hook / run counts."""
    rs, log, bsum, isum, active = m[""]
    log = [e for e in log if next(iter(e)) not in ("EBody", "ECancel")]
    bsum = [{"": [b[""][0], -1, -1, b[""][3]]} for b in bsum]
    return {"": [rs, log, bsum, isum, active]}


def compare(c, m, io):
    if "out" not in io:
        return "the implementation runner returned %s" % (json.dumps(io)[:200])
    if c["args"][0] == "D":
        m = _project_debug(m)
    if m != io["out"]:
        mm, ii = m[""], io["out"][""]
        names = ["op results", "event log", "batch summaries (outcome, body runs, _cancel calls, len(items))",
                 "item summaries (batch, outcome)", "active batch"]
        for nme, a, b in zip(names, mm, ii):
            if a != b:
                return "%s differ between Batch.run_case and the implementation: model %s / implementation %s" % (
                    nme, json.dumps(a)[:600], json.dumps(b)[:600])
        return "outputs differ"
    return None


def distribution(cases):
    d = {"flavour": {}, "oplen": {}, "malformed": 0, "exhaustive": 0, "ops": {}, "script_actions": {}, "scripts_per_case": {},
         "cases_with_reentrant_request": 0}
    for c in cases:
        fl, sc, ops = c["args"]
        d["flavour"][fl] = d["flavour"].get(fl, 0) + 1
        L = len(ops)
        b = "0" if L == 0 else "1-3" if L <= 3 else "4-12" if L <= 12 else "13-30"
        d["oplen"][b] = d["oplen"].get(b, 0) + 1
        d["malformed"] += 1 if c.get("meta", {}).get("malformed") else 0
        if c.get("opts"):
            d["complex_assertions_off"] = d.get("complex_assertions_off", 0) + 1
        d["exhaustive"] += 1 if c.get("meta", {}).get("exhaustive") else 0
        for o in ops:
            d["ops"][_opname(o)] = d["ops"].get(_opname(o), 0) + 1
        if any(_opname(a) in REENTRANT for s_ in sc for a in s_):
            d["cases_with_reentrant_request"] += 1
        k = str(len(sc))
        d["scripts_per_case"][k] = d["scripts_per_case"].get(k, 0) + 1
        for s in sc:
            if not s:
                d["script_actions"]["(empty body)"] = d["script_actions"].get("(empty body)", 0) + 1
            for a in s:
                d["script_actions"][_opname(a)] = d["script_actions"].get(_opname(a), 0) + 1
    return d


# ------------------------------------------------------------------ monitors
def _report(name, out):
    """What value()/error() must report for a stored outcome."""
    if name in ("OItemValue", "OBatchValue"):
        return {"RVal": out["Ok"]} if "Ok" in out else {"RRaise": out["Err"]}
    return "RNoError" if "Ok" in out else {"RErr": out["Err"]}


def _short(r):
    if isinstance(r, str):
        return r
    (k, v), = r.items()
    if k in ("RRaise", "RErr"):
        e = v[0]
        nm = {-2: "AssertionError", -3: "FutureIsAlreadyComputed", -5: "BatchingError", -6: "BatchCancelledError",
              -8: "AssertionError(add)"}.get(e, "user-error" if isinstance(e, int) else json.dumps(e))
        return "%s(%s)" % (k, nm)
    return k


def monitors(c, io, build):
    """Direct encoding of the C11 statement over what the implementation did (never consults the model)."""
    flavour, scripts, ops = c["args"]
    if "out" not in io:
        return [dict(clause="runner", site="hang" if "Hang" in io else "no-output", msg="the implementation did not return: %s" % json.dumps(io)[:200])]
    res, log, bsum, isum, active = io["out"][""]
    fs = []
    seen = set()

    def hit(clause, site, msg):
        if (clause, site) not in seen:
            seen.add((clause, site))
            fs.append(dict(clause=clause, site="%s:%s" % (flavour, site), msg=msg))

    # ---- value()/error() of the batch itself asked while its flush body runs must not run the body again.  When it
    #      does, everything else the case shows (second run's writes, FutureIsAlreadyComputed outcomes, a cancelled
    #      batch) is a consequence of that one nested run: it is reported once, at this site, and nothing else is
    #      evaluated on the case.
    for rd in io.get("reads", []):
        if rd["what"].startswith("batch-") and rd["runs1"] != rd["runs0"]:
            hit("flush-runs-body-once", "reentrant-%s:%s:body-ran-again" % (rd["via"], rd["what"]),
                "%s() of batch %d was asked by its own flush body while that body was running: the body ran %d more time(s) nested inside the first" % (
                    rd["what"].split("-")[1], rd["b"], rd["runs1"] - rd["runs0"]))
    if fs:
        return fs
    sets = {}
    set_at = []
    for i, o in io["sets"]:
        sets.setdefault(i, o)
    pre = io["init"]
    nsets_prev = 0
    for idx, (o, r, ob) in enumerate(zip(ops, res, io["obs"])):
        name, a = _opname(o), _arg(o)
        post = ob["post"]
        new = log[ob["nlog0"]:ob["nlog"]]
        pb, qb, pi, qi = pre["b"], post["b"], pre["i"], post["i"]
        where = "op %d (%s)" % (idx, name)

        # ---- clauses that every op must respect
        for k, (x, y) in enumerate(zip(pb, qb)):
            if x[0] is not None and y[0] != x[0]:
                hit("lifecycle-once", "batch-outcome-changed:%s" % name, "%s changed the outcome of finished batch %d from %s to %s" % (where, k, x[0], y[0]))
            if y[1] is not None and y[1] > 1:
                hit("lifecycle-once", "body-ran-twice:%s" % name, "%s: the flush body of batch %d has run %d times" % (where, k, y[1]))
            if x[0] is not None and (y[1], y[2]) != (x[1], x[2]):
                hit("lifecycle-once", "hook-on-finished-batch:%s" % name, "%s ran _flush/_cancel of the already finished batch %d" % (where, k))
            if flavour == "D" and y[4] != k:
                hit("fresh-batch", "debug-index", "%s: DebugBatch number %d of this name has index %s" % (where, k, y[4]))
        for k, (x, y) in enumerate(zip(pi, qi)):
            if x[1] is not None and y[1] != x[1]:
                hit("single-assignment", "item-outcome-changed:%s" % name, "%s changed the outcome of completed item %d from %s to %s" % (where, k, x[1], y[1]))
            if x[0] != y[0]:
                hit("lifecycle-once", "item-moved:%s" % name, "%s moved item %d from batch %s to %s" % (where, k, x[0], y[0]))
        for k, y in enumerate(qi):
            if 0 <= y[0] < len(qb) and qb[y[0]][0] is not None and y[1] is None:
                hit("no-item-left-pending", "%s:batch-%s" % (name, "failed" if "Err" in qb[y[0]][0] else "ok"),
                    "after %s batch %d is finished (%s) but its item %d is still not complete" % (where, y[0], qb[y[0]][0], k))
        act = post["active"]
        if not (0 <= act < len(qb)) or qb[act][0] is not None:
            hit("fresh-batch", "active-batch-finished:%s" % name, "after %s the registry points at batch %s which is finished/unknown: new requests cannot join it" % (where, act))
        # announcements: exactly one on_computed per completion, carrying the stored outcome
        for k, y in enumerate(qb):
            was = pb[k][0] if k < len(pb) else None
            evs = [e["EBatch"][1] for e in new if "EBatch" in e and e["EBatch"][0] == k]
            want = [y[0]] if (was is None and y[0] is not None) else []
            if evs != want:
                hit("announce-once", "batch:%s" % name, "%s: on_computed of batch %d fired with %s, expected %s" % (where, k, evs, want))
        for k, y in enumerate(qi):
            was = pi[k][1] if k < len(pi) else None
            evs = [e["EItem"][1] for e in new if "EItem" in e and e["EItem"][0] == k]
            want = [y[1]] if (was is None and y[1] is not None) else []
            if evs != want:
                hit("announce-once", "item:%s" % name, "%s: on_computed of item %d fired with %s, expected %s" % (where, k, evs, want))
        # every item complete before the batch's own announcement
        for pos, e in enumerate(new):
            if "EBatch" in e:
                k = e["EBatch"][0]
                before = {x["EItem"][0] for x in log[:ob["nlog0"] + pos] if "EItem" in x}
                late = [j for j, y in enumerate(qi) if y[0] == k and j not in before]
                if late:
                    hit("items-before-announce", "%s:%s" % (name, "failed" if "Err" in e["EBatch"][1] else "ok"),
                        "%s: batch %d announced its completion before its items %s were complete" % (where, k, late))
        # completion priority: value/error that was set > flush or cancellation error > AssertionError
        new_sets = io["sets"][nsets_prev:ob["nsets"]]
        nsets_prev = ob["nsets"]
        for k, y in enumerate(qi):
            was = pi[k][1] if k < len(pi) else None
            if was is None and y[1] is not None:
                if k in sets:
                    if y[1] != sets[k]:
                        hit("item-outcome", "set-value-lost:%s" % name, "%s: item %d was set to %s but completed with %s" % (where, k, sets[k], y[1]))
                else:
                    bo = qb[y[0]][0] if 0 <= y[0] < len(qb) else None
                    want = None if bo is None else ({"Err": [-2]} if "Ok" in bo else bo)
                    if y[1] != want:
                        hit("item-outcome", "leftover:%s:%s" % (name, "batch-failed" if (bo and "Err" in bo) else "batch-ok"),
                            "%s: item %d, never set by the body, completed with %s; its batch %s finished with %s so %s was expected" % (
                                where, k, y[1], y[0], bo, want))

        # ---- the op's own clause
        unchanged = (post == pre and not new)
        if name in COMPLETING_B + ("OAddTo", "OIsFlushed", "OIsCancelled", "OIsEmpty"):
            k = a[0]["n"]
            x = pb[k] if k < len(pb) else None
            y = qb[k] if k < len(qb) else None
        if name == "OFlush" and x is not None:
            if x[0] is None:
                if r != "RUnit":
                    hit("flush-never-raises", "flush-on-pending:%s" % _short(r), "%s on pending batch %d gave %s" % (where, k, r))
                if y[0] is None:
                    hit("lifecycle-once", "flush:batch-still-pending", "%s left batch %d pending" % (where, k))
                if y[1] is not None and y[1] != x[1] + 1:
                    hit("flush-runs-body-once", "flush:body-runs-%d" % (y[1] - x[1]), "%s ran the flush body of batch %d %d times" % (where, k, y[1] - x[1]))
            else:
                if r != {"RRaise": [-5]}:
                    hit("second-flush", "flush-on-finished:%s" % _short(r), "%s on finished batch %d gave %s instead of raising BatchingError" % (where, k, r))
                if not unchanged:
                    hit("second-flush", "flush-on-finished:state-changed", "%s on finished batch %d changed state / fired callbacks" % (where, k))
        elif name == "OCancel" and x is not None:
            if r != "RUnit":
                hit("cancel-never-raises", "cancel:%s:%s" % ("finished" if x[0] else "pending", _short(r)), "%s on batch %d gave %s" % (where, k, r))
            if x[0] is not None:
                if not unchanged:
                    hit("cancel-noop-when-finished", "cancel-on-finished:state-changed", "%s on finished batch %d changed state / fired callbacks" % (where, k))
            else:
                e = opt_(a[1])
                want = {"Err": [e if e is not None else -6]}
                if y[0] != want:
                    hit("lifecycle-once", "cancel:outcome", "%s on pending batch %d left it with %s, expected %s" % (where, k, y[0], want))
                if y[1] is not None and y[1] != x[1]:
                    hit("lifecycle-once", "cancel:body-ran", "%s ran the flush body of batch %d" % (where, k))
        elif name == "OAddTo" and x is not None:
            if x[0] is not None:
                if not (isinstance(r, dict) and "RRaise" in r):
                    hit("no-add-to-finished", "add-to-finished:accepted", "%s: an item was added to finished batch %d (%s)" % (where, k, r))
                elif r != {"RRaise": [-8]}:
                    hit("no-add-to-finished", "add-to-finished:%s" % _short(r), "%s on finished batch %d raised %s, not the constructor's assertion" % (where, k, r))
                if len(qi) != len(pi) or y[3] != x[3]:
                    hit("no-add-to-finished", "add-to-finished:items-grew", "%s: finished batch %d got a new item" % (where, k))
            else:
                if r != {"RItem": [len(pi), k]} or len(qi) != len(pi) + 1 or qi[-1][0] != k or y[3] != x[3] + 1:
                    hit("add-to-pending", "add:%s" % _short(r), "%s on pending batch %d gave %s / item not appended" % (where, k, r))
        elif name == "OAdd":
            pa = pre["active"]
            if r != {"RItem": [len(pi), pa]} or len(qi) != len(pi) + 1 or qi[-1][0] != pa:
                hit("fresh-batch", "add-via-registry:%s" % _short(r), "%s: a new request did not join the active batch %d (result %s)" % (where, pa, r))
        elif name in ("OItemValue", "OItemError", "OItemComputed", "OItemSet", "OItemSetErr"):
            k = a[0]["n"]
            if k < len(pi):
                x, y = pi[k], qi[k]
                if name in ("OItemValue", "OItemError"):
                    if x[1] is None:
                        bx = pb[x[0]]
                        by = qb[x[0]]
                        if y[1] is None or by[0] is None:
                            hit("item-value-flushes", "%s:still-pending" % name, "%s on pending item %d left item/batch pending (%s / %s)" % (where, k, y[1], by[0]))
                        if bx[0] is None and by[1] is not None and by[1] != bx[1] + 1:
                            hit("item-value-flushes", "%s:body-runs-%d" % (name, by[1] - bx[1]), "%s on an item of pending batch %d ran its body %d times" % (where, x[0], by[1] - bx[1]))
                    elif not unchanged:
                        hit("stable-outcome", "%s:state-changed" % name, "%s on completed item %d changed state / fired callbacks" % (where, k))
                    if r == "RNotComputed":
                        hit("item-value-flushes", "%s:returned-not-computed-marker" % name, "%s returned although item %d is not complete" % (where, k))
                    elif y[1] is not None and r != _report(name, y[1]):
                        hit("stable-outcome", "%s:%s" % (name, _short(r)), "%s reported %s although item %d holds %s" % (where, r, k, y[1]))
                elif name == "OItemComputed":
                    if r != {"RBool": ["true" if x[1] is not None else "false"]} or not unchanged:
                        hit("stable-outcome", "is_computed", "%s gave %s for item %d holding %s" % (where, r, k, x[1]))
                else:
                    if x[1] is not None:
                        if r != {"RRaise": [-3]}:
                            hit("single-assignment", "%s:%s" % (name, _short(r)), "%s on completed item %d gave %s, not FutureIsAlreadyComputed" % (where, k, r))
                        if not unchanged:
                            hit("single-assignment", "%s:state-changed" % name, "%s on completed item %d changed state" % (where, k))
                    else:
                        want = {"Ok": [a[1]]} if name == "OItemSet" else {"Err": [a[1]]}
                        if r != "RUnit" or y[1] != want:
                            hit("single-assignment", "%s:first-set:%s" % (name, _short(r)), "%s on pending item %d gave %s, item holds %s" % (where, k, r, y[1]))
        elif name in ("OBatchValue", "OBatchError") and x is not None:
            if x[0] is not None and not unchanged:
                hit("stable-outcome", "%s:state-changed" % name, "%s on finished batch %d changed state / fired callbacks" % (where, k))
            if y[0] is None:
                hit("lifecycle-once", "%s:batch-still-pending" % name, "%s left batch %d pending" % (where, k))
            elif r != _report(name, y[0]):
                hit("stable-outcome", "%s:%s" % (name, _short(r)), "%s reported %s although batch %d holds %s" % (where, r, k, y[0]))
            if x[0] is None and y[1] is not None and y[1] != x[1] + 1:
                hit("flush-runs-body-once", "%s:body-runs-%d" % (name, y[1] - x[1]), "%s ran the flush body of batch %d %d times" % (where, k, y[1] - x[1]))
        elif name in ("OBatchSet", "OBatchSetErr") and x is not None:
            if x[0] is not None:
                if r != {"RRaise": [-3]}:
                    hit("single-assignment", "%s:%s" % (name, _short(r)), "%s on finished batch %d gave %s, not FutureIsAlreadyComputed" % (where, k, r))
                if not unchanged:
                    hit("single-assignment", "%s:state-changed" % name, "%s on finished batch %d changed state" % (where, k))
            else:
                want = {"Ok": [a[1]]} if name == "OBatchSet" else {"Err": [a[1]]}
                if r != "RUnit" or y[0] != want:
                    hit("single-assignment", "%s:first-set:%s" % (name, _short(r)), "%s on pending batch %d gave %s, batch holds %s" % (where, k, r, y[0]))
        elif name in ("OIsFlushed", "OIsCancelled", "OIsEmpty") and x is not None:
            want = {"OIsFlushed": x[0] is not None, "OIsCancelled": x[0] is not None and "Err" in x[0], "OIsEmpty": x[3] == 0}[name]
            if r != {"RBool": ["true" if want else "false"]} or not unchanged:
                hit("state-queries", name, "%s gave %s for batch %d in state %s" % (where, r, k, x))
        elif name == "OActive":
            if r != {"RBatch": [pre["active"]]} or not unchanged:
                hit("state-queries", name, "%s gave %s" % (where, r))
        pre = post

    # ---- the registry is switched before the body runs; requests created while flushing join a fresh batch
    for bd in io["bodies"]:
        b = bd["b"]
        if bd["active"] == b:
            hit("fresh-batch", "body:registry-still-points-at-flushing-batch", "the flush body of batch %d started while the registry still pointed at it" % b)
        if bd["active_done"]:
            hit("fresh-batch", "body:active-batch-finished", "the flush body of batch %d started while the registry pointed at finished batch %d" % (b, bd["active"]))
        if bd["self_done"]:
            hit("lifecycle-once", "body:ran-on-finished-batch", "the flush body of batch %d ran although the batch was already finished" % b)
        for e in log[bd["at"]:]:
            if "EBatch" in e and e["EBatch"][0] == b:
                break
            if "ENew" in e and e["ENew"][1] != bd["active"]:
                hit("fresh-batch", "body:new-request-joined-%s" % ("flushing-batch" if e["ENew"][1] == b else "other-batch"),
                    "request %d created while batch %d was flushing joined batch %d, not the fresh batch %d" % (e["ENew"][0], b, e["ENew"][1], bd["active"]))
    # ---- the flush body of a batch runs once: never entered again, in particular not nested inside itself by a
    #      request made while it runs (by the body, or by an on_computed subscriber of an item it has just set)
    for bd in io["bodies"]:
        b = bd["b"]
        if bd.get("depth", 0) > 0:
            hit("flush-runs-body-once", "body:nested-run:%s" % (bd.get("during") or "unknown"),
                "the flush body of batch %d was entered again (run %d) while it was already running (%s in progress): the body must run once" % (
                    b, bd["run"], bd.get("during")))
        elif bd.get("run", 1) > 1:
            hit("flush-runs-body-once", "body:entered-again:%s" % (bd.get("during") or "later-op"),
                "the flush body of batch %d was entered a second time (run %d)" % (b, bd["run"]))
    runs_of = {}
    for wr in io.get("writes", []):
        runs_of.setdefault((wr["b"], wr["i"]), []).append(wr["run"])
    for (b, i), rs_ in sorted(runs_of.items()):
        if len(set(rs_)) > 1:
            hit("flush-runs-body-once", "body:duplicate-write", "item %d of batch %d was written by %d different runs of the flush body (runs %s)" % (
                i, b, len(set(rs_)), sorted(set(rs_))))
    # ---- requests made while the body of the batch runs: a complete item answers with its outcome; a pending item
    #      cannot be flushed (its batch's flush is in progress): the request is a second flush -> BatchingError, and
    #      neither runs the body again nor completes anything
    for rd in io.get("reads", []):
        b, i, what, via, r = rd["b"], rd["i"], rd["what"], rd["via"], rd["r"]
        tag = "reentrant-%s:%s" % (via, what)
        inner = log[rd["nlog0"]:rd["at"]]
        if rd["runs1"] != rd["runs0"]:
            hit("flush-runs-body-once", "%s:body-ran-again" % tag,
                "%s asked %s while the flush body of batch %d was running: the body ran %d more time(s)" % (
                    via, ("item %d for its %s()" % (i, what)) if what != "flush" else "the batch to flush()", b, rd["runs1"] - rd["runs0"]))
        if what.startswith("batch-"):
            if rd["batch_out"] is not None:
                want = _report("OBatchValue" if what == "batch-value" else "OBatchError", rd["batch_out"])
                if r != want:
                    hit("stable-outcome", "%s:%s" % (tag, _short(r)), "batch %d (finished, %s) asked for %s by its body gave %s" % (b, rd["batch_out"], what, r))
            elif r != {"RRaise": [-5]}:
                hit("second-flush", "%s:%s" % (tag, _short(r)), "%s of batch %d asked while its flush body runs gave %s instead of raising BatchingError" % (what, b, r))
            if inner:
                hit("second-flush", "%s:state-changed" % tag, "%s of batch %d asked while its flush body runs fired callbacks / hooks: %s" % (what, b, inner[:4]))
            continue
        if what == "flush":
            if r != {"RRaise": [-5]}:
                hit("second-flush", "%s:%s" % (tag, _short(r)), "flush() of batch %d called while its flush body runs gave %s instead of raising BatchingError" % (b, r))
            if inner:
                hit("second-flush", "%s:state-changed" % tag, "flush() of batch %d called while its flush body runs fired callbacks / hooks: %s" % (b, inner[:4]))
            continue
        if r == "RNotComputed":
            hit("item-value-flushes", "%s:returned-not-computed-marker" % tag, "item %d of batch %d, asked while the body runs, returned although it is not complete" % (i, b))
        if rd["item_out"] is not None:
            want = _report("OItemValue" if what == "value" else "OItemError", rd["item_out"])
            if r != want:
                hit("stable-outcome", "%s:%s" % (tag, _short(r)), "item %d (complete, %s) asked for %s() while the body of batch %d runs gave %s" % (i, rd["item_out"], what, b, r))
            if inner:
                hit("stable-outcome", "%s:state-changed" % tag, "%s() of complete item %d fired callbacks / hooks: %s" % (what, i, inner[:4]))
        elif not rd["batch_done"]:
            if r != {"RRaise": [-5]}:
                hit("second-flush", "%s:pending-sibling:%s" % (tag, _short(r)),
                    "item %d of batch %d (not yet set) was asked for %s() while the flush body of that batch was running: got %s, not BatchingError "
                    "(the flush is in progress, the batch cannot be flushed again)" % (i, b, what, r))
            if inner or rd["item_done_after"]:
                hit("second-flush", "%s:pending-sibling:state-changed" % tag,
                    "asking pending item %d of batch %d while the body runs completed it / fired callbacks: %s" % (i, b, inner[:4]))
    for e in log:
        if any(v == "NotVisible" for v in next(iter(e.values()))):
            hit("announce-once", "outcome-not-visible-in-callback", "an on_computed callback ran before the outcome was visible: %s" % e)
    return fs


def opt_(t):
    return None if t == "None" else t["Some"][0]


def shrink(c):
    flavour, scripts, ops = c["args"]
    if c.get("opts"):
        yield _case(flavour, scripts, ops, {"shrunk": True})
    for i in range(len(ops)):
        yield _case(flavour, scripts, ops[:i] + ops[i + 1:], {"shrunk": True}, c.get("opts"))
    for j, s in enumerate(scripts):
        for i in range(len(s)):
            yield _case(flavour, scripts[:j] + [s[:i] + s[i + 1:]] + scripts[j + 1:], ops, {"shrunk": True}, c.get("opts"))
    if scripts and scripts[-1] == ["ASetAll"]:
        yield _case(flavour, scripts[:-1], ops, {"shrunk": True}, c.get("opts"))
