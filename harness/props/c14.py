"""C14 — collection helpers (amap, afilter, afilterfalse, asorted, amax, amin, asift, aretry) equal
their builtin counterparts, in one batching round."""
import itertools
import json
import re

PROP = "C14"
COQ_IMPORTS = ["Tools"]
COQ_FN = "Tools.run_case"
IMPL = "c14_impl.py"
RULE = ("helper calls (amap, afilter incl. predicate None, afilterfalse, asorted key/no key x reverse, amax/amin single-iterable / "
        "varargs / zero-arg / unexpected-keyword forms, asift) on lists, tuples, other re-iterables, one-shot iterators and "
        "generators, non-iterables; elements None / ints with duplicates / bools / plain objects without ordering; key and "
        "predicate functions given as tables (blocking on a harness batch: all / none / mixed; results: ints with ties, bools, "
        "None, objects, raising); aretry: every (k, max_tries) with max_tries <= 6 and k <= 7 followed by return / unlisted raise "
        "/ end of script, class tuples and subclasses, max_tries <= 0; ~80% mostly-valid stream, ~20% malformed stream "
        "(non-iterable, empty for amax/amin, zero args, one non-iterable arg, unexpected keyword, unorderable keys, raising "
        "key); plus every key assignment over {0,1,2}^n (n <= 3 quick, n <= 5 thorough) on distinct unorderable objects for "
        "asorted / asorted(reverse) / amax / amin; distinct = different (call, function table / retry script); non-trivial = "
        "input length >= 2 with a duplicate key or a one-shot iterator (aretry: k >= 1)")
TRUSTED = ["builtins map/filter/itertools.filterfalse/sorted/max/min: modelled in Tools.v (py_map, py_filter_by, py_sorted, "
           "py_extreme, sorted_total, extreme_total) and compared with the real builtins on every case",
           "scheduler: calls yielded in one list are started before any flush and blocked requests of one kind go out in one "
           "flush (C04's subject); here it is observed (flush count / flush size / call-flush order), not proved"]
ASSUMPTIONS = ["key/predicate functions raise only Exception subclasses and issue at most one batch request per call, all of one batch kind",
               "amax/amin with a key function that raises AND keys that cannot be ordered: builtin max/min interleave key calls and "
               "comparisons, amax/amin compute all keys first, so the exception that surfaces may be the key's instead of TypeError; "
               "this double-fault input is outside DESIGN 5.21's list of bad inputs and only 'both raise' is required there",
               "afilterfalse(None, ...) and max/min's default= keyword are outside the statement (DESIGN 5.21)",
               "time.sleep in asynq.tools is replaced by a recorder; the number of sleeps is modelled but not part of the projection"]
EXPLANATION = ("Tools.v models each helper as written (traversals of the iterable, one yield of one list of calls) next to models of "
               "the builtins; props/C14.v proves helper = builtin for all inputs; the correspondence compares helper result, builtin "
               "result and flush count of model and implementation on every case in both builds.")

HELPERS = ["amap", "afilter", "afilterfalse", "asorted", "amax", "amin", "asift"]


# ------------------------------------------------------------------ trees
def EInt(z):
    return {"EInt": [z]}


def EBool(b):
    return {"EBool": ["true" if b else "false"]}


def EObj(i):
    return {"EObj": [i]}


ENone = "ENone"


def B(b):
    return "true" if b else "false"


def ekey(e):
    return json.dumps(e, sort_keys=True)


def entry(x, blocks, kout):
    return {"": [x, {"": [B(blocks), kout]}]}


def call_name(call):
    return next(iter(call))[1:].lower() if isinstance(call, dict) else call


def call_parts(call):
    """-> dict(helper, items (list or None), itkind, has_fn, reverse, form, extra)"""
    (name, a), = call.items()
    h = name[1:].lower()
    d = dict(helper=h, has_fn=True, reverse=False, form=None, extra=False)
    if name in ("CAmap", "CAfilterfalse", "CAsift"):
        it = a[0]
    elif name == "CAfilter":
        d["has_fn"] = a[0] == "true"
        it = a[1]
    elif name == "CAsorted":
        it = a[0]
        d["has_fn"] = a[1] == "true"
        d["reverse"] = a[2] == "true"
    else:
        d["has_fn"] = a[1] == "true"
        d["extra"] = a[2] == "true"
        (fk, fa), = a[0].items()
        if fk == "Single":
            it = fa[0]
            d["form"] = "single"
        else:
            d["form"] = "varargs%d" % min(len(fa[0]), 2)
            it = {"Seq": ["STuple", fa[0]]} if len(fa[0]) >= 2 else "NotIter"
            if len(fa[0]) == 0:
                d["form"] = "zero-args"
    if it == "NotIter":
        d["itkind"], d["items"] = ("non-iterable" if d["form"] in (None, "single") else d["form"]), None
    else:
        (k, ia), = it.items()
        if k == "Seq":
            d["itkind"] = {"SList": "list", "STuple": "tuple", "SOther": "other-iterable"}[ia[0]]
            d["items"] = ia[1]
        else:
            d["itkind"] = "one-shot-iterator"
            d["items"] = ia[0]
        if d["form"] and d["form"].startswith("varargs"):
            d["itkind"] = "varargs"
    return d


def table_of(fn):
    return {ekey(e[""][0]): (e[""][1][""][0] == "true", e[""][1][""][1]) for e in reversed(fn)}


def lookup(tab, x):
    return tab.get(ekey(x), (False, {"KVal": [ENone]}))


# ------------------------------------------------------------------ generation
def gen_elements(rng, n, profile):
    if profile == "ints":
        return [EInt(rng.randrange(-2, 5)) for _ in range(n)]
    if profile == "objs":
        ids = [rng.randrange(0, max(1, n)) for _ in range(n)] if rng.random() < 0.3 else list(range(n))
        return [EObj(i) for i in ids]
    if profile == "orderable":
        return [EInt(rng.randrange(-2, 4)) if rng.random() < 0.75 else EBool(rng.random() < 0.5) for _ in range(n)]
    out = []
    for _ in range(n):
        r = rng.random()
        out.append(ENone if r < 0.2 else EInt(rng.randrange(-1, 4)) if r < 0.6 else EBool(r < 0.7) if r < 0.8 else EObj(rng.randrange(0, 4)))
    return out


def gen_value(rng, kind):
    if kind == "key-ties":
        return EInt(rng.randrange(0, 3))
    if kind == "key-wide":
        return EInt(rng.randrange(-20, 20)) if rng.random() < 0.85 else EBool(rng.random() < 0.5)
    if kind == "pred":
        return rng.choice([EBool(True), EBool(False), EBool(True), EBool(False), ENone, EInt(0), EInt(1), EInt(7), EObj(50)])
    if kind == "unorderable":
        return rng.choice([ENone, EObj(60), EObj(61)])
    r = rng.random()
    return ENone if r < 0.15 else EInt(rng.randrange(-5, 30)) if r < 0.7 else EBool(r < 0.8) if r < 0.9 else EObj(rng.randrange(70, 73))


def gen_table(rng, elements, kind, blocking, faults):
    """faults: 'none' | 'unorderable' | 'raising' | 'both'"""
    distinct = []
    for e in elements:
        if e not in distinct:
            distinct.append(e)
    tab = []
    for x in distinct:
        b = blocking == "all" or (blocking == "mixed" and rng.random() < 0.5)
        tab.append([x, b, {"KVal": [gen_value(rng, kind)]}])
    if distinct and faults in ("unorderable", "both"):
        for t in rng.sample(tab, 1 if rng.random() < 0.7 else min(2, len(tab))):
            t[2] = {"KVal": [gen_value(rng, "unorderable")]}
    if distinct and faults in ("raising", "both"):
        for j, t in enumerate(rng.sample(tab, 1 if rng.random() < 0.6 else min(2, len(tab)))):
            t[2] = {"KRaise": [100 + 7 * j + rng.randrange(0, 5)]}
    if tab and rng.random() < 0.04:
        tab.pop(rng.randrange(len(tab)))          # missing entry: the function returns None without blocking
    return [entry(x, b, k) for x, b, k in tab]


def gen_iterable(rng, items, malformed):
    r = rng.random()
    if malformed and r < 0.25:
        return "NotIter"
    r = rng.random()
    if r < 0.30:
        return {"Seq": ["SList", items]}
    if r < 0.50:
        return {"Seq": ["STuple", items]}
    if r < 0.62:
        return {"Seq": ["SOther", items]}
    return {"OneShot": [items]}


def gen_meta(rng, malformed):
    return {"via": "yield" if rng.random() < 0.4 else "call", "oneshot": "gen" if rng.random() < 0.4 else "iter",
            "plain": rng.random() < 0.5, "defaults": rng.random() < 0.5, "malformed": malformed}


def gen_helper(rng, malformed, big=False):
    h = rng.choice(HELPERS)
    n = rng.choice([0, 1, 2, 2, 3, 3, 4, 5, 6, 8] if not big else [5, 8, 12, 20, 30])
    blocking = rng.choice(["all", "all", "none", "mixed", "mixed"])
    faults = "none"
    if malformed:
        faults = rng.choice(["none", "unorderable", "raising", "unorderable", "raising", "both"])
    has_fn = True
    if h in ("asorted", "amax", "amin"):
        has_fn = rng.random() < 0.75
    elif h == "afilter":
        has_fn = rng.random() < 0.8
    if not has_fn:
        prof = "orderable" if h != "afilter" else "mixed"
        if malformed and faults in ("unorderable", "both"):
            prof = "mixed"
    else:
        prof = rng.choice(["ints", "ints", "objs", "objs", "mixed"])
    items = gen_elements(rng, n, prof)
    kind = {"amap": "any", "afilter": "pred", "afilterfalse": "pred", "asift": "pred"}.get(h) or rng.choice(["key-ties", "key-ties", "key-wide"])
    if h in ("afilter", "afilterfalse", "asift", "amap") and faults in ("unorderable", "both"):
        faults = "raising" if faults == "both" else "none"
    fn = gen_table(rng, items, kind, blocking, faults) if has_fn else []
    it = gen_iterable(rng, items, malformed)
    if h == "amap":
        call = {"CAmap": [it]}
    elif h == "afilter":
        call = {"CAfilter": [B(has_fn), it]}
    elif h == "afilterfalse":
        call = {"CAfilterfalse": [it]}
    elif h == "asift":
        call = {"CAsift": [it]}
    elif h == "asorted":
        call = {"CAsorted": [it, B(has_fn), B(rng.random() < 0.5)]}
    else:
        r = rng.random()
        if malformed and r < 0.2:
            form = {"Varargs": [items[:rng.choice([0, 0, 1])]]}
        elif r < 0.55 and len(items) != 1:
            form = {"Varargs": [items]}
        else:
            form = {"Single": [it]}
        call = {"CAmax" if h == "amax" else "CAmin": [form, B(has_fn), B(malformed and rng.random() < 0.12)]}
    return {"tree": {"Helper": [call, fn]}, "meta": gen_meta(rng, malformed)}


def retry_case(listed, max_tries, script, **meta):
    m = {"via": "call", "blocking": False}
    m.update(meta)
    return {"tree": {"Retry": [listed, max_tries, script]}, "meta": m}


def retry_grid(tier):
    """every (k, max_tries), max_tries <= 6, k <= 7, followed by a return / an unlisted raise / the end of the script"""
    out = []
    variants = [dict(via="call", blocking=False)]
    if tier != "quick":
        variants = [dict(via=v, blocking=b) for v in ("call", "yield") for b in (False, True)]
    for mt in range(1, 7):
        for k in range(0, 8):
            pre = [{"ARaise": [(0, 1, 2)[j % 3], 200 + j]} for j in range(k)]
            for end in ("ret", "other", "end"):
                tail = {"ret": [{"ARet": [EInt(40 + k)]}, {"ARaise": [0, 299]}], "other": [{"ARaise": [3, 300 + k]}, {"ARet": [EInt(1)]}], "end": []}[end]
                for v in variants:
                    out.append(retry_case([0, 2], mt, pre + tail, **v))
    return out


def gen_retry(rng, malformed):
    listed = rng.choice([[0], [1], [2], [0, 2], [1, 2], [99], [3, 1], []])
    mt = rng.randrange(1, 7)
    meta = {"via": rng.choice(["call", "yield"]), "blocking": rng.random() < 0.5, "tuple1": rng.random() < 0.3, "malformed": malformed}
    if malformed and rng.random() < 0.5:
        mt = rng.choice([0, -1, -3])
    elif rng.random() < 0.06:
        mt = 10
        meta["default_tries"] = True
    script = []
    for j in range(rng.randrange(0, 12 if mt == 10 else 9)):
        r = rng.random()
        if r < 0.75:
            script.append({"ARaise": [rng.choice([0, 0, 1, 2, 2, 3]), 400 + j]})
        else:
            script.append({"ARet": [gen_value(rng, "any")]})
    return retry_case(listed, mt, script, **meta)


def key_grid(tier):
    """equal keys with unorderable values: every key assignment over {0,1,2}^n on distinct plain objects"""
    out = []
    nmax = 3 if tier == "quick" else 5
    for n in range(0, nmax + 1):
        items = [EObj(i) for i in range(n)]
        for ks in itertools.product(range(3), repeat=n):
            fn = [entry(x, True, {"KVal": [EInt(k)]}) for x, k in zip(items, ks)]
            j = sum(ks) + n
            it = [{"Seq": ["SList", items]}, {"Seq": ["STuple", items]}, {"OneShot": [items]}][j % 3]
            meta = {"via": "yield" if j % 2 else "call", "oneshot": "gen" if j % 4 < 2 else "iter", "plain": False, "grid": True}
            out.append({"tree": {"Helper": [{"CAsorted": [it, "true", "false"]}, fn]}, "meta": meta})
            out.append({"tree": {"Helper": [{"CAsorted": [it, "true", "true"]}, fn]}, "meta": meta})
            form = {"Varargs": [items]} if (j % 3 == 1 and n != 1) else {"Single": [it]}
            out.append({"tree": {"Helper": [{"CAmax": [form, "true", "false"]}, fn]}, "meta": meta})
            out.append({"tree": {"Helper": [{"CAmin": [form, "true", "false"]}, fn]}, "meta": meta})
    return out


def gen_cases(rng, tier):
    quick = tier == "quick"
    cs = key_grid(tier) + retry_grid(tier)
    n = 420 if quick else 16000
    for i in range(n):
        malformed = rng.random() < 0.2
        if rng.random() < 0.1:
            cs.append(gen_retry(rng, malformed))
        else:
            cs.append(gen_helper(rng, malformed, big=(not quick and rng.random() < 0.08)))
    return cs


def _h(call, fn, **meta):
    m = {"via": "call", "oneshot": "iter", "plain": False, "corpus": True}
    m.update(meta)
    return {"tree": {"Helper": [call, fn]}, "meta": m}


_P = [entry(EInt(1), True, {"KVal": [EBool(True)]}), entry(EInt(2), True, {"KVal": [EBool(False)]}), entry(EInt(3), True, {"KVal": [EInt(7)]})]
_I = [EInt(1), EInt(2), EInt(3), EInt(2)]
_K = [entry(EObj(0), True, {"KVal": [EInt(1)]}), entry(EObj(1), True, {"KVal": [EInt(0)]}), entry(EObj(2), True, {"KVal": [EInt(1)]}),
      entry(EObj(3), False, {"KVal": [EInt(0)]})]
_O = [EObj(0), EObj(1), EObj(2), EObj(3)]
CORPUS = [
    _h({"CAsift": [{"OneShot": [_I]}]}, _P),
    _h({"CAsift": [{"OneShot": [_I]}]}, _P, oneshot="gen", via="yield"),
    _h({"CAsift": [{"Seq": ["SList", _I]}]}, _P),
    _h({"CAsift": [{"Seq": ["SOther", _I]}]}, _P),
    _h({"CAmap": [{"OneShot": [_I]}]}, _P),
    _h({"CAfilter": ["true", {"OneShot": [_I]}]}, _P),
    _h({"CAfilter": ["false", {"OneShot": [[ENone, EInt(0), EInt(2), EBool(False), EObj(1)]]}]}, []),
    _h({"CAfilterfalse": [{"OneShot": [_I]}]}, _P, oneshot="gen"),
    _h({"CAsorted": [{"OneShot": [_O]}, "true", "false"]}, _K),
    _h({"CAsorted": [{"Seq": ["STuple", _O]}, "true", "true"]}, _K),
    _h({"CAsorted": [{"Seq": ["SList", [EInt(3), EBool(True), EInt(1), EInt(0), EBool(False)]]}, "false", "true"]}, []),
    _h({"CAsorted": [{"Seq": ["SList", [EInt(3), ENone]]}, "false", "false"]}, []),
    _h({"CAmax": [{"Single": [{"OneShot": [_O]}]}, "true", "false"]}, _K),
    _h({"CAmin": [{"Single": [{"OneShot": [_O]}]}, "true", "false"]}, _K, oneshot="gen"),
    _h({"CAmax": [{"Varargs": [_O]}, "true", "false"]}, _K),
    _h({"CAmin": [{"Varargs": [_O]}, "true", "false"]}, _K),
    _h({"CAmax": [{"Varargs": [[]]}, "true", "false"]}, _K),
    _h({"CAmin": [{"Varargs": [[]]}, "false", "false"]}, []),
    _h({"CAmax": [{"Varargs": [[EInt(4)]]}, "true", "false"]}, _K),
    _h({"CAmax": [{"Single": [{"Seq": ["SList", []]}]}, "true", "false"]}, _K),
    _h({"CAmin": [{"Single": [{"Seq": ["SOther", []]}]}, "false", "false"]}, []),
    _h({"CAmax": [{"Single": [{"Seq": ["SList", _O]}]}, "true", "true"]}, _K),
    _h({"CAmin": [{"Single": ["NotIter"]}, "true", "false"]}, _K),
    _h({"CAmap": ["NotIter"]}, _P),
    _h({"CAsift": ["NotIter"]}, _P),
    _h({"CAmax": [{"Single": [{"Seq": ["SList", [EObj(0), EObj(1)]]}]}, "true", "false"]},
       [entry(EObj(0), True, {"KVal": [ENone]}), entry(EObj(1), True, {"KVal": [EInt(1)]})]),
    _h({"CAmap": [{"Seq": ["SList", _I]}]}, [entry(EInt(1), True, {"KVal": [EInt(5)]}), entry(EInt(2), False, {"KRaise": [101]}), entry(EInt(3), True, {"KRaise": [102]})]),
    retry_case([0], 3, [{"ARaise": [1, 201]}, {"ARaise": [0, 202]}, {"ARaise": [0, 203]}, {"ARet": [EInt(1)]}], corpus=True),
    retry_case([0, 2], 0, [{"ARet": [EInt(1)]}], corpus=True),
    retry_case([99], 10, [{"ARaise": [3, 200 + j]} for j in range(11)], default_tries=True, corpus=True),
]


# ------------------------------------------------------------------ evidence helpers
def canon(c):
    return json.dumps(c["tree"], sort_keys=True)


def nontrivial(c):
    (kind, a), = c["tree"].items()
    if kind == "Retry":
        script = a[2]
        return len(script) >= 1 and "ARaise" in script[0]
    d = call_parts(a[0])
    items = d["items"] or []
    if len(items) < 2:
        return False
    if d["itkind"] == "one-shot-iterator":
        return True
    tab = table_of(a[1])
    keys = [json.dumps(lookup(tab, x)[1], sort_keys=True) if d["has_fn"] else ekey(x) for x in items]
    return len(set(keys)) < len(keys)


def distribution(cases):
    d = {"helper": {}, "iterable": {}, "length": {}, "blocking": {}, "malformed": 0, "via_yield": 0, "faulty_function": 0, "retry": 0}
    for c in cases:
        (kind, a), = c["tree"].items()
        meta = c.get("meta") or {}
        d["malformed"] += 1 if meta.get("malformed") else 0
        d["via_yield"] += 1 if meta.get("via") == "yield" else 0
        if kind == "Retry":
            d["retry"] += 1
            d["helper"]["aretry"] = d["helper"].get("aretry", 0) + 1
            continue
        p = call_parts(a[0])
        d["helper"][p["helper"]] = d["helper"].get(p["helper"], 0) + 1
        d["iterable"][p["itkind"]] = d["iterable"].get(p["itkind"], 0) + 1
        L = len(p["items"] or [])
        b = "0" if L == 0 else "1" if L == 1 else "2-4" if L <= 4 else "5-8" if L <= 8 else "9+"
        d["length"][b] = d["length"].get(b, 0) + 1
        bl = [e[""][1][""][0] == "true" for e in a[1]]
        bk = "no-function" if not p["has_fn"] else "none" if not any(bl) else "all" if all(bl) else "mixed"
        d["blocking"][bk] = d["blocking"].get(bk, 0) + 1
        if any("KRaise" in e[""][1][""][1] for e in a[1]):
            d["faulty_function"] += 1
    return d


def compare(c, m, io):
    mr, ms, mc = m[""]
    ir, isp, ic = io["out"][""]
    if ms != isp:
        return "the builtin's result differs from Tools.call_spec (model of the builtin): model %s, builtin %s" % (json.dumps(ms)[:300], json.dumps(isp)[:300])
    if mr != ir:
        return "the helper's result differs from Tools.call_result: model %s, implementation %s" % (json.dumps(mr)[:300], json.dumps(ir)[:300])
    if [mc[0], mc[1], mc[3]] != [ic[0], ic[1], ic[3]]:
        return "flush count / body runs / expected runs differ: model %s, implementation %s" % (mc, ic)
    return None


# ------------------------------------------------------------------ monitors (no model involved)
def _exc(t):
    return t["Exc"][0] if isinstance(t, dict) and "Exc" in t else None


EXN_NAMES = {-1: "TypeError", -11: "ValueError", -12: "AssertionError"}


def _ename(e):
    if isinstance(e, dict):
        return e["Unexpected"][0]["s"]
    return EXN_NAMES.get(e, "function-error")


def _bad_input_kind(d, tab, fn_raises):
    if d["extra"]:
        return "unexpected-keyword"
    if d["items"] is None:
        return d["itkind"]
    if not d["items"]:
        return "empty"
    if fn_raises:
        return "raising-function"
    return "unorderable-keys"


def _shape(res_v, spec_v, d):
    """how a wrong value differs from the builtin's, in words"""
    (rk, ra), = res_v.items()
    (sk, sa), = spec_v.items()
    if rk != sk:
        return "wrong-type"
    if rk == "RElt":
        return "wrong-element"
    flat_r = [ekey(x) for part in ra for x in part]
    flat_s = [ekey(x) for part in sa for x in part]
    if not flat_r and flat_s:
        return "empty-result"
    if sorted(flat_r) == sorted(flat_s):
        return "wrong-order" if rk == "RList" else "wrong-side"
    return "wrong-elements"


def monitors(c, io, build):
    (kind, a), = c["tree"].items()
    res, spec, cnt = io["out"][""]
    obs = io["obs"]
    fs = []
    if kind == "Retry":
        listed, mt, script = a
        k = obs["k"]
        if mt >= 1:
            want = min(k + 1, mt)
            if cnt[1] != want:
                ending = "all-listed" if k >= len(script) or k >= mt else ("return" if "ARet" in script[k] else "unlisted-raise")
                fs.append(dict(clause="aretry-runs", site="aretry:%s:%s-runs" % (ending, "more" if cnt[1] > want else "fewer"),
                               msg="aretry ran its body %d times; the first k=%d attempts raise a listed exception and max_tries=%d, so it must run min(k+1, max_tries)=%d times"
                                   % (cnt[1], k, mt, want)))
            if res != spec:
                if k < mt and k < len(script) and "ARaise" in script[k]:
                    site = "aretry:unlisted-raise:not-reraised"
                elif k >= mt:
                    site = "aretry:exhausted:last-listed-exception-not-raised"
                else:
                    site = "aretry:return:wrong-value"
                fs.append(dict(clause="aretry-result", site=site,
                               msg="aretry ended with %s, expected %s (k=%d, max_tries=%d)" % (json.dumps(res), json.dumps(spec), k, mt)))
            if not obs["args_ok"]:
                fs.append(dict(clause="aretry-result", site="aretry:arguments-not-passed", msg="the retried body did not receive the wrapper's arguments"))
        return fs

    call, fn = a
    d = call_parts(call)
    h = d["helper"]
    tab = table_of(fn)
    items = d["items"]
    fn_raises = bool(d["has_fn"] and items and any("KRaise" in lookup(tab, x)[1] for x in items))
    re_, se_ = _exc(res), _exc(spec)
    # (1) same value as the builtin
    if se_ is None and re_ is None:
        if res != spec:
            fs.append(dict(clause="equals-builtin", site="%s:%s:%s" % (h, d["itkind"], _shape(res["Val"][0], spec["Val"][0], d)),
                           msg="%s returned %s, the builtin returned %s" % (h, json.dumps(res["Val"][0])[:300], json.dumps(spec["Val"][0])[:300])))
    # (2) same exception type on the same bad input
    elif se_ is not None and re_ is None:
        fs.append(dict(clause="same-exception", site="%s:%s:returned-instead-of-%s" % (h, _bad_input_kind(d, tab, fn_raises), _ename(se_)),
                       msg="the builtin raised %s, %s returned %s" % (_ename(se_), h, json.dumps(res)[:300])))
    elif se_ is None and re_ is not None:
        fs.append(dict(clause="equals-builtin", site="%s:%s:raised-%s" % (h, d["itkind"], _ename(re_)),
                       msg="the builtin returned %s, %s raised %s" % (json.dumps(spec)[:300], h, _ename(re_))))
    elif se_ != re_:
        double_fault = (h in ("amax", "amin") and d["has_fn"] and fn_raises and se_ == -1 and isinstance(re_, int) and re_ > 0
                        and any(lookup(tab, x)[1] == {"KRaise": [re_]} for x in items))
        if not double_fault:
            fs.append(dict(clause="same-exception", site="%s:%s:%s-instead-of-%s" % (h, _bad_input_kind(d, tab, fn_raises), _ename(re_), _ename(se_)),
                           msg="the builtin raised %s (%s), %s raised %s (%s)" % (_ename(se_), se_, h, _ename(re_), re_)))
    # (3) every element is passed to the function exactly once, in order, and all calls are issued before any flush
    if d["has_fn"] and items is not None and not d["extra"] and re_ in (None, se_) and not (h in ("amax", "amin") and not items):
        if obs["calls"] != items:
            n, m = len(obs["calls"]), len(items)
            site = "%s:%s:%s" % (h, d["itkind"], "fewer-calls" if n < m else "more-calls" if n > m else "calls-out-of-order")
            fs.append(dict(clause="one-call-per-element", site=site,
                           msg="%s called the function on %s for the input %s" % (h, json.dumps(obs["calls"])[:300], json.dumps(items)[:300])))
    if not re.match(r"^c*F?$", obs["events"]):
        fs.append(dict(clause="issued-together", site="%s:call-after-flush" % h,
                       msg="%s: calls (c) and flushes (F) happened in the order %s; every per-element call must be issued before the first flush" % (h, obs["events"][:80])))
    # (4) one flush for all requests
    nblock = sum(1 for x in obs["calls"] if lookup(tab, x)[0])
    want = 1 if nblock else 0
    nfl = len(obs["flush_sizes"])
    if nfl != want:
        fs.append(dict(clause="single-flush", site="%s:%s-flushes-for-%s-requests" % (h, nfl if nfl < 3 else "many", "some" if nblock else "no"),
                       msg="%s: %d per-element calls issued a batch request, the harness batch was flushed %d times (sizes %s); expected %d"
                           % (h, nblock, nfl, obs["flush_sizes"], want)))
    elif nfl == 1 and obs["flush_sizes"][0] != nblock:
        fs.append(dict(clause="single-flush", site="%s:flush-misses-requests" % h,
                       msg="%s: the single flush carried %d requests, %d calls issued one" % (h, obs["flush_sizes"][0], nblock)))
    if obs["hook_flushes"] != nfl:
        fs.append(dict(clause="single-flush", site="%s:scheduler-hook-count-differs" % h,
                       msg="%s: on_before_batch_flush fired %d times, the batch was flushed %d times" % (h, obs["hook_flushes"], nfl)))
    return fs


# ------------------------------------------------------------------ shrinking
def _with_items(call, items):
    (name, a), = call.items()
    a = list(a)

    def sub(it):
        if it == "NotIter":
            return it
        (k, ia), = it.items()
        return {"Seq": [ia[0], items]} if k == "Seq" else {"OneShot": [items]}
    if name in ("CAmap", "CAfilterfalse", "CAsift", "CAsorted"):
        a[0] = sub(a[0])
    elif name == "CAfilter":
        a[1] = sub(a[1])
    else:
        (fk, fa), = a[0].items()
        a[0] = {"Single": [sub(fa[0])]} if fk == "Single" else {"Varargs": [items]}
    return {name: a}


def shrink(c):
    (kind, a), = c["tree"].items()
    meta = dict(c.get("meta") or {}, shrunk=True)
    if kind == "Retry":
        listed, mt, script = a
        for i in range(len(script)):
            yield {"tree": {"Retry": [listed, mt, script[:i] + script[i + 1:]]}, "meta": meta}
        if mt > 1:
            yield {"tree": {"Retry": [listed, mt - 1, script]}, "meta": meta}
        return
    call, fn = a
    d = call_parts(call)
    items = d["items"]
    if items:
        for i in range(len(items)):
            it2 = items[:i] + items[i + 1:]
            if d["form"] and d["form"].startswith("varargs") and len(it2) < 2:
                continue
            yield {"tree": {"Helper": [_with_items(call, it2), fn]}, "meta": meta}
    for i in range(len(fn)):
        e = fn[i]
        if e[""][1][""][0] == "true" and sum(1 for g in fn if g[""][1][""][0] == "true") > 1:
            fn2 = fn[:i] + [entry(e[""][0], False, e[""][1][""][1])] + fn[i + 1:]
            yield {"tree": {"Helper": [call, fn2]}, "meta": meta}
    used = {ekey(x) for x in (items or [])}
    fn3 = [e for e in fn if ekey(e[""][0]) in used]
    if len(fn3) < len(fn):
        yield {"tree": {"Helper": [call, fn3]}, "meta": meta}
