"""C07 — context activations nest; scoped overrides read and restore as in sync code."""
from ..lib import mach, machgen

RULE = ("generated programs with nested and concurrent overrides of the same AsyncScopedValue in several pending tasks, logged "
        "AsyncContexts, failures at any step, histories of 1-2 computations; distinct = different AST+params; non-trivial = "
        ">= 1 override block, >= 1 read and >= 2 tasks")
TRUSTED = ["Python/Gallina emitters of harness/lib/machprog.py"]
ASSUMPTIONS = ["read clause: tasks awaited by exactly one task (tree edges); for shared tasks no claim (DESIGN.md 5.21)"]
EXPLANATION = "projection: Read payloads, the global Resume/Pause sequence, Sched markers"

_base = dict(name="overrides", p_ctx_fault=0, p_nonasync=0.0, p_with=0.3, p_override=0.7, p_read=0.2, nvars=2, budget=20,
             max_depth=5, p_sync=0.1, p_raise=0.08, p_try=0.15, roots=(1, 2))
PROFILES = [
    (3, dict(_base)),
    (1, dict(_base, name="onevar", nvars=1, p_read=0.25)),
    (1, dict(_base, name="faulty", p_item_err=0.15, p_flush_raise=0.3, p_raise=0.12)),
]


def _nontrivial(c):
    s = machgen.stats(c)
    return s["overrides"] >= 1 and s["reads"] >= 1 and s["tasks"] >= 2


# an override held around a context whose pause() fails when the task is suspended (NonAsyncContext): the override
# must still be undone for the siblings that run next and after the computation
_PAUSE_FAILS_INSIDE_OVERRIDE = {
    "roots": [
        [{"op": "yield", "x": "x1", "s": {"tuple": [
            {"new": {"task": [{"op": "with", "c": {"override": [1, 0, 150]}, "body": [
                {"op": "with", "c": {"nonasync": 2}, "body": [
                    {"op": "yield", "x": "a1", "s": {"new": {"item": [0, 1, {"set": 1}]}}}]}]},
                {"op": "return", "e": 0}]}},
            {"new": {"task": [{"op": "yield", "x": "b1", "s": {"new": {"item": [0, 2, {"set": 2}]}}},
                              {"op": "read", "x": "r1", "var": 0}, {"op": "return", "e": {"var": "r1"}}]}}]}},
         {"op": "return", "e": {"var": "x1"}}],
        [{"op": "read", "x": "r2", "var": 0}, {"op": "return", "e": {"var": "r2"}}]],
    "params": {"kinds": {}},
}
_EXTRA = [(1, dict(_base, name="pause-fails", p_nonasync=0.3, p_ctx_fault=0.5, p_with=0.45, p_item=0.6, p_read=0.25))]

mach.install(globals(), "C07", ("EvRead", "EvResume", "EvPause", "EvSched"), ("C07:",), PROFILES, n_quick=300,
             n_thorough=25000, nontrivial=_nontrivial, level="proof", corpus=[_PAUSE_FAILS_INSIDE_OVERRIDE],
             extra_gen=mach.extra_profiles(_EXTRA, 40, 3000))
