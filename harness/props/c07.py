"""C07 — context activations nest; scoped overrides read and restore as in sync code."""
from ..lib import mach, machgen

RULE = ("generated programs with nested and concurrent overrides of the same AsyncScopedValue in several pending tasks (trees, and "
        "DAGs: stored handles of overriding tasks awaited by several overriding tasks), logged AsyncContexts, failures at any step, histories of 1-2 computations; distinct = different AST+params; non-trivial = "
        ">= 1 override block, >= 1 read and >= 2 tasks")
TRUSTED = ["Python/Gallina emitters of harness/lib/machprog.py"]
ASSUMPTIONS = ["read clause: for a task awaited by exactly one task (tree edges) the one innermost enclosing override; for a shared task "
               "(several pending awaiters) the innermost override along one of the chains of tasks awaiting it (DESIGN.md 5.21)"]
EXPLANATION = "projection: Read payloads, the global Resume/Pause sequence, Sched markers"

_base = dict(name="overrides", p_ctx_fault=0, p_nonasync=0.0, p_with=0.3, p_override=0.7, p_read=0.2, nvars=2, budget=20,
             max_depth=5, p_sync=0.1, p_raise=0.08, p_try=0.15, roots=(1, 2))
PROFILES = [
    (3, dict(_base)),
    (1, dict(_base, name="onevar", nvars=1, p_read=0.25)),
    (1, dict(_base, name="faulty", p_item_err=0.15, p_flush_raise=0.3, p_raise=0.12)),
]


def _nontrivial(c):
    s = machgen.stats(c)
    return s["overrides"] >= 1 and s["reads"] >= 1 and s["tasks"] >= 2


# an override held around a context whose pause() fails when the task is suspended (NonAsyncContext): the override
# must still be undone for the siblings that run next and after the computation
_PAUSE_FAILS_INSIDE_OVERRIDE = {
    "roots": [
        [{"op": "yield", "x": "x1", "s": {"tuple": [
            {"new": {"task": [{"op": "with", "c": {"override": [1, 0, 150]}, "body": [
                {"op": "with", "c": {"nonasync": 2}, "body": [
                    {"op": "yield", "x": "a1", "s": {"new": {"item": [0, 1, {"set": 1}]}}}]}]},
                {"op": "return", "e": 0}]}},
            {"new": {"task": [{"op": "yield", "x": "b1", "s": {"new": {"item": [0, 2, {"set": 2}]}}},
                              {"op": "read", "x": "r1", "var": 0}, {"op": "return", "e": {"var": "r1"}}]}}]}},
         {"op": "return", "e": {"var": "x1"}}],
        [{"op": "read", "x": "r2", "var": 0}, {"op": "return", "e": {"var": "r2"}}]],
    "params": {"kinds": {}},
}
# a flush body that works under a scoped override of its own: entered and left inside the body, it must leave no trace -
# tasks that run after the flush (and the next computation) read the values of their own enclosing overrides
_FLUSH_OVERRIDES = {
    "roots": [
        [{"op": "with", "c": {"override": [1, 0, 150]}, "body": [
            {"op": "yield", "x": "x1", "s": {"tuple": [
                {"new": {"task": [{"op": "yield", "x": "a1", "s": {"new": {"item": [0, 1, {"set": 1}]}}},
                                  {"op": "read", "x": "r1", "var": 0}, {"op": "return", "e": {"var": "r1"}}]}},
                {"new": {"task": [{"op": "read", "x": "r0", "var": 1},
                                  {"op": "yield", "x": "b1", "s": {"new": {"item": [1, 2, {"set": 2}]}}},
                                  {"op": "read", "x": "r2", "var": 0}, {"op": "read", "x": "r3", "var": 1},
                                  {"op": "return", "e": {"tuple": [{"var": "r2"}, {"var": "r3"}]}}]}}]}},
            {"op": "read", "x": "r4", "var": 0}]},
         {"op": "read", "x": "r5", "var": 0},
         {"op": "return", "e": {"tuple": [{"var": "x1"}, {"var": "r4"}, {"var": "r5"}]}}],
        [{"op": "read", "x": "r6", "var": 0}, {"op": "read", "x": "r7", "var": 1}, {"op": "return", "e": {"var": "r6"}}]],
    "params": {"kinds": {"0": {"override": [0, 55], "probe": True}, "1": {"override": [1, 56], "raise": [1, 1003]}}},
}
# an override entered in the same step in which a task caught the failure of something it awaited (the step was resumed by
# throw(), not send()), held across a suspension; a sibling that runs meanwhile reads the base value
_OVERRIDE_IN_HANDLER = {
    "roots": [
        [{"op": "yield", "x": "x1", "s": {"tuple": [
            {"new": {"task": [
                {"op": "try", "body": [{"op": "yield", "x": "a0", "s": {"new": {"task": [{"op": "raise", "e": 5}]}}}], "x": "e1", "handler": [
                    {"op": "with", "c": {"override": [1, 0, 160]}, "body": [
                        {"op": "read", "x": "r0", "var": 0},
                        {"op": "yield", "x": "a1", "s": {"new": {"item": [0, 1, {"set": 1}]}}},
                        {"op": "read", "x": "r1", "var": 0}]}]},
                {"op": "read", "x": "r2", "var": 0},
                {"op": "return", "e": 0}]}},
            {"new": {"task": [{"op": "yield", "x": "b1", "s": {"new": {"item": [1, 2, {"set": 2}]}}},
                              {"op": "read", "x": "r3", "var": 0},
                              {"op": "yield", "x": "b2", "s": {"new": {"item": [0, 3, {"set": 3}]}}},
                              {"op": "read", "x": "r4", "var": 0}, {"op": "return", "e": 0}]}}]}},
         {"op": "read", "x": "r5", "var": 0}, {"op": "return", "e": 0}],
        [{"op": "read", "x": "r6", "var": 0}, {"op": "return", "e": 0}]],
    "params": {"kinds": {"1": {"prio": ["const", 5, 0]}}},
}
# a SHARED pending task (a stored handle awaited by two tasks: a diamond) that holds an override across a suspension: it is
# started under the override of one awaiter (130) and, after the flush, continued and completed under the override of the
# other one (120, listed first and so continued first).  Its override saves the value it finds at every resume: when it
# leaves its block the first awaiter reads its own 120 again, the second one later its own 130, the root 110, and 0 after
_SHARED_HOLDS_OVERRIDE = {
    "roots": [
        [{"op": "let", "h": "h1", "f": {"task": [
            {"op": "with", "c": {"override": [4, 0, 140]}, "body": [
                {"op": "yield", "x": "a1", "s": {"new": {"item": [0, 1, {"set": 1}]}}},
                {"op": "read", "x": "r1", "var": 0}]},
            {"op": "return", "e": 0}]}},
         {"op": "with", "c": {"override": [1, 0, 110]}, "body": [
            {"op": "yield", "x": "x1", "s": {"tuple": [
                {"new": {"task": [{"op": "with", "c": {"override": [2, 0, 120]}, "body": [
                    {"op": "yield", "x": "b1", "s": {"new": {"item": [0, 2, {"set": 2}]}}},
                    {"op": "yield", "x": "b2", "s": {"old": "h1"}},
                    {"op": "read", "x": "r2", "var": 0}]},
                    {"op": "return", "e": 0}]}},
                {"new": {"task": [{"op": "with", "c": {"override": [3, 0, 130]}, "body": [
                    {"op": "yield", "x": "c1", "s": {"old": "h1"}},
                    {"op": "read", "x": "r3", "var": 0}]},
                    {"op": "return", "e": 0}]}}]}},
            {"op": "read", "x": "r4", "var": 0}]},
         {"op": "read", "x": "r5", "var": 0},
         {"op": "return", "e": 0}],
        [{"op": "read", "x": "r6", "var": 0}, {"op": "return", "e": 0}]],
    "params": {"kinds": {}},
}
_EXTRA = [(1, dict(_base, name="flush-overrides", p_flush_ctx=0.9, p_item=0.6, p_read=0.3, nkinds=2, p_flush_raise=0.25)),
          (1, dict(_base, name="pause-fails", p_nonasync=0.3, p_ctx_fault=0.5, p_with=0.45, p_item=0.6, p_read=0.25))]

# DAG-shaped programs: stored handles of tasks that hold a context across a suspension, awaited by several sibling tasks
# from inside context blocks of their own (machgen.Gen.diamond); drawn after the other classes
_DAG = [(3, dict(_base, name="shared-handles", p_diamond=0.35, p_item=0.6, p_read=0.25, p_raise=0.04, p_sync=0.05, nkinds=2)),
        (1, dict(_base, name="shared-handles-onevar", p_diamond=0.4, nvars=1, p_item=0.6, p_read=0.25, p_item_err=0.15,
                 p_flush_raise=0.25, p_prio=0.6)),
        (1, dict(_base, name="shared-handles-logged", p_diamond=0.35, p_override=0.4, p_with=0.35, p_item=0.6))]

mach.install(globals(), "C07", ("EvRead", "EvResume", "EvPause", "EvSched"), ("C07:",), PROFILES, n_quick=300,
             n_thorough=25000, nontrivial=_nontrivial, level="proof", corpus=[_PAUSE_FAILS_INSIDE_OVERRIDE, _FLUSH_OVERRIDES, _OVERRIDE_IN_HANDLER, _SHARED_HOLDS_OVERRIDE],
             extra_gen=mach.extra_all(mach.extra_profiles(_EXTRA, 70, 5000), mach.extra_profiles(_DAG, 80, 6000)))
