"""C12 — deduplicate: one in-flight execution per key, shared by all callers."""
import inspect
import json

from ..lib import coqrun

PROP = "C12"
COQ_IMPORTS = ["Dedup"]
COQ_FN = "Dedup.run_case_sel"
IMPL = "c12_impl.py"
SHARD = 40
RULE = ("conductor op lists (Call / Dirty from outside any running body, on the main or a second thread; Go = hand the created "
        "tasks to the scheduler; Flush e = let body execution e pass its gate) of length 2..16 (thorough: ..30) over seven real "
        "@deduplicate() callables (two functions with the same signature, one with keyword-only and defaulted parameters, one with "
        "**kw, a method on two instances, a static method, one with *rest), each existing in three generations = distinct function "
        "objects / classes with the same __module__ and __qualname__ (the def statements executed twice in one scope and once more by a "
        "second invocation of the enclosing factory; ~45% of the cases use more than one generation, there ~30% of the hot-key calls "
        "go to another generation of the hot callable) plus body scripts (gates on per-execution harness batches, "
        ".asynq()/dirty() issued from inside the running body, return or raise); ~60% of calls hit one hot key in random "
        "positional/keyword/default spellings; 12% of call spellings are ill-formed (missing, surplus, duplicated, unexpected "
        "arguments); distinct = different (scripts, ops); non-trivial = two well-formed calls that bind the same arguments of the "
        "same callable on the same thread while some body has a gate or no Go separates them; plus the fan-out family (scale): "
        "OFan / BFan = [fn.asynq(i) for i in range(lo, lo+n)] from the conductor or from inside a running body, n in {50, 300, 1100, 2500} "
        "(thorough: also 4000) distinct keys registered at the same time, around 1-3 early keys (created before the fan-out, some started and "
        "gated) that are requested again in random spellings while everything is in flight / after the fan-out completed / after dirty() of "
        "the early key or of fan-out keys / by a second overlapping fan-out")
TRUSTED = ["the harness conductor (lane batches, get_priority steering, awaiter/collector tasks) and the scheduler that runs them "
           "are exercised, not modelled: the model only fixes the order in which dedup-level actions happen",
           "inspect.signature().bind is the reference for 'binds the same arguments' on the implementation side"]
ASSUMPTIONS = ["argument values are ints / None / instances with identity equality (Python's 1 == True == 1.0 and user-defined __eq__ are outside the generator)",
               "a task created through the running-task escape hatch (tools.py 373-377) is private to its caller: no sharing is claimed for it, as the statement says 'from outside the running body'",
               "bodies are generator functions, so an ill-formed call raises TypeError out of .asynq(); custom keygetters and asyncio mode are not driven",
               "sharing with a body that is resumed by generator.throw (task.running stays False there) is not driven: gates never fail"]

NAMES = {0: "self", 1: "a", 2: "b", 3: "c", 4: "d", 5: "x", 6: "y", 7: "z"}
KINDS = ["function", "function", "function", "function", "method", "static", "function"]
_SIGS = [inspect.signature(f) for f in (
    lambda a, b=0: 0, lambda a, b=0: 0, lambda a, b, c=5, *, d=7: 0, lambda a, **kw: 0,
    lambda self, a, b=0: 0, lambda a, b=0: 0, lambda a, *rest, d=0: 0)]
# parameters a spelling may give: (name id, default or None)
_PARAMS = {0: [(1, None), (2, 0)], 1: [(1, None), (2, 0)], 2: [(1, None), (2, None), (3, 5), (4, 7)],
           3: [(1, None)], 4: [(1, None), (2, 0)], 5: [(1, None), (2, 0)], 6: [(1, None)]}
_NPOSMAX = {0: 2, 1: 2, 2: 3, 3: 1, 4: 2, 5: 2, 6: 1}


def A(z):
    return "ANone" if z is None else {"AInt": [z]}


def _spell(rng, fn, vals, extra=None, rest=None, d6=None):
    """A random well-formed spelling of the call that binds `vals` (list aligned with _PARAMS[fn])."""
    ps = _PARAMS[fn]
    npos = rng.randrange(0, min(_NPOSMAX[fn], len(ps)) + 1)
    if fn == 6 and rest:
        npos = 1
    pos = [A(v) for v in vals[:npos]]
    kw = []
    for (n, dflt), v in list(zip(ps, vals))[npos:]:
        if dflt is not None and v == dflt and rng.random() < 0.6:
            continue
        kw.append((n, v))
    if fn == 6:
        pos += [A(v) for v in (rest or [])]
        if d6 is not None and (d6 != 0 or rng.random() < 0.4):
            kw.append((4, d6))
    if extra:
        kw += extra
    rng.shuffle(kw)
    return pos, [{"": [n, A(v)]} for n, v in kw]


def _args_for(rng, fn, hot):
    ps = _PARAMS[fn]
    if hot is not None:
        vals = list(hot)
    else:
        vals = [rng.choice([1, 1, 2, None]) if d is None else rng.choice([d, d, 1]) for _, d in ps]
    return vals[:len(ps)] + [1] * (len(ps) - len(vals))


NGEN = 3


def _call_spec(rng, hot, malformed, gens=None):
    """-> (fn, gen, inst, pos, kw); gens = None (single-generation case) or the generations in use"""
    gen = 0
    if hot and rng.random() < 0.6:
        fn, inst, vals, extra, rest, d6 = hot
        if rng.random() < 0.12:
            inst = 1 - inst
        if gens and rng.random() < 0.3:          # the same-named function object of another generation
            gen = rng.choice(gens[1:])
        if fn == 6:                              # surplus positional vs keyword-only spellings of f6
            rest = rng.choice([[], [], [2], [0]])
            d6 = rng.choice([0, 0, 2])
    else:
        fn = rng.choice([0, 0, 0, 1, 2, 3, 4, 4, 5, 6])
        inst = rng.randrange(2)
        vals = _args_for(rng, fn, None)
        extra = [(n, rng.choice([1, 2])) for n in (5, 6, 7) if rng.random() < 0.35] if fn == 3 else None
        rest = [rng.choice([0, 1, 2]) for _ in range(rng.choice([0, 0, 1, 2]))] if fn == 6 else None
        d6 = rng.choice([0, 0, 1, 2]) if fn == 6 else None
        if gens:
            gen = rng.choice(gens)
    pos, kw = _spell(rng, fn, vals, extra, rest, d6)
    if malformed:
        r = rng.random()
        if r < 0.3 and pos:                      # drop a required positional
            pos = pos[1:]
        elif r < 0.3:
            kw = [k for k in kw if k[""][0] != 1]
        elif r < 0.55:                           # surplus positionals
            pos = pos + [A(9)] * (1 + _NPOSMAX[fn])
        elif r < 0.8:                            # the same parameter positionally and by keyword
            if not pos:
                pos = [A(1)]
            kw = [k for k in kw if k[""][0] != 1] + [{"": [1, A(1)]}]
        else:                                    # unexpected keyword
            kw = kw + [{"": [7, A(3)]}]
    seen, uniq = set(), []
    for k in kw:                                 # a Python dict: keyword names are distinct
        if k[""][0] not in seen:
            seen.add(k[""][0])
            uniq.append(k)
    return fn, gen, inst, pos, uniq


def gen_case(rng, tier):
    big = tier != "quick"
    gens = None
    if rng.random() < 0.45:                      # generations in use; gens[0] = 0 is the hot callable's
        gens = [0] + rng.choice([[1], [2], [1, 2]])
    hot_fn = rng.choice([0, 0, 0, 2, 3, 4, 4, 5, 6])
    hot = (hot_fn, rng.randrange(2), _args_for(rng, hot_fn, None),
           ([(5, 1)] if hot_fn == 3 and rng.random() < 0.5 else None),
           ([rng.choice([1, 2])] if hot_fn == 6 and rng.random() < 0.5 else None),
           (rng.choice([0, 1, 2]) if hot_fn == 6 else None))
    nscripts = rng.choice([0, 1, 2, 3, 4, 6] if not big else [0, 1, 2, 3, 4, 6, 8])
    scripts = []
    for _ in range(nscripts):
        steps = []
        for _ in range(rng.choice([0, 1, 1, 2, 2, 3])):
            r = rng.random()
            if r < 0.70:
                steps.append("BGate")
            elif r < 0.90:
                fn, gen, inst, pos, kw = _call_spec(rng, hot, rng.random() < 0.08, gens)
                steps.append({"BCall": [fn, gen, inst, pos, kw]})
            else:
                fn, gen, inst, pos, kw = _call_spec(rng, hot, False, gens)
                steps.append({"BDirty": [fn, gen, inst, pos, kw]})
        fin = {"Ret": [rng.randrange(10, 60)]} if rng.random() < 0.8 else {"Raise": [rng.randrange(100, 160)]}
        scripts.append({"": [steps, fin]})
    n = rng.randrange(2, 17 if not big else 31)
    ops = []
    ncalls = 0
    for _ in range(n):
        r = rng.random()
        if r < 0.52 or not ops:
            fn, gen, inst, pos, kw = _call_spec(rng, hot, rng.random() < 0.12, gens)
            ops.append({"OCall": [1 if rng.random() < 0.12 else 0, fn, gen, inst, pos, kw]})
            ncalls += 1
        elif r < 0.64:
            fn, gen, inst, pos, kw = _call_spec(rng, hot, rng.random() < 0.05, gens)
            ops.append({"ODirty": [1 if rng.random() < 0.08 else 0, fn, gen, inst, pos, kw]})
        elif r < 0.80:
            ops.append("OGo")
        else:
            ops.append({"OFlush": [{"n": rng.randrange(0, max(1, ncalls + 1))}]})
    return {"args": [scripts, ops], "tree": [scripts, ops], "meta": {"hot_fn": hot_fn, "gens": gens or [0]}}


FAN_FNS = [0, 0, 1, 3, 4, 5, 6]          # callables with one required parameter `a` (f2 needs two: TypeError, used rarely)


def _fan(th, fn, gen, inst, sp, lo, n):
    return {"OFan": [th, fn, gen, inst, sp, lo, n]}


def gen_fan_case(rng, tier, size):
    """Scale: `size` distinct keys registered at once around a few early keys that are requested again."""
    gens = [0] + (rng.choice([[1], [2]]) if rng.random() < 0.3 else [])
    ffn = rng.choice(FAN_FNS) if rng.random() < 0.93 else 2
    fgen = rng.choice(gens)
    fth = 1 if rng.random() < 0.1 else 0
    finst = rng.randrange(2)
    fsp = rng.choice([0, 0, 1])
    lo = rng.choice([0, 2, 100, 1000])
    # early keys: same callable as the fan-out (inside or outside its range) or another one
    early = []
    for _ in range(rng.choice([1, 1, 2, 3])):
        r = rng.random()
        if r < 0.45:
            efn, egen, einst, eth = ffn, fgen, finst, fth
            a = rng.choice([lo - 1, lo + size + 5, lo + rng.randrange(size), lo, lo + size - 1])
            if a < 0:
                a = lo + size
        elif r < 0.6:
            efn, egen, einst, eth, a = ffn, rng.choice(gens), 1 - finst, 0, lo + rng.randrange(size)
        else:
            efn, egen, einst, eth, a = rng.choice([0, 1, 2, 3, 4, 5, 6]), rng.choice(gens), rng.randrange(2), (1 if rng.random() < 0.1 else 0), rng.choice([1, 2, lo + 1])
        vals = [a] + [d if d is not None else 2 for _, d in _PARAMS[efn][1:]]
        early.append((efn, egen, einst, eth, vals))

    def ecall(e, malformed=False):
        efn, egen, einst, eth, vals = e
        pos, kw = _spell(rng, efn, vals, None, [] if efn == 6 else None, 0 if efn == 6 else None)
        return {"OCall": [eth, efn, egen, einst, pos, kw]}

    def edirty(e):
        o = ecall(e)
        return {"ODirty": o["OCall"]}

    def fankey_call(j, dirty=False):
        pos, kw = _spell(rng, ffn, [lo + j] + [d if d is not None else 2 for _, d in _PARAMS[ffn][1:]], None, [] if ffn == 6 else None, 0 if ffn == 6 else None)
        return {("ODirty" if dirty else "OCall"): [fth, ffn, fgen, finst, pos, kw]}

    fan_in_body = rng.random() < 0.2
    nscripts = rng.choice([1, 2, 3])
    scripts = []
    for i in range(nscripts):
        steps = ["BGate"] * rng.choice([1, 1, 2])
        if i == 0 and fan_in_body:
            steps = [{"BFan": [ffn, fgen, finst, fsp, lo, size]}] + steps
            if rng.random() < 0.5:
                steps = ["BGate"] + steps
        fin = {"Ret": [rng.randrange(10, 60)]} if rng.random() < 0.85 else {"Raise": [rng.randrange(100, 160)]}
        scripts.append({"": [steps, fin]})
    ops = [ecall(e) for e in early]
    started = rng.random() < 0.6 or fan_in_body
    if started:
        ops.append("OGo")                      # the early bodies start and block on their gates
        if fan_in_body and scripts[0][""][0][0] == "BGate":
            ops.append({"OFlush": [{"n": 0}]})
    if not fan_in_body:
        ops.append(_fan(fth, ffn, fgen, finst, fsp, lo, size))
    phase = rng.choice(["inflight", "inflight", "completed", "dirty-early", "dirty-fan", "refan"])
    if phase == "completed":
        ops.append("OGo")                      # the fan-out bodies run to completion, the early ones stay gated
    elif phase == "dirty-early":
        ops.append(edirty(rng.choice(early)))
    elif phase == "dirty-fan":
        for _ in range(rng.choice([1, 2, 5])):
            ops.append(fankey_call(rng.randrange(size), dirty=True))
    elif phase == "refan":
        n2 = min(size, rng.choice([50, 300, size]))
        lo2 = lo + rng.choice([0, 0, size // 2, size - n2 // 2])
        if rng.random() < 0.3:
            ops.append("OGo")
        ops.append(_fan(fth, ffn, fgen, finst, rng.choice([fsp, 1 - fsp]), lo2, n2 if size <= 1100 else min(n2, 300)))
    # the early keys again, and some fan-out keys again
    for _ in range(rng.choice([1, 2, 3])):
        r = rng.random()
        if r < 0.7:
            ops.append(ecall(rng.choice(early)))
        else:
            ops.append(fankey_call(rng.choice([0, size - 1, rng.randrange(size)])))
    for _ in range(rng.choice([0, 1, 2, 3])):
        r = rng.random()
        if r < 0.35:
            ops.append("OGo")
        elif r < 0.6:
            ops.append({"OFlush": [{"n": rng.randrange(0, nscripts)}]})
        elif r < 0.85:
            ops.append(ecall(rng.choice(early)))
        else:
            ops.append(edirty(rng.choice(early)))
    return {"args": [scripts, ops], "tree": [scripts, ops], "meta": {"fan": size, "phase": phase, "fan_in_body": fan_in_body, "gens": gens}}


FAN_SIZES = {"quick": [2500] * 1 + [1100] * 5 + [300] * 12 + [50] * 18,
             "thorough": [4000] * 3 + [2500] * 12 + [1100] * 45 + [300] * 110 + [50] * 180}


def gen_cases(rng, tier):
    n = 700 if tier == "quick" else 9000
    cases = [gen_case(rng, tier) for _ in range(n)]
    # the fan-out family, spread over the whole list: the model is evaluated in contiguous shards of SHARD cases (one coqc
    # each, in parallel), so the heavy cases (heaviest first in FAN_SIZES) go round-robin into different shards, not the
    # first one (which holds the corpus)
    sizes = FAN_SIZES["quick" if tier == "quick" else "thorough"]
    fans = [gen_fan_case(rng, tier, sz) for sz in sizes]
    ncorpus = len(CORPUS)
    nshards = max(2, (ncorpus + n + len(fans) + SHARD - 1) // SHARD)
    where = sorted(((1 + j % (nshards - 1)) * SHARD + 1 + j // (nshards - 1) - ncorpus, j) for j in range(len(fans)))
    for pos, j in where:                                          # ascending: the positions are final positions
        cases.insert(max(0, min(len(cases), pos)), fans[j])
    return cases


# ------------------------------------------------------------------ corpus
def _mk(scripts, ops):
    return {"args": [scripts, ops], "tree": [scripts, ops], "meta": {"corpus": True}}


def _c(fn, pos, kw=(), inst=0, thread=0, gen=0):
    return {"OCall": [thread, fn, gen, inst, [A(p) for p in pos], [{"": [k, A(v)]} for k, v in kw]]}


def _d(fn, pos, kw=(), inst=0, thread=0, gen=0):
    return {"ODirty": [thread, fn, gen, inst, [A(p) for p in pos], [{"": [k, A(v)]} for k, v in kw]]}


def _s(steps, fin=("Ret", 0)):
    return {"": [steps, {fin[0]: [fin[1]]}]}


def _f(e):
    return {"OFlush": [{"n": e}]}


G = "BGate"
CORPUS = [
    # same yield, three spellings of one key; other function, other instance, static, other thread
    _mk([_s([G], ("Ret", 10))],
        [_c(0, [1]), _c(0, [], [(1, 1)]), _c(0, [1, 0]), _c(1, [1]), _c(4, [1]), _c(4, [1], inst=1), _c(5, [1]), _c(5, [1], inst=1),
         _c(0, [1], thread=1), "OGo", _c(0, [1], [(2, 0)]), "OGo", _f(0), _c(0, [1]), "OGo"]),
    # later step while the first is blocked between its two flushes; then after completion
    _mk([_s([G, G], ("Raise", 101)), _s([], ("Ret", 11))], [_c(2, [1, 2]), "OGo", _f(0), _c(2, [1], [(2, 2), (4, 7)]), "OGo", _f(0), _c(2, [1, 2, 5]), "OGo"]),
    # dirty, new call, the old task completes first, third call (stale-callback scenario)
    _mk([_s([G], ("Ret", 10)), _s([G, G], ("Ret", 11)), _s([], ("Raise", 112))],
        [_c(0, [1]), _d(0, [1]), _c(0, [1], [(2, 0)]), "OGo", _f(0), _c(0, [1, 0]), "OGo"]),
    # call and dirty from inside the running body (escape hatch; dirty + self call)
    _mk([_s([{"BCall": [0, 0, 0, [A(1)], []]}, G, {"BDirty": [0, 0, 0, [A(1)], []]}, {"BCall": [0, 0, 0, [A(1)], []]}, G], ("Ret", 20))],
        [_c(0, [1]), "OGo", _c(0, [1]), _f(0), _c(0, [1]), "OGo"]),
    # **kw and *rest spellings
    _mk([_s([G])], [_c(3, [1], [(5, 2), (7, 1)]), _c(3, [], [(7, 1), (1, 1), (5, 2)]), _c(3, [1], [(5, 2)]), _c(6, [1, 2]), _c(6, [1, 2], [(4, 0)]),
                    _c(6, [1], [(4, 0)]), "OGo"]),
    # surplus positional vs keyword-only argument of a *rest function
    _mk([_s([G], ("Ret", 12))], [_c(6, [1, 2]), _c(6, [1], [(4, 2)]), "OGo"]),
    # ill-formed spellings
    _mk([], [_c(0, []), _c(0, [1, 2, 3]), _c(0, [1], [(1, 1)]), _c(0, [1], [(7, 3)]), _c(2, [1]), _d(0, []), _c(0, [1]), _c(0, [1, 0], [(2, 0)]), "OGo"]),
    _mk([], []),
    # same-named function objects (generations 0 / 1 = defined twice in one scope, 2 = second factory invocation), equal
    # arguments, same yield: one task per function object, each shared by its own spellings; static method and method likewise
    _mk([_s([G], ("Ret", 10)), _s([G], ("Ret", 11)), _s([], ("Raise", 112)), _s([], ("Ret", 13)), _s([], ("Ret", 14)), _s([], ("Ret", 15)), _s([], ("Ret", 16))],
        [_c(0, [1]), _c(0, [1], gen=1), _c(0, [], [(1, 1)]), _c(0, [1, 0], gen=1), _c(0, [1], gen=2), _c(5, [1]), _c(5, [1], gen=2),
         _c(4, [1]), _c(4, [1], gen=1), "OGo", _c(0, [1], [(2, 0)], gen=1), _c(0, [1, 0]), "OGo"]),
    # dirty() of one generation while the same-named function of the other has its task in flight; later step; the other's completion
    _mk([_s([G], ("Ret", 10)), _s([G, G], ("Ret", 11)), _s([], ("Ret", 12))],
        [_c(0, [1]), _c(0, [1], gen=1), "OGo", _d(0, [1], gen=1), _c(0, [1, 0]), _c(0, [1], gen=1), "OGo", _f(0), _c(0, [1], gen=1),
         _f(1), _c(0, [], [(1, 1)], gen=1), "OGo"]),
    # a call of the other generation from inside the running body (not the escape hatch: another function object), and its dirty()
    _mk([_s([{"BCall": [2, 2, 0, [A(1), A(2)], []]}, G, {"BDirty": [2, 2, 0, [A(1), A(2)], []]}, G], ("Ret", 20)), _s([G], ("Ret", 21))],
        [_c(2, [1, 2]), "OGo", _c(2, [1], [(2, 2)]), _c(2, [1, 2, 5], gen=2), "OGo", _f(0), _c(2, [1, 2]), _c(2, [1, 2], gen=2), "OGo"]),
    # scale: one key, then 1100 other keys of another function registered in the same step, then the first key again
    _mk([_s([G], ("Ret", 10))], [_c(0, [1]), _fan(0, 1, 0, 0, 0, 0, 1100), _c(0, [], [(1, 1)]), "OGo"]),
    # the first key's body is blocked on its gate; a fan-out over 1100 keys of the SAME function is created, runs and completes;
    # a later step asks for the first key again (shared), for a completed fan-out key (new task) and for the first key once more
    _mk([_s([G], ("Ret", 10))], [_c(0, [7]), "OGo", _fan(0, 0, 0, 0, 0, 100, 1100), "OGo", _c(0, [7, 0]), _c(0, [100]), _c(0, [], [(1, 7)]), "OGo"]),
    # the fan-out is issued from inside a running body (`yield [g.asynq(i) for i in ids]`), 300 keys of the static method;
    # dirty() of a fan-out key, then the early key again, the dirtied key again, the early key dirtied and requested again
    _mk([_s([{"BFan": [5, 0, 0, 1, 0, 300]}, G], ("Ret", 10)), _s([G], ("Ret", 11))],
        [_c(4, [1]), _c(0, [3]), "OGo", _d(5, [5]), _c(0, [3], [(2, 0)]), _c(5, [5]), _d(0, [3]), _c(0, [3]), "OGo"]),
]


def _has_fan(c):
    scripts, ops = c["args"]
    return (any(isinstance(o, dict) and "OFan" in o for o in ops) or
            any(isinstance(x, dict) and "BFan" in x for s_ in scripts for x in s_[""][0]))


def model_input(c):
    # fan-out cases: only the fully repaired code and the code as written are evaluated (Dedup.run_case_sel)
    return ("(1)%Z " if _has_fan(c) else "(0)%Z ") + " ".join(coqrun.coq_of(a) for a in c["args"])


def canon(c):
    return json.dumps(c["args"], sort_keys=True)


def _py(t):
    return None if t == "ANone" else t["AInt"][0]


def _refkey(thread, fn, gen, inst, pos, kw, named=False):
    """reference key of a call; named=True: the function object replaced by its name (no generation)"""
    args = [_py(p) for p in pos]
    if fn == 4:
        args = ["inst%d.%d" % (gen % NGEN, inst % 2)] + args
    kwargs = {NAMES[k[""][0]]: _py(k[""][1]) for k in kw}
    try:
        b = _SIGS[fn].bind(*args, **kwargs)
    except TypeError:
        return None
    b.apply_defaults()
    return json.dumps([thread, fn, None if named else gen % NGEN, sorted(b.arguments.items())], sort_keys=True, default=str)


def nontrivial(c):
    scripts, ops = c["args"]
    gates = any("BGate" in s[""][0] for s in scripts)
    seen = {}
    go = 0
    for o in ops:
        if o == "OGo":
            go += 1
        elif isinstance(o, dict) and ("OCall" in o or "OFan" in o):
            if "OFan" in o:
                th, fn, gen, inst, sp, lo, n = o["OFan"]
                calls = [[th, fn, gen, inst] + ([[], [{"": [1, A(i)]}]] if sp == 1 else [[A(i)], []]) for i in range(lo, lo + n)]
            else:
                calls = [o["OCall"]]
            for cl in calls:
                k = _refkey(*cl)
                if k is None:
                    continue
                if k in seen and (gates or seen[k] == go):
                    return True
                seen.setdefault(k, go)
    return False


VARIANTS = ["Repaired", "AsWritten", "CallbackRepaired", "KeyRepaired"]


def compare(c, m, io):
    """The implementation must behave, on every case, exactly like Dedup.run_variant for one of the four
    variants (code as written / one / both proposed repairs applied).  Where AsWritten departs from the
    statement is not decided here: the monitors report it (known findings) and C12.v refutes it."""
    if "out" not in io:
        return "the implementation run did not finish (%s)" % next(iter(io))
    if io["out"] in m:
        return None
    return ("call results / body executions / caller outcomes / leftover registry entries differ from Dedup.run_case "
            "(all of %s)" % ", ".join(VARIANTS))


def distribution(cases):
    d = {"ops": {}, "oplen": {}, "hot_fn": {}, "scripts_with_gates": 0, "inner_calls": 0, "inner_dirty": 0, "malformed_calls": 0,
         "other_thread_calls": 0, "calls": 0, "generations_in_use": {}, "calls_by_generation": {},
         "cases_with_same_named_functions_called_with_equal_arguments": 0,
         "fan_out_cases_by_keys_registered_at_once": {}, "fan_out_phase": {}, "fan_out_from_inside_a_body": 0, "fan_out_calls": 0}
    for c in cases:
        scripts, ops = c["args"]
        fans = [o["OFan"][6] for o in ops if isinstance(o, dict) and "OFan" in o] + [
            x["BFan"][5] for s_ in scripts for x in s_[""][0] if isinstance(x, dict) and "BFan" in x]
        if fans:
            b = str(max(fans))
            d["fan_out_cases_by_keys_registered_at_once"][b] = d["fan_out_cases_by_keys_registered_at_once"].get(b, 0) + 1
            ph = str(c.get("meta", {}).get("phase", "corpus"))
            d["fan_out_phase"][ph] = d["fan_out_phase"].get(ph, 0) + 1
            d["fan_out_calls"] += sum(fans)
            if any(isinstance(x, dict) and "BFan" in x for s_ in scripts for x in s_[""][0]):
                d["fan_out_from_inside_a_body"] += 1
        L = len(ops)
        b = "0-3" if L <= 3 else "4-8" if L <= 8 else "9-16" if L <= 16 else "17-30"
        d["oplen"][b] = d["oplen"].get(b, 0) + 1
        h = str(c.get("meta", {}).get("hot_fn"))
        d["hot_fn"][h] = d["hot_fn"].get(h, 0) + 1
        g = str(len(c.get("meta", {}).get("gens", [0])))
        d["generations_in_use"][g] = d["generations_in_use"].get(g, 0) + 1
        named = {}
        for a in [o["OCall"] for o in ops if isinstance(o, dict) and "OCall" in o] + [
                [0] + x["BCall"] for s_ in scripts for x in s_[""][0] if isinstance(x, dict) and "BCall" in x]:
            nk = _refkey(*a, named=True)
            if nk is not None:
                named.setdefault(nk, set()).add(a[2])
        if any(len(v) > 1 for v in named.values()):
            d["cases_with_same_named_functions_called_with_equal_arguments"] += 1
        for o in ops:
            nm = o if isinstance(o, str) else next(iter(o))
            d["ops"][nm] = d["ops"].get(nm, 0) + 1
            if nm == "OCall":
                d["calls"] += 1
                gg = str(o["OCall"][2])
                d["calls_by_generation"][gg] = d["calls_by_generation"].get(gg, 0) + 1
                if o["OCall"][0] == 1:
                    d["other_thread_calls"] += 1
                if _refkey(*o["OCall"]) is None:
                    d["malformed_calls"] += 1
        for s in scripts:
            st = s[""][0]
            d["scripts_with_gates"] += 1 if "BGate" in st else 0
            d["inner_calls"] += sum(1 for x in st if isinstance(x, dict) and "BCall" in x)
            d["inner_dirty"] += sum(1 for x in st if isinstance(x, dict) and "BDirty" in x)
    return d


# ------------------------------------------------------------------ monitors (never consult the model)
def _K(d):
    if d["bound"] == "None":
        return None
    return json.dumps([d["thread"], d["fn"], d["gen"], d["bound"]], sort_keys=True)


def _NK(d):
    """the key with the function object replaced by its name: equal for same-named function objects of different generations
    (a method's binding holds the instance, which belongs to one generation's class)"""
    return json.dumps([d["thread"], d["fn"], d["bound"]], sort_keys=True)


def _shape(d):
    return "%dp+%s" % (d["npos"], ",".join(d["kws"]))


class _I(object):
    def __init__(self, g, i):
        self.g, self.i = g, i


def _tv(v):
    return "ANone" if v is None else {"AInst": [v.g, v.i]} if isinstance(v, _I) else {"AInt": [v]}


def _bound_tree(fn, gen, inst, pos, kw):
    """inspect.signature().bind of a fan-out call, in the form the runner reports for ordinary calls"""
    args = list(pos)
    if fn == 4:
        args = [_I(gen % NGEN, inst % 2)] + args
    sig = _SIGS[fn]
    try:
        b = sig.bind(*args, **{NAMES[k]: v for k, v in kw})
    except TypeError:
        return "None"
    b.apply_defaults()
    named, rest, extra = [], [], []
    for name, p in sig.parameters.items():
        v = b.arguments[name]
        if p.kind == p.VAR_POSITIONAL:
            rest = [_tv(x) for x in v]
        elif p.kind == p.VAR_KEYWORD:
            extra = [{"": [{v2: k2 for k2, v2 in NAMES.items()}[n], _tv(x)]} for n, x in sorted(v.items())]
        else:
            named.append(_tv(v))
    return {"Some": [{"": [named, rest, extra]}]}


class _InFlight(object):
    """tasks observed not computed when the call was issued: ranges [lo, hi) of task ids; `since` = first id of the tasks
    created by earlier calls of the same fan-out (nothing runs during a fan-out)"""

    def __init__(self, rs, since=None):
        self.rs, self.since = rs, since

    def __contains__(self, t):
        if self.since is not None and t >= self.since:
            return True
        lo, hi = 0, len(self.rs)
        while lo < hi:
            mid = (lo + hi) // 2
            if self.rs[mid][1] <= t:
                lo = mid + 1
            else:
                hi = mid
        return lo < len(self.rs) and self.rs[lo][0] <= t < self.rs[lo][1]


def _fan_calls(f):
    """the calls of a fan-out as ordinary call records"""
    infl = _InFlight(f["inflight"], f["known"])
    i = 0
    for tid0, cnt, new in f["segs"]:
        for j in range(cnt):
            v = f["lo"] + i
            pos, kw = ([], [(1, v)]) if f["sp"] == 1 else ([v], [])
            yield dict(cid=f["cid0"] + i, ctx=f["ctx"], thread=f["thread"], fn=f["fn"], gen=f["gen"], inst=f["inst"], kind=f["kind"],
                       npos=len(pos), kws=["a"] if kw else [], bound=_bound_tree(f["fn"], f["gen"], f["inst"], pos, kw),
                       tid=None if tid0 is None else tid0 + j, new=bool(new), inflight=infl, running=f["running"], fan=True)
            i += 1


def _scale(n):
    """how many keys the statement says are in flight, as a site component"""
    for b in (4096, 1024, 256, 64):
        if n >= b:
            return "%d+" % b
    return None


def monitors(c, io, build):
    if "out" not in io:
        return [dict(clause="terminates", site="run:%s" % next(iter(io)), msg="the case did not run to completion: %s" % next(iter(io)))]
    fs = []
    trace, got, left = io["out"][""]
    got = {g[""][0] + j: g[""][2] for g in got for j in range(g[""][1])}
    cur = {}            # key -> the task the statement says is in flight for it
    cur_named = {}      # name of the key -> keys in cur
    made_key = {}       # tid -> the key it was created for
    creator = {}        # tid -> call record that created it
    made_for = {}       # key -> tasks created for it by calls that had to run the body
    stale = {}          # key -> an older task of the key completed after cur[key] was created
    done = {}
    tainted = set()
    bad_dirty = set()
    star_used = set()   # (thread, fn, generation) of a *rest callable that has been called / dirtied with surplus positionals
    task_keys = {}
    callers = {}
    starts = {}
    name_of = {}        # key -> key with the function object replaced by its name
    aliased = set()     # keys such that dirty() / a completion happened for a same-named function object with equal arguments

    def alias(k):
        for k2 in cur_named.get(name_of.get(k), ()):
            if k2 != k:
                aliased.add(k2)

    def uncur(k):
        if k in cur:
            del cur[k]
            cur_named.get(name_of.get(k), set()).discard(k)

    def events():
        for ev in io["seq"]:
            if ev[0] == "fan":
                for d in _fan_calls(ev[1]):
                    yield ("call", d)
            else:
                if ev[0] == "call":
                    yield ("call", dict(ev[1], inflight=_InFlight(ev[1]["inflight"])))    # (the runner's output is not modified)
                else:
                    yield ev
    for ev in events():
        what = ev[0]
        if what == "call":
            d = ev[1]
            k = _K(d)
            if k is None:
                continue                      # ill-formed call: outside the statement
            if d["tid"] is None:
                fs.append(dict(clause="well-formed-call", site="%s:TypeError" % d["kind"],
                               msg="well-formed call %d (%s fn %d, %s) raised TypeError" % (d["cid"], d["kind"], d["fn"], _shape(d))))
                continue
            name_of[k] = _NK(d)
            task_keys.setdefault(d["tid"], {})[k] = d
            callers[d["cid"]] = d["tid"]
            if d["bound"]["Some"][0][""][1]:
                star_used.add((d["thread"], d["fn"], d["gen"]))
            if k in tainted or (d["thread"], d["fn"], d["gen"]) in bad_dirty:
                continue
            t = cur.get(k)
            if t is not None:
                if t in d["running"]:
                    continue                  # from inside the running body of the key's task: no claim
                if t not in d["inflight"]:          # computed although its body never reported completion
                    fs.append(dict(clause="same-outcome", site="task-computed-without-body-completion",
                                   msg="task %d is_computed() at call %d although its body has not returned or raised" % (t, d["cid"])))
                    tainted.add(k)
                    continue
                if d["tid"] != t:
                    if stale.get(k):
                        site = "new-task-while-in-flight:older-task-of-key-completed-after-dirty"
                    elif (not d["new"] and d["tid"] in creator and creator[d["tid"]]["gen"] != d["gen"]
                          and _NK(creator[d["tid"]]) == _NK(d)):
                        site = "other-task-while-in-flight:%s:task-of-same-named-function" % d["kind"]
                    elif k in aliased:
                        site = "%s-while-in-flight:%s:same-named-function-dirtied-or-completed" % ("new-task" if d["new"] else "other-task", d["kind"])
                    elif (d["thread"], d["fn"], d["gen"]) in star_used:
                        site = "not-shared-while-in-flight:callable-used-with-surplus-positional-arguments"
                    elif _scale(len(cur)):       # scale: the key's task is one of many in flight
                        site = "%s-while-in-flight:%s:%s-keys-in-flight" % ("new-task" if d["new"] else "other-task", d["kind"], _scale(len(cur)))
                    else:
                        site = "%s-while-in-flight:%s:%s-spelling" % ("new-task" if d["new"] else "other-task", d["kind"],
                                                                    "same" if _shape(d) == _shape(creator[t]) else "other")
                    fs.append(dict(clause="shared-while-in-flight", site=site,
                                   msg="call %d (%s fn %d thread %d, spelling %s, ctx %d) got task %d although task %d of the same key "
                                       "(created by call %d, spelling %s) is created, not complete and not dirtied" % (
                                           d["cid"], d["kind"], d["fn"], d["thread"], _shape(d), d["ctx"], d["tid"], t,
                                           creator[t]["cid"], _shape(creator[t]))))
                    tainted.add(k)
            else:
                if not d["new"]:
                    why = ("completed" if d["tid"] in done else
                           "dirtied" if d["tid"] in made_for.get(k, []) else "foreign")
                    if why != "foreign":         # a task of another key: reported by keys-disjoint below
                        fs.append(dict(clause="rerun-after-done-or-dirty", site="returned-%s-task:%s" % (why, d["kind"]),
                                       msg="call %d (%s fn %d, %s) got existing task %d (%s) although no task of its key is in flight; "
                                           "the body does not run again" % (d["cid"], d["kind"], d["fn"], _shape(d), d["tid"], why)))
                    tainted.add(k)
                else:
                    cur[k] = d["tid"]
                    cur_named.setdefault(name_of[k], set()).add(k)
                    creator[d["tid"]] = d
                    made_for.setdefault(k, []).append(d["tid"])
                    made_key[d["tid"]] = k
                    stale[k] = False
                    aliased.discard(k)
        elif what == "dirty":
            d = ev[1]
            k = _K(d)
            if k is None:
                if d["ok"] == "true":         # an ill-formed dirty() that did not raise: which entry it removed is
                    bad_dirty.add((d["thread"], d["fn"], d["gen"]))   # outside the statement; no further claim for this callable
                continue
            if d["ok"] != "true":
                fs.append(dict(clause="well-formed-call", site="dirty:TypeError", msg="well-formed dirty() raised TypeError"))
            if d["bound"]["Some"][0][""][1]:
                star_used.add((d["thread"], d["fn"], d["gen"]))
            name_of[k] = _NK(d)
            alias(k)
            uncur(k)
        elif what == "start":
            starts[ev[2]] = starts.get(ev[2], 0) + 1
        elif what == "done":
            tid = ev[2]
            done[tid] = ev[3]
            k = made_key.get(tid)            # a task is in `cur` only under the key it was created for
            if k is not None:
                if cur.get(k) == tid:
                    alias(k)
                    uncur(k)
                elif cur.get(k) is not None:
                    stale[k] = True
    # different keys, functions, instances, threads never share a task
    for tid, ks in sorted(task_keys.items()):
        if len(ks) > 1:
            ds = list(ks.values())
            a, b = ds[0], ds[1]
            what = ("function" if a["fn"] != b["fn"] else
                    "function-object-same-name" if a["gen"] != b["gen"] else "thread" if a["thread"] != b["thread"] else
                    "instance" if a["kind"] == "method" and a["bound"]["Some"][0][""][0][0] != b["bound"]["Some"][0][""][0][0] else
                    "arguments")
            ra, rb = a["bound"]["Some"][0][""][1], b["bound"]["Some"][0][""][1]
            if what == "arguments" and (ra or rb):
                site = "different-arguments:surplus-positional-arguments"   # a *rest function called with surplus positionals
            elif what == "arguments":
                site = "different-arguments:%s:%s-vs-%s" % (a["kind"], _shape(a), _shape(b))
            else:
                site = "different-%s:%s" % (what, a["kind"])
            fs.append(dict(clause="keys-disjoint", site=site,
                           msg="calls %d and %d bind different %s (%s / %s) but both got task %d" % (
                               a["cid"], b["cid"], what, json.dumps(a["bound"]), json.dumps(b["bound"]), tid)))
    # the body of a returned task runs exactly once; every caller receives its outcome
    for tid in sorted(task_keys):
        n = starts.get(tid, 0)
        if n != 1:
            fs.append(dict(clause="body-runs-once", site="started-%d-times" % min(n, 2),
                           msg="the body of task %d was started %d times" % (tid, n)))
    for cid, tid in sorted(callers.items()):
        want = done.get(tid)
        if cid not in got:
            fs.append(dict(clause="same-outcome", site="caller-never-answered", msg="caller %d of task %d never received a result" % (cid, tid)))
        elif want is not None and got[cid] != want:
            fs.append(dict(clause="same-outcome", site="caller-got-other-outcome",
                           msg="caller %d of task %d received %s, the body produced %s" % (cid, tid, got[cid], want)))
    return fs


def crash_finding(c, io, build):
    """An exception escaping from the scheduler / deduplicate while the case runs is the implementation's;
    an inconsistency detected by the conductor itself ('harness:') stays an infrastructure error."""
    txt = io["HarnessCrash"][0]["s"] if io.get("HarnessCrash") else ""
    if "harness:" in txt or "worker died" in txt or "timed out" in txt:
        return None
    last = [l for l in txt.strip().splitlines() if l.strip()][-1] if txt.strip() else "unknown"
    return dict(clause="terminates", site="exception-escaped:%s" % last.split(":")[0].strip()[:60],
                msg="running the case raised out of the scheduler: %s" % last[:300])


def shrink(c):
    scripts, ops = c["args"]

    def mk(s, o):
        return {"args": [s, o], "tree": [s, o], "meta": {"shrunk": True}}
    for i in range(len(ops)):
        yield mk(scripts, ops[:i] + ops[i + 1:])
    for i, s in enumerate(scripts):
        steps, fin = s[""]
        for j in range(len(steps)):
            yield mk(scripts[:i] + [{"": [steps[:j] + steps[j + 1:], fin]}] + scripts[i + 1:], ops)
    if scripts:
        yield mk(scripts[:-1], ops)
    for i, o in enumerate(ops):                  # fewer keys in the fan-out: biggest reduction first
        if isinstance(o, dict) and "OFan" in o:
            a = o["OFan"]
            step = a[6] // 2
            while step >= 1:
                yield mk(scripts, ops[:i] + [{"OFan": a[:6] + [a[6] - step]}] + ops[i + 1:])
                step //= 2
    for i, s in enumerate(scripts):
        steps, fin = s[""]
        for j, x in enumerate(steps):
            if isinstance(x, dict) and "BFan" in x:
                a = x["BFan"]
                step = a[5] // 2
                while step >= 1:
                    yield mk(scripts[:i] + [{"": [steps[:j] + [{"BFan": a[:5] + [a[5] - step]}] + steps[j + 1:], fin]}] + scripts[i + 1:], ops)
                    step //= 2
    for i, o in enumerate(ops):
        if isinstance(o, dict) and ("OCall" in o or "ODirty" in o):
            nm = next(iter(o))
            th, fn, gen, inst, pos, kw = o[nm]
            if th != 0:
                yield mk(scripts, ops[:i] + [{nm: [0, fn, gen, inst, pos, kw]}] + ops[i + 1:])
            if gen != 0:
                yield mk(scripts, ops[:i] + [{nm: [th, fn, 0, inst, pos, kw]}] + ops[i + 1:])
