"""C08 — active task is always the running one; scheduler is clean after any outcome."""
from ..lib import mach, machgen

RULE = ("histories of 1-5 computations on one thread, each a generated program with arbitrary fault sets (task steps, items, "
        "flushes, lazy futures, context pause()/resume() raising on the k-th scheduler-driven call, pause() faults that persist on every later call), nested synchronous "
        "re-entry, small MAX_TASK_STACK_SIZE values to reach the runaway guard; distinct = different AST+params; "
        "non-trivial = history of >= 2 computations with >= 1 fault site")
TRUSTED = ["Python/Gallina emitters of harness/lib/machprog.py"]
ASSUMPTIONS = ["faults are Exception subclasses"]
EXPLANATION = "projection: Probe events, Sched markers (tasks, batches, active task after each computation), outcomes"

_base = dict(name="history", roots=(2, 5), p_ctx_fault=0.3, p_nonasync=0.08, p_with=0.2, p_sync=0.2, p_probe=0.15, budget=12,
             max_depth=5, p_raise=0.1, p_item_err=0.12, p_flush_raise=0.25, p_lazy=0.08, p_lazy_err=0.6, p_try=0.2)
PROFILES = [
    (3, dict(_base)),
    (1, dict(_base, name="deep-sync", p_sync=0.35, max_depth=6)),
    (1, dict(_base, name="single", roots=(1, 1), budget=20)),
    (2, dict(_base, name="guard", p_maxstack=0.9, p_ctx_fault=0.05, p_item=0.6, max_width=5)),
]


def _nontrivial(c):
    s = machgen.stats(c)
    faults = s["raises"] + s["item_faults"] + s["ctx_faults"] + s["nonasync"] + s["lazy"] + len(c.get("params", {}).get("kinds", {}))
    return len(c["roots"]) >= 2 and faults >= 1


def _chain(n, leaf):
    """a task awaiting a task awaiting ... (n levels) awaiting leaf"""
    body = [{"op": "yield", "x": "y0", "s": leaf}, {"op": "return", "e": {"var": "y0"}}]
    for i in range(n):
        body = [{"op": "yield", "x": "y%d" % (i + 1), "s": {"new": {"task": body}}}, {"op": "return", "e": {"var": "y%d" % (i + 1)}}]
    return body


# the runaway guard trips while a batch item of the same yield is already scheduled; the next computation must not
# see that batch
_GUARD_BATCH = {
    "roots": [
        [{"op": "yield", "x": "x1", "s": {"tuple": [{"new": {"item": [0, 1, {"set": 5}]}}, {"new": {"task": _chain(6, {"new": {"const": 1}})}}]}},
         {"op": "return", "e": {"var": "x1"}}],
        [{"op": "yield", "x": "x2", "s": {"new": {"item": [1, 2, {"set": 6}]}}}, {"op": "return", "e": {"var": "x2"}}],
    ],
    "params": {"kinds": {}, "maxstack": 4},
}
# the guard trips two synchronous levels down; the outer task catches the error and asks for the active task
_GUARD_NESTED = {
    "roots": [[
        {"op": "let", "h": "h1", "f": {"task": [
            {"op": "let", "h": "h2", "f": {"task": _chain(6, {"new": {"const": 1}})}},
            {"op": "sync", "x": "x3", "h": "h2"},
            {"op": "return", "e": {"var": "x3"}}]}},
        {"op": "try", "body": [{"op": "sync", "x": "x4", "h": "h1"}], "x": "x5", "handler": [{"op": "probe"}]},
        {"op": "probe"},
        {"op": "return", "e": 1}]],
    "params": {"kinds": {}, "maxstack": 4},
}

# found on the pinned tree (fixed in /repo): the guard fires inside a synchronous call made by a task, the task
# catches the RuntimeError and goes on - get_active_task() inside it returned None for the rest of the step
_GUARD_CAUGHT = {
    "roots": [[
        {"op": "let", "h": "h1", "f": {"task": [
            {"op": "let", "h": "h2", "f": {"task": _chain(6, {"new": {"const": 1}})}},
            {"op": "try", "body": [{"op": "sync", "x": "x3", "h": "h2"}], "x": "e3", "handler": [{"op": "probe"}]},
            {"op": "probe"},
            {"op": "return", "e": 7}]}},
        {"op": "sync", "x": "x4", "h": "h1"},
        {"op": "probe"},
        {"op": "return", "e": {"var": "x4"}}]],
    "params": {"kinds": {}, "maxstack": 4},
}

# found by the thorough tier on the pinned tree (fixed in /repo): a task killed while suspended (NonAsyncContext
# assertion at pause) left the batch of the item it had yielded in the scheduler's set; the next computation on the
# thread flushed that stale batch
_STALE_BATCH = {
    "roots": [
        [{"op": "with", "c": {"nonasync": 1}, "body": [{"op": "yield", "x": "x1", "s": {"new": {"item": [1, 0, {"set": 1}]}}}]}],
        [{"op": "yield", "x": "x2", "s": {"new": {"task": [
            {"op": "yield", "x": "x3", "s": {"new": {"item": [0, 5, {"set": 2}]}}}, {"op": "return", "e": {"var": "x3"}}]}}},
         {"op": "return", "e": {"var": "x2"}}]],
    "params": {"kinds": {}},
}

# a context whose resume() raises when the scheduler resumes the suspended task: the task fails, and afterwards the
# active task must be what it was (None at top level; the parent inside a parent that catches the error)
_RESUME_FAILS = {
    "roots": [
        [{"op": "with", "c": {"async": [1, {"resume": [1, 31]}]}, "body": [
            {"op": "yield", "x": "x1", "s": {"new": {"item": [0, 1, {"set": 1}]}}}]}, {"op": "return", "e": 0}],
        [{"op": "probe"}, {"op": "try", "body": [{"op": "yield", "x": "y1", "s": {"new": {"task": [
            {"op": "with", "c": {"async": [2, {"resume": [1, 32]}]}, "body": [
                {"op": "yield", "x": "y2", "s": {"new": {"item": [0, 2, {"set": 2}]}}}]}, {"op": "return", "e": 0}]}}}],
          "x": "e1", "handler": [{"op": "probe"}]},
         {"op": "probe"}, {"op": "return", "e": 1}]],
    "params": {"kinds": {}},
}
# a flush body that cancels its own batch and returns normally, with another batch still scheduled; then another
# computation on the thread
_CANCEL_SELF = {
    "roots": [
        [{"op": "try", "body": [{"op": "yield", "x": "x1", "s": {"tuple": [
            {"new": {"item": [0, 1, {"set": 1}]}}, {"new": {"item": [0, 2, {"set": 2}]}},
            {"new": {"task": [{"op": "yield", "x": "a1", "s": {"new": {"item": [1, 3, {"set": 3}]}}}, {"op": "return", "e": {"var": "a1"}}]}}]}}],
          "x": "e1", "handler": []}, {"op": "return", "e": 0}],
        [{"op": "yield", "x": "x2", "s": {"new": {"item": [0, 4, {"set": 4}]}}}, {"op": "return", "e": {"var": "x2"}}]],
    "params": {"kinds": {"0": {"raise": [1, 1001], "via_cancel": True}}},
}
# tasks whose value is a future they never yielded (`return other.asynq(...)`): outermost call, yielded dependency, nested
# synchronous call; the scheduler is as clean afterwards as after any other outcome (model-blind class: monitors only)
_RETURNS_FUTURE = {
    "roots": [
        [{"op": "let", "h": "h1", "f": {"task": [{"op": "return", "e": 1}]}}, {"op": "return", "e": {"handle": "h1"}}],
        [{"op": "probe"}, {"op": "yield", "x": "x1", "s": {"new": {"task": [
            {"op": "let", "h": "h2", "f": {"task": [{"op": "yield", "x": "a1", "s": {"new": {"item": [0, 1, {"set": 1}]}}}, {"op": "return", "e": {"var": "a1"}}]}},
            {"op": "return", "e": {"handle": "h2"}}]}}},
         {"op": "probe"}, {"op": "return", "e": 2}],
        [{"op": "let", "h": "h3", "f": {"task": [{"op": "let", "h": "h4", "f": {"const": 5}}, {"op": "return", "e": {"tuple": [{"handle": "h4"}, 7]}}]}},
         {"op": "sync", "x": "x2", "h": "h3"}, {"op": "probe"}, {"op": "return", "e": 3}],
        [{"op": "probe"}, {"op": "return", "e": 4}]],
    "params": {"kinds": {}, "model_blind": True},
}
# a synchronous call made by a task whose callee is killed by a context's resume() when the nested loop resumes it after its
# flush; the caller catches the error, looks at the active task, then enters a context of its own and is suspended inside it
_CALLEE_RESUME_FAILS = {
    "roots": [[
        {"op": "let", "h": "h1", "f": {"task": [
            {"op": "with", "c": {"async": [1, {"resume": [1, 33]}]}, "body": [
                {"op": "yield", "x": "a1", "s": {"new": {"item": [0, 1, {"set": 1}]}}}]}, {"op": "return", "e": 0}]}},
        {"op": "try", "body": [{"op": "sync", "x": "x1", "h": "h1"}], "x": "e1", "handler": [{"op": "probe"}]},
        {"op": "probe"},
        {"op": "with", "c": {"async": [2, None]}, "body": [
            {"op": "yield", "x": "x2", "s": {"tuple": [
                {"new": {"item": [0, 2, {"set": 2}]}},
                {"new": {"task": [{"op": "yield", "x": "b1", "s": {"new": {"item": [1, 3, {"set": 3}]}}}, {"op": "return", "e": {"var": "b1"}}]}}]}},
            {"op": "probe"}]},
        {"op": "return", "e": 1}],
        [{"op": "probe"}, {"op": "return", "e": 2}]],
    "params": {"kinds": {}},
}
# a synchronous call whose nested computation has a pass that ends with the awaited task unfinished and nothing to flush (one
# sibling is suspended on a batch item, the other flushes that batch through item.value()); back in the caller the active task
# is the caller
_NESTED_NOTHING_TO_FLUSH = {
    "roots": [[
        {"op": "probe"},
        {"op": "let", "h": "h0", "f": {"task": [{"op": "yield", "x": "x1", "s": {"tuple": [
            {"new": {"task": [{"op": "yield", "x": "x2", "s": {"new": {"item": [0, 1, {"set": 5}]}}}, {"op": "return", "e": {"var": "x2"}}]}},
            {"new": {"task": [{"op": "let", "h": "h1", "f": {"item": [0, 2, {"set": 6}]}}, {"op": "sync", "x": "x3", "h": "h1"},
                              {"op": "return", "e": {"var": "x3"}}]}}]}},
            {"op": "return", "e": {"var": "x1"}}]}},
        {"op": "sync", "x": "y1", "h": "h0"},
        {"op": "probe"},
        {"op": "yield", "x": "y2", "s": {"new": {"task": [{"op": "probe"}, {"op": "return", "e": 1}]}}},
        {"op": "probe"},
        {"op": "return", "e": {"var": "y1"}}],
        [{"op": "probe"}, {"op": "return", "e": 2}]],
    "params": {"kinds": {}},
}
# a context whose pause() fails PERSISTENTLY (a "no suspension while dirty" context: once pause() has raised it raises on every
# later call too, also on the one a with block's __exit__ would make while the killed task's generator is closed): the task is
# suspended on a batch item inside the block.  First under a parent (outermost error), then under a parent that catches the error
# and goes on, then with the failure at the SECOND suspension and a second open context; after each, a computation that must run
# as on a fresh scheduler (no task, no batch of the dead one)
def _sticky(cid, k, e):
    return {"async": [cid, {"pause": [k, e], "sticky": True}]}


_PAUSE_FAILS_PERSISTENTLY = {
    "roots": [
        [{"op": "yield", "x": "x1", "s": {"new": {"task": [
            {"op": "with", "c": _sticky(1, 1, 41), "body": [{"op": "yield", "x": "a1", "s": {"new": {"item": [0, 1, {"set": 1}]}}}]},
            {"op": "return", "e": 0}]}}},
         {"op": "return", "e": {"var": "x1"}}],
        [{"op": "probe"}, {"op": "yield", "x": "x2", "s": {"new": {"item": [0, 2, {"set": 2}]}}}, {"op": "probe"}, {"op": "return", "e": {"var": "x2"}}],
        [{"op": "try", "body": [{"op": "yield", "x": "y1", "s": {"tuple": [
            {"new": {"item": [1, 3, {"set": 3}]}},
            {"new": {"task": [
                {"op": "with", "c": _sticky(2, 1, 42), "body": [{"op": "yield", "x": "b1", "s": {"new": {"item": [0, 4, {"set": 4}]}}}]},
                {"op": "return", "e": 0}]}}]}}],
          "x": "e1", "handler": [{"op": "probe"}]},
         {"op": "probe"}, {"op": "return", "e": 1}],
        [{"op": "with", "c": {"async": [3, None]}, "body": [
            {"op": "with", "c": _sticky(4, 2, 43), "body": [
                {"op": "yield", "x": "z1", "s": {"new": {"item": [0, 5, {"set": 5}]}}},
                {"op": "yield", "x": "z2", "s": {"new": {"item": [1, 6, {"set": 6}]}}}]}]},
         {"op": "return", "e": 2}],
        [{"op": "probe"}, {"op": "yield", "x": "w1", "s": {"new": {"item": [1, 7, {"set": 7}]}}}, {"op": "return", "e": {"var": "w1"}}]],
    "params": {"kinds": {}},
}
# a context that is BROKEN once its scheduler-driven resume() has failed: the resume error completes the suspended task, closing
# its generator runs the block's __exit__, whose pause() raises as well.  On /repo before e494717 that second error escaped
# AsyncTask._computed() and unwound the scheduler loop: value() raised the pause error and the scheduler kept the task and its
# parent (found while strengthening for seeded change C08-9).  Followed by a computation that must run as on a fresh scheduler.
_RESUME_THEN_PAUSE_FAILS = {
    "roots": [
        [{"op": "yield", "x": "x1", "s": {"new": {"task": [
            {"op": "with", "c": {"async": [1, {"resume": [1, 44], "sticky": True}]},
             "body": [{"op": "yield", "x": "a1", "s": {"new": {"item": [0, 1, {"set": 1}]}}}]},
            {"op": "return", "e": 0}]}}},
         {"op": "return", "e": {"var": "x1"}}],
        [{"op": "probe"}, {"op": "yield", "x": "x2", "s": {"new": {"item": [0, 2, {"set": 2}]}}}, {"op": "probe"}, {"op": "return", "e": {"var": "x2"}}],
        [{"op": "try", "body": [{"op": "yield", "x": "y1", "s": {"tuple": [
            {"new": {"item": [1, 3, {"set": 3}]}},
            {"new": {"task": [
                {"op": "with", "c": {"async": [2, {"resume": [1, 45], "sticky": True}]},
                 "body": [{"op": "yield", "x": "b1", "s": {"new": {"item": [0, 4, {"set": 4}]}}}]},
                {"op": "return", "e": 0}]}}]}}],
          "x": "e1", "handler": [{"op": "probe"}]},
         {"op": "probe"}, {"op": "return", "e": 1}],
        [{"op": "probe"}, {"op": "yield", "x": "w1", "s": {"new": {"item": [1, 7, {"set": 7}]}}}, {"op": "return", "e": {"var": "w1"}}]],
    "params": {"kinds": {}},
}
_EXTRA = [(2, dict(_base, name="ctx-faults", p_ctx_fault=0.8, p_with=0.45, p_item=0.6, p_probe=0.25, p_nonasync=0.1)),
          (1, dict(_base, name="cancel-self", p_flush_raise=0.8, p_via_cancel=0.8, p_item=0.65, nkinds=3)),
          (1, dict(_base, name="base-errors", p_base_err=1.0, p_flush_raise=0.5, p_item=0.6)),
          (1, dict(_base, name="flush-probes", p_flush_ctx=0.9, p_item=0.6, p_probe=0.2, p_sync=0.25, nkinds=2, p_flush_raise=0.25)),
          (1, dict(_base, name="returns-future", p_ret_fut=0.35, p_let=0.2, p_sync=0.25, p_probe=0.25, p_ctx_fault=0.0))]
# drawn after _EXTRA's stream (a separate extra_profiles call: adding it shifts no earlier case)
_EXTRA2 = [(1, dict(_base, name="pause-fails-persistently", p_ctx_fault=0.85, p_sticky=0.8, p_with=0.45, p_item=0.65, p_probe=0.2,
                    p_nonasync=0.03, p_override=0.15))]

mach.install(globals(), "C08", ("EvProbe", "EvSched"), ("C08:",), PROFILES, n_quick=300, n_thorough=25000,
             nontrivial=_nontrivial, level="proof",
             corpus=[_GUARD_BATCH, _GUARD_NESTED, _GUARD_CAUGHT, _STALE_BATCH, _RESUME_FAILS, _CANCEL_SELF, _RETURNS_FUTURE, _CALLEE_RESUME_FAILS, _NESTED_NOTHING_TO_FLUSH,
                     _PAUSE_FAILS_PERSISTENTLY, _RESUME_THEN_PAUSE_FAILS],
             extra_gen=mach.extra_all(mach.extra_profiles(_EXTRA, 100, 6000), mach.extra_profiles(_EXTRA2, 40, 2500)))
