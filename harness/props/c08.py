"""C08 — active task is always the running one; scheduler is clean after any outcome."""
from ..lib import mach, machgen

RULE = ("histories of 1-5 computations on one thread, each a generated program with arbitrary fault sets (task steps, items, "
        "flushes, lazy futures, context pause()/resume() raising on the k-th scheduler-driven call), nested synchronous "
        "re-entry, small MAX_TASK_STACK_SIZE values to reach the runaway guard; distinct = different AST+params; "
        "non-trivial = history of >= 2 computations with >= 1 fault site")
TRUSTED = ["Python/Gallina emitters of harness/lib/machprog.py"]
ASSUMPTIONS = ["faults are Exception subclasses"]
EXPLANATION = "projection: Probe events, Sched markers (tasks, batches, active task after each computation), outcomes"

_base = dict(name="history", roots=(2, 5), p_ctx_fault=0.3, p_nonasync=0.08, p_with=0.2, p_sync=0.2, p_probe=0.15, budget=12,
             max_depth=5, p_raise=0.1, p_item_err=0.12, p_flush_raise=0.25, p_lazy=0.08, p_lazy_err=0.6, p_try=0.2)
PROFILES = [
    (3, dict(_base)),
    (1, dict(_base, name="deep-sync", p_sync=0.35, max_depth=6)),
    (1, dict(_base, name="single", roots=(1, 1), budget=20)),
    (2, dict(_base, name="guard", p_maxstack=0.9, p_ctx_fault=0.05, p_item=0.6, max_width=5)),
]


def _nontrivial(c):
    s = machgen.stats(c)
    faults = s["raises"] + s["item_faults"] + s["ctx_faults"] + s["nonasync"] + s["lazy"] + len(c.get("params", {}).get("kinds", {}))
    return len(c["roots"]) >= 2 and faults >= 1


mach.install(globals(), "C08", ("EvProbe", "EvSched"), ("C08:",), PROFILES, n_quick=300, n_thorough=5000,
             nontrivial=_nontrivial, level="proof")
