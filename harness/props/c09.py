"""C09 — all ways of calling an async function agree, for every kind of callable."""
import inspect
import json

from ..lib import coqrun

PROP = "C09"
COQ_IMPORTS = ["Dispatch"]
COQ_FN = "Dispatch.run_case"
IMPL = "c09_impl.py"
SHARD = 300
RULE = ("one cell of the product decorator {asynq, asynq(pure), async_proxy, async_proxy(pure), asynq(sync_fn), "
        "make_async_decorator, deduplicate; aretry, alru_cache on functions/instance methods, acached_per_instance on instance "
        "methods} x binding {function, via instance, via class with explicit instance, via subclass instance, classmethod via "
        "class / instance / subclass, staticmethod via class / instance} x argument pattern {positional, keyword, all-keyword, "
        "default omitted, keyword-only, body raises; malformed: too many, unknown keyword, missing, duplicate, keyword-only "
        "given positionally, instance omitted} x body shape {plain, generator on ConstFuture, generator on another task, "
        "batch-blocking DebugBatchItem, plain / generator body that looks at get_active_task()} x return style {return v, "
        "result(v); return} x calling context {top level, inside a generator task, inside a plain-bodied task, inside a "
        "synchronously called nested task} x lookup history {0-3 earlier uses of the same decorated attribute through another "
        "class or instance of the hierarchy C, Sub(C), Sub2(C): bare lookup, synchronous call, .asynq().value(), async_call}; "
        "bindings also through the sibling subclass instance / class and a classmethod through a subclass instance; the quick tier enumerates decorator x binding x argument pattern x the four "
        "original shapes at top level, and decorator x binding x shape x return style x context for the default and the "
        "raising call, and for every decorator x binding every one-step history (path x act) plus random longer ones; the thorough tier enumerates the whole product and adds value re-assignments and a random stream; "
        "every cell is distinct and non-trivial (DESIGN 5.22)")
TRUSTED = ["Python's own attribute lookup (function/classmethod/staticmethod/bound-method objects) is modelled (py_get), not verified",
           "the theorems are about a table-like model of the descriptor protocol; the exhaustive correspondence over the full "
           "product carries most of the weight"]
ASSUMPTIONS = ["each calling convention runs on a freshly built callable (caches and deduplication never suppress a body); the warm-ups of "
               "the lookup history are replayed on each of them, with argument values (700+i) different from the call under test, so "
               "that the argument-keyed caches of alru_cache / acached_per_instance are not hit (their behaviour is not C09's subject)",
               "for callables without .asynq (pure) the direct call is the asynchronous form; there is no synchronous form",
               "decorator order for classmethod/staticmethod as in asynq/tests/test_decorators.py (@asynq() outside @classmethod)",
               "asyncio mode (fn.asyncio) is C15's subject and is off here",
               "sync_fn is an ordinary synchronous function: plain body ending in return (result() inside a sync_fn is outside the statement)",
               "calling contexts are tasks of the default AsyncTask class driven by a synchronous call at top level; the forms are "
               "executed in the body of that task, one form per freshly built callable"]
EXPLANATION = ("Coq: conventions_agree / receiver_once / sync_fn_runs_sync / classify_consistent / context_independent / caller_intact / "
               "body_in_own_task / result_is_return / history_independent / trace_independent / bound_to_own_lookup for all decorator x binding cells, argument lists, body kinds and calling contexts; "
               "correspondence: exhaustive product through the real decorators in both builds")

DECOS = ["DAsynq", "DPure", "DProxy", "DProxyPure", "DPair", "DWrap", "DDedup", "DRetry", "DLru", "DCpi"]
OLD_BINDINGS = ["BFunc", "BInst", "BClass", "BSub", "BCmClass", "BCmInst", "BCmSub", "BSmClass", "BSmInst"]
NEW_BINDINGS = ["BSub2", "BCmSub2", "BCmSubInst"]       # sibling subclass instance / class; classmethod via subclass instance
BINDINGS = OLD_BINDINGS + NEW_BINDINGS
# the paths one decorated attribute of a given kind can be looked up through
KIND = {"BFunc": "func", "BInst": "meth", "BClass": "meth", "BSub": "meth", "BSub2": "meth", "BCmClass": "cm", "BCmInst": "cm",
        "BCmSub": "cm", "BCmSub2": "cm", "BCmSubInst": "cm", "BSmClass": "sm", "BSmInst": "sm"}
PATHS = {k: [b for b in BINDINGS if KIND[b] == k] for k in ("func", "meth", "cm", "sm")}
WACTS = ["WGet", "WSync", "WAsynq", "WAsyncCall"]
WFORM = {"WSync": "Sync", "WAsynq": "AsynqValue", "WAsyncCall": "AsyncCall"}
SHAPES = ["BPlain", "BGenConst", "BGenTask", "BBatch", "BPlainOwn", "BGenOwn"]
OLD_SHAPES = SHAPES[:4]
RETSTYLES = ["RetReturn", "RetResult"]
CTXS = ["CTop", "CGen", "CPlain", "CNested"]
BODYKINDS = [(sh, rs) for sh in SHAPES for rs in RETSTYLES]
OWN_CODES = {"BPlainOwn": (8, 9, 10), "BGenOwn": (11, 12, 13)}      # own task / another task / no task
FORMS = ["Sync", "AsynqValue", "YieldAsynq", "AsyncCall", "YieldDirect", "ViaGetAsync", "ViaGetAsyncOrSync"]
EXTRA = {"BPlain": 0, "BGenConst": 5, "BGenTask": 6, "BBatch": 7, "BPlainOwn": 8, "BGenOwn": 11}
EXPECTED_RECV = {"BFunc": None, "BInst": "RObj", "BClass": "RObj", "BSub": "RSubObj", "BCmClass": "RCls", "BCmInst": "RCls",
                 "BCmSub": "RSubCls", "BSmClass": None, "BSmInst": None, "BSub2": "RSub2Obj", "BCmSub2": "RSub2Cls",
                 "BCmSubInst": "RSubCls"}


def valid(d, b):
    if d in ("DRetry", "DLru"):
        return b in ("BFunc", "BInst", "BClass", "BSub", "BSub2")
    if d == "DCpi":
        return b in ("BInst", "BClass", "BSub", "BSub2")
    return True


# pattern name -> (positional template, keyword template, malformed?) ; letters are replaced by values
PATTERNS = {
    "default": (["a"], [], False),          # first: the minimal call that binds, so that the first hit of a signature is minimal
    "positional": (["a", "b"], [], False),
    "keyword": (["a"], ["b"], False),
    "all-keyword": ([], ["b", "a"], False),
    "keyword-only": (["a", "b"], ["k"], False),
    "keyword-only+default": (["a"], ["k"], False),
    "raises": (["R"], [], False),
    "raises-keyword": ([], ["R"], False),
    "too-many": (["a", "b", "c"], [], True),
    "unknown-keyword": (["a"], ["z"], True),
    "missing": ([], [], True),
    "duplicate": (["a"], ["a"], True),
    "kwonly-positional": (["a", "b", "c"], ["k"], True),
}
KN = {"a": "Ka", "b": "Kb", "k": "Kk", "z": "Kz", "R": "Ka"}


def mk(d, b, explicit, pos, kw, bk, meta, ctx="CTop", hist=()):
    """hist: the warm-ups [(path, act)], earlier uses of the same attribute; warm-up i is called with the value 700+i"""
    if isinstance(bk, str):
        bk = (bk, "RetReturn")
    assert all(KIND[w[0]] == KIND[b] for w in hist)
    args = [d, b, "true" if explicit else "false", list(pos), [{"": [n, v]} for n, v in kw], {"BK": list(bk)}, ctx,
            [{"": [w[0], w[1], (w[2] if len(w) > 2 else 700 + i)]} for i, w in enumerate(hist)]]
    return {"args": args, "tree": args, "meta": meta}


def instantiate(pat, vals):
    pt, kt, _ = PATTERNS[pat]
    pos = [99 if x == "R" else vals[x] for x in pt]
    kw = [(KN[x], 99 if x == "R" else vals[x]) for x in kt]
    return pos, kw


CANON_VALS = {"a": 1, "b": 2, "c": 4, "k": 3, "z": 5}


def product(vals_of, tag, patterns=None, bodykinds=None, ctxs=("CTop",), skip=None, omitted=True, bindings=None):
    """decorator x binding x patterns x bodykinds x ctxs (minus what `skip` says is enumerated elsewhere)."""
    out = []
    patterns = list(PATTERNS) if patterns is None else patterns
    bodykinds = [(sh, "RetReturn") for sh in OLD_SHAPES] if bodykinds is None else bodykinds
    for d in DECOS:
        for b in (BINDINGS if bindings is None else bindings):
            if not valid(d, b):
                continue
            for pat in patterns:
                for bk in bodykinds:
                    for cx in ctxs:
                        if skip and skip(pat, bk, cx):
                            continue
                        pos, kw = instantiate(pat, vals_of())
                        out.append(mk(d, b, True, pos, kw, bk, {"pattern": pat, "malformed": PATTERNS[pat][2], "stream": tag}, cx))
            if b == "BClass" and omitted:       # instance omitted: the first value is taken as self
                for bk in bodykinds:
                    for cx in ctxs:
                        if skip and skip("instance-omitted", bk, cx):
                            continue
                        pos, kw = instantiate("positional", vals_of())
                        out.append(mk(d, b, False, [7] + pos, kw, bk,
                                      {"pattern": "instance-omitted", "malformed": True, "stream": tag}, cx))
    return out


QUICK_CTX_PATTERNS = ["default", "raises"]


def _in_base(pat, bk, cx):
    return cx == "CTop" and bk[1] == "RetReturn" and bk[0] in OLD_SHAPES


def histories(b, n, acts=WACTS):
    """every history of length n over the paths of b's kind"""
    steps = [(p, a) for p in PATHS[KIND[b]] for a in acts]
    out = [[]]
    for _ in range(n):
        out = [h + [st] for h in out for st in steps]
    return out


def history_product(tag, n, acts=WACTS, patterns=("default",), bodykinds=(("BPlain", "RetReturn"),), ctxs=("CTop",)):
    """decorator x binding x every history of length n (the same attribute used earlier through every other path)"""
    out = []
    for d in DECOS:
        for b in BINDINGS:
            if not valid(d, b):
                continue
            for h in histories(b, n, acts):
                if not all(valid(d, p) for p, _ in h):
                    continue
                for pat in patterns:
                    for bk in bodykinds:
                        for cx in ctxs:
                            pos, kw = instantiate(pat, CANON_VALS)
                            out.append(mk(d, b, True, pos, kw, bk, {"pattern": pat, "malformed": PATTERNS[pat][2], "stream": tag}, cx, h))
    return out


def random_history_cases(rng, n, tag):
    out = []
    cells = [(d, b) for d in DECOS for b in BINDINGS if valid(d, b) and b != "BFunc"]
    for _ in range(n):
        d, b = rng.choice(cells)
        paths = [p for p in PATHS[KIND[b]] if valid(d, p)]
        h = [(rng.choice(paths), rng.choice(WACTS)) for _ in range(rng.choice([1, 2, 2, 3, 3]))]
        pat = rng.choice(list(PATTERNS))
        pos, kw = instantiate(pat, CANON_VALS)
        out.append(mk(d, b, True, pos, kw, rng.choice(BODYKINDS), {"pattern": pat, "malformed": PATTERNS[pat][2], "stream": tag},
                      rng.choice(CTXS), h))
    return out


def gen_cases(rng, tier):
    # the original product: every argument pattern, at top level, bodies ending in `return v`
    quick = tier == "quick"
    cs = product(lambda: CANON_VALS, "product", bindings=OLD_BINDINGS if quick else None)
    if quick:
        # the calling-context / return-style / own-task dimensions, exhaustively, for the call that binds and the one that raises
        cs += product(lambda: CANON_VALS, "product-context", QUICK_CTX_PATTERNS, BODYKINDS, CTXS, _in_base, omitted=False,
                      bindings=OLD_BINDINGS)
        # the sibling-subclass / subclass-instance bindings: every argument pattern
        cs += product(lambda: CANON_VALS, "product-new-bindings", None, [("BPlain", "RetReturn")], bindings=NEW_BINDINGS)
        # lookup history: every decorator x binding after every one-step history (path x act) of the same attribute
        cs += history_product("history-1", 1)
        cs += random_history_cases(rng, 500, "history-random")
    else:
        cs += product(lambda: CANON_VALS, "product-context", None, BODYKINDS, CTXS, _in_base)
        cs += history_product("history-1", 1, patterns=("default", "keyword-only", "raises"),
                              bodykinds=[("BPlain", "RetReturn"), ("BGenOwn", "RetResult")], ctxs=("CTop", "CGen"))
        cs += history_product("history-2", 2, acts=["WGet", "WSync", "WAsynq"])
        cs += random_history_cases(rng, 4000, "history-random")
    if not quick:
        def rv():
            return {x: rng.choice([v for v in range(-3, 60)]) for x in "abckz"}
        for _ in range(3):
            cs += product(rv, "product-revalued")
        cs += product(rv, "product-context-revalued", ["positional", "keyword-only", "raises-keyword", "too-many"], BODYKINDS, CTXS, _in_base)
        cells = [(d, b) for d in DECOS for b in BINDINGS if valid(d, b)]
        for _ in range(4000):           # random argument lists: mostly malformed
            d, b = rng.choice(cells)
            pos = [rng.choice([0, 1, 2, 50, 99]) for _ in range(rng.choice([0, 1, 1, 2, 2, 2, 3, 4]))]
            names = [n for n in ["Ka", "Kb", "Kk", "Kz"] if rng.random() < (0.12 if n == "Kz" else 0.35)]
            rng.shuffle(names)
            kw = [(n, rng.choice([0, 1, 2, 50, 99])) for n in names]
            explicit = not (b == "BClass" and rng.random() < 0.2)
            paths = [p for p in PATHS[KIND[b]] if valid(d, p)]
            h = [(rng.choice(paths), rng.choice(WACTS)) for _ in range(rng.choice([0, 0, 1, 2]))]
            cs.append(mk(d, b, explicit, pos, kw, rng.choice(BODYKINDS), {"pattern": "random", "malformed": None, "stream": "random"},
                         rng.choice(CTXS), h))
    return cs


def _corp(d, b, pat, bk, ctx="CTop", hist=()):
    pos, kw = instantiate(pat, CANON_VALS)
    return mk(d, b, True, pos, kw, bk, {"pattern": pat, "malformed": PATTERNS[pat][2], "stream": "corpus", "corpus": True}, ctx, hist)


# the diagonal asynq's own suite visits, plus the cell of the known finding
CORPUS = [
    _corp("DAsynq", "BInst", "positional", "BGenTask"),
    _corp("DAsynq", "BCmClass", "positional", "BGenConst"),
    _corp("DPure", "BCmClass", "missing", "BPlain"),
    _corp("DAsynq", "BSmClass", "positional", "BPlain"),
    _corp("DPair", "BSmClass", "missing", "BPlain"),
    _corp("DPair", "BCmClass", "positional", "BBatch"),
    _corp("DPair", "BInst", "keyword", "BPlain"),
    _corp("DWrap", "BCmClass", "default", "BPlain"),
    _corp("DProxy", "BCmInst", "positional", "BGenTask"),
    _corp("DProxyPure", "BInst", "default", "BPlain"),
    # a synchronous call made from inside a running task; the body needs a task of its own
    _corp("DAsynq", "BFunc", "default", ("BPlain", "RetResult"), "CGen"),         # result(v); return  in a plain body
    _corp("DAsynq", "BInst", "default", ("BPlainOwn", "RetReturn"), "CPlain"),    # the body looks at get_active_task()
    _corp("DPair", "BCmClass", "keyword", ("BGenOwn", "RetResult"), "CNested"),
    # one decorated attribute used through several classes of a hierarchy: each call is bound to the class it is made through
    _corp("DPair", "BCmSub", "default", "BPlain", hist=[("BCmClass", "WGet")]),                 # C.load looked up, then Sub.load(1)
    _corp("DPair", "BCmClass", "keyword", "BGenConst", hist=[("BCmSub2", "WSync"), ("BCmSubInst", "WAsynq")]),   # sibling first
    _corp("DAsynq", "BSub2", "default", "BPlain", hist=[("BInst", "WAsynq"), ("BClass", "WSync"), ("BSub", "WAsyncCall")]),
]


def model_input(c):
    return " ".join(coqrun.coq_of(a) for a in c["args"])


def canon(c):
    return json.dumps(c["args"], sort_keys=True)


def nontrivial(c):
    return True


def compare(c, m, io):
    if m == io["out"]:
        return None
    try:
        mf, mc, mw = m[""]
        if_, ic, iw = io["out"][""]
        for i, (a, b) in enumerate(zip(mw, iw)):
            if a != b:
                return "warm-up %d (%s): model %s, implementation %s" % (i, json.dumps(c["args"][7][i]), json.dumps(a), json.dumps(b))
        for name, a, b in zip(FORMS, mf, if_):
            if a != b:
                return "form %s in %s: model %s, implementation %s" % (name, c["args"][6], json.dumps(a), json.dumps(b))
        if mc != ic:
            return "classification (is_async_fn, is_pure_async_fn, has_async_fn, get_async_fn, get_async_or_sync_fn): model %s, implementation %s" % (
                json.dumps(mc), json.dumps(ic))
    except Exception:
        pass
    return "Dispatch.run_case and the implementation differ"


def distribution(cases):
    d = {"decorator": {}, "binding": {}, "pattern": {}, "body": {}, "stream": {}, "malformed": 0,
         "cells_decorator_x_binding": len({(c["args"][0], c["args"][1]) for c in cases}),
         "shape": {}, "return_style": {}, "context": {}, "history_length": {}, "history_act": {}, "history_path": {},
         "history_through_other_class_or_instance": 0,
         "cells_decorator_x_binding_x_one_step_history": len({(c["args"][0], c["args"][1], json.dumps(c["args"][7][0][""][:2]))
                                                             for c in cases if len(c["args"][7]) == 1}),
         "cells_full_product": len({(c["args"][0], c["args"][1], c["meta"]["pattern"], tuple(c["args"][5]["BK"]), c["args"][6])
                                    for c in cases if c["meta"].get("stream") != "random"}),
         "cells_decorator_x_binding_x_bodykind_x_context": len({(c["args"][0], c["args"][1], tuple(c["args"][5]["BK"]), c["args"][6])
                                                               for c in cases})}
    ncell = sum(1 for x in DECOS for y in BINDINGS if valid(x, y))
    full = (ncell * len(PATTERNS) + len(DECOS)) * len(BODYKINDS) * len(CTXS)        # + instance-omitted for BClass
    d["full_product_size"] = full
    d["exhaustive"] = d["cells_full_product"] >= full
    d["exhaustive_subspaces"] = ["decorator x binding x argument pattern x original shapes, return v, top level",
                                 "decorator x binding x body shape x return style x calling context (default and raising call)",
                                 "decorator x binding x one-step lookup history (path of the same kind x act)"]
    for c in cases:
        a = c["args"]
        for key, v in (("decorator", a[0]), ("binding", a[1]), ("pattern", c["meta"]["pattern"]), ("body", "/".join(a[5]["BK"])),
                       ("shape", a[5]["BK"][0]), ("return_style", a[5]["BK"][1]), ("context", a[6]),
                       ("stream", c["meta"].get("stream"))):
            d[key][v] = d[key].get(v, 0) + 1
        d["malformed"] += 1 if c["meta"].get("malformed") else 0
        hl = [w[""] for w in a[7]]
        d["history_length"][str(len(hl))] = d["history_length"].get(str(len(hl)), 0) + 1
        for w in hl:
            d["history_act"][w[1]] = d["history_act"].get(w[1], 0) + 1
            d["history_path"][w[0]] = d["history_path"].get(w[0], 0) + 1
        d["history_through_other_class_or_instance"] += 1 if any(w[0] != a[1] for w in hl) else 0
    return d


# ------------------------------------------------------------------------------------------ monitors
def _ref_body(a, b=20, *, k=30):
    return a, b, k


_SIG = inspect.signature(_ref_body)
_KW = {"Ka": "a", "Kb": "b", "Kk": "k", "Kz": "z"}


def expected_binding(pos, kw):
    """Python's own binding of the user's arguments to (a, b=20, *, k=30); None = TypeError."""
    try:
        ba = _SIG.bind(*pos, **{_KW[n]: v for n, v in kw})
    except TypeError:
        return None
    ba.apply_defaults()
    return ba.arguments["a"], ba.arguments["b"], ba.arguments["k"]


def _bodies(calls):
    return [x["CBody"] for x in calls if isinstance(x, dict) and "CBody" in x]


def _aspect(x, y):
    """Which part of (calls, res) differs."""
    (cx, rx), (cy, ry) = x, y
    bx, by = _bodies(cx), _bodies(cy)
    if len(bx) != len(by):
        return "body-run-count"
    for p, q in zip(bx, by):
        if p[0] != q[0]:
            return "body"
        if p[1] != q[1]:
            return "receiver"
        if p[2:] != q[2:]:
            return "arguments"
    if cx != cy:
        return "wrapper-calls"
    return "outcome"


def _as_sync(calls, res):
    """What the async effect looks like when sync_fn's body runs instead of fn's (same receiver and arguments)."""
    def sw(x):
        if isinstance(x, dict) and "CBody" in x and x["CBody"][0] == "FnBody":
            return {"CBody": ["SyncBody"] + x["CBody"][1:]}
        return x
    c2 = [sw(x) for x in calls]
    r2 = res
    if isinstance(res, dict) and "ROk" in res and isinstance(res["ROk"][0], dict) and "VBody" in res["ROk"][0]:
        v = res["ROk"][0]["VBody"]
        r2 = {"ROk": [{"VBody": ["SyncBody"] + v[1:4] + [0]}]}
    elif res == {"RErr": [901]}:
        r2 = {"RErr": [902]}
    return c2, r2


def _bad_value(res):
    s = json.dumps(res)
    for marker, what in (('"VFuture"', "unresolved-future-as-value"), ("VOther", "foreign-value"), ("Unexpected", "unexpected-exception"),
                         ("AOther", "foreign-argument")):
        if marker in s:
            return what
    return None


def monitors(c, io, build):
    d, b, explicit, pos, kwl, bkt, ctx, histl = c["args"]
    hist = [tuple(w[""]) for w in histl]
    bk, rs = bkt["BK"]
    explicit = explicit == "true"
    kw = [tuple(x[""]) for x in kwl]
    forms, cl, warm = io["out"][""]
    R = {}
    CALLER = {}
    for name, f in zip(FORMS, forms):
        CALLER[name], inner = f[""]
        st, calls, res = inner[""]
        R[name] = (st, calls, res)
    is_async, is_pure, has_async, gk, hk = cl[""]
    fs = []
    where = "" if ctx == "CTop" else ":in-" + ctx       # top-level sites keep their historical names

    def hit(clause, site, msg, ctx_free=False):
        fs.append(dict(clause=clause, site=site + ("" if ctx_free else where),
                       msg="%s [%s %s %s/%s %s pos=%s kw=%s%s]" % (msg, d, b, bk, rs, ctx, pos, kw,
                                                                  " after " + json.dumps(hist) if hist else "")))

    # (H) bound to the class it was called through: every use of ONE decorated attribute - the warm-ups of the history and
    #     the call under test - runs the body bound to the class / instance THAT use was made through, whatever was looked
    #     up before; the synchronous call of a sync_fn pair runs sync_fn, every other form fn
    def earlier(i, got):
        """the earlier lookup (path) whose receiver a body wrongly saw"""
        for p, _a, _v in hist[:i]:
            r = EXPECTED_RECV[p]
            if r is not None and got == {"Some": [{"AObj": [r]}]}:
                return p
        return None

    def recv_of(p):
        return "None" if EXPECTED_RECV[p] is None else {"Some": [{"AObj": [EXPECTED_RECV[p]]}]}

    if len(warm) != len(hist):
        hit("bound-to-the-class-called-through", "%s:%s:history:%d-outcomes-for-%d-warm-ups" % (d, b, len(warm), len(hist)), "runner")
    for i, ((p, act, v), w) in enumerate(zip(hist, warm)):
        if act == "WGet":
            continue
        st, calls, res = w["Some"][0][""]
        n = "warm-" + WFORM[act]
        if act == "WAsynq" and d in ("DPure", "DProxyPure"):
            if st != "SNoAsynqAttr" or calls:
                hit("conventions-agree", "%s:%s:%s:asynq-attribute-appeared" % (d, p, n), "%s has .asynq after %s" % (p, hist[:i]), True)
            continue
        bodies = _bodies(calls)
        want_tag = "SyncBody" if (d == "DPair" and act == "WSync") else "FnBody"
        want_args = [{"AVal": [v]}, {"AVal": [20]}, {"AVal": [30]}]
        if len(bodies) != 1:
            hit("bound-to-the-class-called-through", "%s:%s:%s:body-ran-%d-times" % (d, p, n, len(bodies)),
                "warm-up %d (%s %s %d) ran the body %d times: %s" % (i, p, act, v, len(bodies), json.dumps(res)), True)
            continue
        x = bodies[0]
        if x[0] != want_tag:
            hit("sync-fn-runs-sync", "%s:%s:%s:ran-%s" % (d, p, n, x[0]), "warm-up %d (%s %s) ran %s" % (i, p, act, x[0]), True)
        if x[1] != recv_of(p):
            e = earlier(i, x[1])
            hit("bound-to-the-class-called-through",
                "%s:%s:%s:%s" % (d, p, n, "bound-to-earlier-lookup:" + e if e else "receiver"),
                "warm-up %d, made through %s, ran the body bound to %s, expected %s%s" % (
                    i, p, json.dumps(x[1]), json.dumps(recv_of(p)), " (what the earlier lookup through %s binds)" % e if e else ""), True)
        elif x[2:] != want_args:
            hit("bound-to-the-class-called-through", "%s:%s:%s:arguments" % (d, p, n),
                "warm-up %d (%s %s %d): body saw %s" % (i, p, act, v, json.dumps(x[2:])), True)
        else:
            val = {"VBody": [want_tag] + want_args + [EXTRA[bk] if want_tag == "FnBody" else 0]}
            want_res = {"ROk": [{"VWrapped": [val]} if d == "DWrap" else val]}
            if res != want_res:
                hit("same-outcome", "%s:%s:%s:outcome" % (d, p, n), "warm-up %d (%s %s %d) gave %s, the body's own outcome is %s" % (
                    i, p, act, v, json.dumps(res), json.dumps(want_res)), True)
    if hist and explicit:
        want_r = recv_of(b)
        for name, f in zip(FORMS, forms):
            inner = f[""][1]
            for x in _bodies(inner[""][1]):
                if x[1] != want_r:
                    e = earlier(len(hist), x[1])
                    if e:
                        hit("bound-to-the-class-called-through", "%s:%s:%s:bound-to-earlier-lookup:%s" % (d, b, name, e),
                            "%s, made through %s, ran the body bound to %s - what the earlier lookup through %s binds - instead of %s" % (
                                name, b, json.dumps(x[1]), e, json.dumps(want_r)), True)
                    break

    # (0) the call hands its outcome to the caller: a form executed inside a running task must not finish THAT task
    #     with the callee's value, and no AsyncTaskResult may come out of a form as an exception
    want_caller = "CallerNone" if ctx == "CTop" else "CallerOwn"
    for n in FORMS:
        if CALLER[n] == "CallerHijacked":
            hit("same-outcome", "%s:%s:%s:calling-task-finished-with-callee-value" % (d, n, ctx),
                "%s was executed inside a running task (%s) and that task came back with %s instead of going on with the "
                "call's outcome" % (n, ctx, json.dumps(R[n][2])), ctx_free=True)
        elif CALLER[n] != want_caller:
            hit("same-outcome", "%s:%s:%s:caller-%s" % (d, n, ctx, CALLER[n]), "calling task reported as %s" % CALLER[n], ctx_free=True)
        if R[n][2] == {"RErr": [-30]}:
            hit("same-outcome", "%s:%s:%s:AsyncTaskResult-escaped" % (d, n, ctx),
                "%s raised AsyncTaskResult to its caller instead of returning the value" % n, ctx_free=True)

    accepted = {n: (R[n][1], R[n][2]) for n in FORMS if R[n][0] not in ("SNoAsynqAttr", "SNoAsyncFn")}
    # a value that is not what any body returns (e.g. a future handed back as the value)
    for n in FORMS:
        if n in accepted:
            w = _bad_value(R[n][2]) or _bad_value(R[n][1])
            if w:
                hit("conventions-agree", "%s:%s:%s" % (d, n, w), "%s produced %s" % (n, json.dumps(R[n][2])))

    # (1) all asynchronous forms agree; the synchronous call agrees (or names sync_fn's body for a pair)
    direct_is_future = R["Sync"][0] == "SRetFuture"
    direct_is_value = R["Sync"][0] == "SRetValue"
    asynq_works = R["AsynqValue"][0] != "SNoAsynqAttr"
    ref_name = "AsynqValue" if asynq_works else "Sync"
    ref = accepted.get(ref_name)
    async_forms = ["AsynqValue", "YieldAsynq", "AsyncCall"] if asynq_works else ["Sync", "YieldDirect", "AsyncCall"]
    if R["AsynqValue"][0] != R["YieldAsynq"][0] and "SNoAsynqAttr" in (R["AsynqValue"][0], R["YieldAsynq"][0]):
        hit("conventions-agree", "%s:%s:asynq-attribute-flickers" % (d, b), ".asynq present for one convention and absent for the other")
    for n in async_forms:
        if n == ref_name or n not in accepted or _bad_value(R[n][2]):
            continue
        if accepted[n] != ref:
            hit("conventions-agree", "%s:%s:%s-vs-%s:%s" % (d, b, n, ref_name, _aspect(accepted[n], ref)),
                "%s gave %s but %s gave %s" % (n, json.dumps(accepted[n]), ref_name, json.dumps(ref)))
    if asynq_works:
        want = _as_sync(*ref) if d == "DPair" else ref
        if accepted["Sync"] != want:
            hit("sync-fn-runs-sync" if d == "DPair" else "conventions-agree",
                "%s:%s:Sync-vs-AsynqValue:%s" % (d, b, _aspect(accepted["Sync"], want)),
                "the synchronous call gave %s, expected %s" % (json.dumps(accepted["Sync"]), json.dumps(want)))
        if d == "DPair":
            for n in ("AsynqValue", "YieldAsynq", "AsyncCall"):
                if any(x[0] == "SyncBody" for x in _bodies(R[n][1])):
                    hit("sync-fn-runs-sync", "DPair:%s:%s:ran-sync_fn" % (b, n), "%s ran sync_fn's body" % n)
            if any(x[0] == "FnBody" for x in _bodies(R["Sync"][1])):
                hit("sync-fn-runs-sync", "DPair:%s:Sync:ran-fn" % b, "the synchronous call ran the asynchronous body although sync_fn was supplied")
        elif any(x[0] == "SyncBody" for n in FORMS for x in _bodies(R[n][1])):
            hit("sync-fn-runs-sync", "%s:%s:sync-body-without-sync_fn" % (d, b), "a sync_fn body ran for a callable without sync_fn")

    # (2) the body sees the bound instance/class exactly once and the arguments as Python binds them
    if explicit:
        want_r = "None" if EXPECTED_RECV[b] is None else {"Some": [{"AObj": [EXPECTED_RECV[b]]}]}
        eb = expected_binding(pos, kw)
        for n, (calls, res) in accepted.items():
            bodies = _bodies(calls)
            if eb is None:
                if bodies:
                    hit("bound-receiver-and-arguments", "%s:%s:%s:body-ran-on-unbindable-arguments" % (d, b, n),
                        "%s ran a body although the arguments do not bind: %s" % (n, json.dumps(calls)))
                elif res != {"RErr": [-1]}:
                    hit("bound-receiver-and-arguments", "%s:%s:%s:no-TypeError-on-unbindable-arguments" % (d, b, n),
                        "%s gave %s for arguments that do not bind" % (n, json.dumps(res)))
                continue
            want_args = [{"AVal": [v]} for v in eb]
            raising = eb[0] == 99
            want_runs = 2 if (d == "DRetry" and raising) else 1
            if len(bodies) != want_runs:
                hit("bound-receiver-and-arguments", "%s:%s:%s:body-ran-%d-times" % (d, b, n, len(bodies)),
                    "%s ran the body %d times (expected %d): %s" % (n, len(bodies), want_runs, json.dumps(res)))
            for x in bodies:
                if x[1] != want_r:
                    hit("bound-receiver-and-arguments", "%s:%s:%s:receiver" % (d, b, n),
                        "%s: body saw receiver %s, expected %s" % (n, json.dumps(x[1]), json.dumps(want_r)))
                elif x[2:] != want_args:
                    hit("bound-receiver-and-arguments", "%s:%s:%s:arguments" % (d, b, n),
                        "%s: body saw (a, b, k) = %s, expected %s" % (n, json.dumps(x[2:]), json.dumps(want_args)))
            if bodies and not _bad_value(res):
                tag = bodies[-1][0]
                if raising:
                    want_res = {"RErr": [901 if tag == "FnBody" else 902]}
                else:
                    v = {"VBody": [tag] + want_args + [EXTRA[bk] if tag == "FnBody" else 0]}
                    want_res = {"ROk": [{"VWrapped": [v]} if d == "DWrap" else v]}
                if res != want_res:
                    why = "outcome"
                    if bk in OWN_CODES and not raising and tag == "FnBody":
                        for code in OWN_CODES[bk][1:]:
                            v2 = {"VBody": [tag] + want_args + [code]}
                            if res == {"ROk": [{"VWrapped": [v2]} if d == "DWrap" else v2]}:
                                why = "outcome:body-ran-%s" % ("in-another-task" if code == OWN_CODES[bk][1] else "outside-any-task")
                    hit("same-outcome", "%s:%s:%s:%s" % (d, b, n, why), "%s gave %s, the body's own outcome is %s" % (
                        n, json.dumps(res), json.dumps(want_res)))
            if d == "DWrap":
                wr = [x["CWrap"] for x in calls if isinstance(x, dict) and "CWrap" in x]
                wr_r = "None" if EXPECTED_RECV[b] is None else {"Some": [EXPECTED_RECV[b]]}
                if len(wr) != 1 or wr[0] != [wr_r, len(pos), len(kw)]:
                    hit("bound-receiver-and-arguments", "DWrap:%s:%s:wrapper_fn-arguments" % (b, n),
                        "%s: wrapper_fn calls %s, expected one with receiver %s, %d positional, %d keyword" % (
                            n, json.dumps(wr), json.dumps(wr_r), len(pos), len(kw)))

    # (3) the classification helpers agree with how the callable can actually be called (observed by
    #     the runner with arguments that bind: does the direct call hand back a future, is .asynq usable)
    def hitc(clause, site, msg):        # asked and probed at top level: the same in every calling context
        hit(clause, site, msg, ctx_free=True)

    def boolean(x, name):
        if x not in ("true", "false"):
            hitc("classify-consistent", "%s:%s:raised" % (d, name), "%s raised %s" % (name, json.dumps(x)))
            return None
        return x == "true"
    ia, ip, ha = boolean(is_async, "is_async_fn"), boolean(is_pure, "is_pure_async_fn"), boolean(has_async, "has_async_fn")
    pd, pa = io["extra"]["probe_direct"], io["extra"]["probe_asynq"]
    if pd not in ("future", "value") or pa not in ("future", "absent"):
        hitc("classify-consistent", "%s:%s:probe:direct-%s:asynq-%s" % (d, b, pd.split(":")[0], pa.split(":")[0]),
            "with arguments that bind, the direct call %s and .asynq(...) %s" % (pd, pa))
    else:
        probe_future, probe_asynq = pd == "future", pa == "future"
        if probe_asynq != asynq_works:
            hitc("conventions-agree", "%s:%s:asynq-attribute-flickers" % (d, b), ".asynq present for one call and absent for another")
        if ha is not None and ha != probe_asynq:
            hitc("classify-consistent", "%s:has_async_fn:%s-but-asynq-%s" % (d, has_async, "works" if probe_asynq else "missing"),
                "has_async_fn is %s but .asynq is %s" % (has_async, "usable" if probe_asynq else "absent"))
        if ip is not None and ip != probe_future:
            hitc("classify-consistent", "%s:is_pure_async_fn:%s-but-call-returns-%s" % (d, is_pure, "future" if probe_future else "value"),
                "is_pure_async_fn is %s but the direct call returns a %s" % (is_pure, "future" if probe_future else "plain value"))
        callable_async = probe_asynq or probe_future
        if ia is not None and ia != callable_async:
            hitc("classify-consistent", "%s:is_async_fn:%s-but-%s" % (d, is_async, "async-callable" if callable_async else "not-async-callable"),
                "is_async_fn is %s but the callable %s be called asynchronously" % (is_async, "can" if callable_async else "cannot"))
        want_gk = "GAsynqAttr" if probe_asynq else "GSelf" if probe_future else "GNone"
        if gk != want_gk:
            hitc("classify-consistent", "%s:get_async_fn:%s-instead-of-%s" % (d, gk, want_gk),
                "get_async_fn returned %s, expected %s" % (gk, want_gk))
        want_hk = "GAsynqAttr" if probe_asynq else "GSelf"
        if hk != want_hk:
            hitc("classify-consistent", "%s:get_async_or_sync_fn:%s-instead-of-%s" % (d, hk, want_hk),
                "get_async_or_sync_fn returned %s, expected %s" % (hk, want_hk))
    callable_async = asynq_works or pd == "future"
    if callable_async and ref is not None:
        for n in ("ViaGetAsync", "ViaGetAsyncOrSync"):
            if n not in accepted:
                continue        # reported through get_async_fn:GNone above
            if R[n][0] in ("SNotAFuture", "SRetValue"):
                hit("classify-consistent", "%s:%s:%s:converted-function-not-async" % (d, b, n),
                    "the function returned by %s does not return a future" % n)
            elif accepted[n] != ref and not _bad_value(R[n][2]):
                hit("classify-consistent", "%s:%s:%s-vs-%s:%s" % (d, b, n, ref_name, _aspect(accepted[n], ref)),
                    "calling the converted function gave %s but %s gave %s" % (json.dumps(accepted[n]), ref_name, json.dumps(ref)))
    return fs


def shrink(c):
    d, b, explicit, pos, kwl, bkt, ctx, histl = c["args"]
    hist = [tuple(w[""]) for w in histl]
    bk, rs = bkt["BK"]
    kw = [tuple(x[""]) for x in kwl]
    ex = explicit == "true"
    seen = set()

    def out(pos2, kw2, bk2, ex2=ex, rs2=rs, ctx2=ctx, hist2=None):
        x = mk(d, b, ex2, pos2, kw2, (bk2, rs2), {"pattern": "shrunk", "malformed": None, "stream": "shrunk"}, ctx2,
               hist if hist2 is None else hist2)
        k = canon(x)
        if k in seen or k == canon(c):
            return None
        seen.add(k)
        return x
    cands = []
    if ex and pos == [1] and not kw and bk == "BPlain" and rs == "RetReturn" and ctx == "CTop" and not hist:
        return          # already the minimal call that binds
    if hist:
        cands.append(out(pos, kw, bk, hist2=[]))
        for i in range(len(hist)):
            cands.append(out(pos, kw, bk, hist2=hist[:i] + hist[i + 1:]))
        for i in range(len(hist)):
            if hist[i][1] != "WGet":
                cands.append(out(pos, kw, bk, hist2=hist[:i] + [(hist[i][0], "WGet", hist[i][2])] + hist[i + 1:]))
    if ctx != "CTop":
        cands.append(out(pos, kw, bk, ctx2="CTop"))
        if ctx != "CGen":
            cands.append(out(pos, kw, bk, ctx2="CGen"))
    if rs != "RetReturn":
        cands.append(out(pos, kw, bk, rs2="RetReturn"))
    if bk != "BPlain":
        cands.append(out(pos, kw, "BPlain"))
    if not ex:
        cands.append(out(pos[1:], kw, bk, True))
    cands.append(out([1], [], bk))
    for i in range(len(kw)):
        cands.append(out(pos, kw[:i] + kw[i + 1:], bk))
    for i in range(len(pos)):
        cands.append(out(pos[:i] + pos[i + 1:], kw, bk))
    for x in cands:
        if x:
            yield x
