"""C03 — a task resumes exactly once per yield, only when all it awaits is done; termination."""
from ..lib import mach, machgen

RULE = ("generated programs with tasks awaited by several parents, already-computed futures yielded again, empty structures, "
        "never-awaited tasks; every case runs under a 30 s watchdog (a hang is a violation); distinct = different "
        "AST+params; non-trivial = some task has >= 2 yields or a handle is shared")
TRANSLATED = True     # unwrap / extract_futures are re-translated from the source on every run (harness/lib/transcheck.py)
TRUSTED = ["Python/Gallina emitters of harness/lib/machprog.py", "SIGALRM watchdog of the implementation runner"]
ASSUMPTIONS = ["the interpreter's recursion limit is runtime behaviour: exercised by the deep-chain cases, not proved"]
EXPLANATION = "projection: Step events (task, index) in order, Done events"

_base = dict(name="shared", p_ctx_fault=0, p_nonasync=0, budget=22, max_depth=6, p_old=0.45, p_let=0.3, p_const=0.2, p_none=0.15)
PROFILES = [
    (3, dict(_base)),
    (2, dict(_base, name="sync", p_sync=0.25)),
    (1, dict(_base, name="faulty", p_raise=0.1, p_item_err=0.15, p_flush_raise=0.3, p_try=0.2)),
]


def _nontrivial(c):
    s = machgen.stats(c)
    return s["old"] >= 1 or s["yields"] > s["tasks"]


def _chains(tier):
    depths = [50, 1500, 5000] if tier == "quick" else [50, 1500, 5000, 20000, 60000]
    out = []
    for d in depths:
        for mode in ("const", "item", "fail"):
            c = {"roots": [], "params": {}, "chain": {"depth": d, "mode": mode}}
            c["py"] = ""
            c["nroots"] = 0
            c["tree"] = {"chain": c["chain"]}
            c["meta"] = {"chain": True}
            out.append(c)
    return out


def _extra(c, io, build):
    if not c.get("chain"):
        return []
    if io.get("chain_result") != io.get("chain_want"):
        return [dict(clause="C03:termination", site="deep-chain:%s" % c["chain"]["mode"],
                     msg="a chain of %d awaiting tasks (%s at the bottom) gave %s instead of %s (recursion limit %s)" % (
                         c["chain"]["depth"], c["chain"]["mode"], io.get("chain_result"), io.get("chain_want"), io.get("recursion_limit")))]
    return []


def _t(v):
    return {"new": {"task": [{"op": "yield", "x": "q%d" % v, "s": {"new": {"const": v}}}, {"op": "return", "e": {"var": "q%d" % v}}]}}


# futures inside a dict that is nested in a yielded tuple/list are dependencies like all others (start order, and a
# failing sibling must not be delivered before they are done); same for the reuse of one container object
_NESTED_DICT = {
    "roots": [[{"op": "try", "body": [
        {"op": "yield", "x": "x1", "s": {"tuple": [_t(1), {"dict": [[0, _t(2)], [1, {"new": {"item": [0, 1, {"set": 3}]}}]]},
                                                   {"new": {"error": 9}}, _t(4)]}}], "x": "e1", "handler": []},
        {"op": "yield", "x": "x2", "s": {"list": [_t(5), {"dict": [[0, _t(6)]]}, _t(7)]}},
        {"op": "return", "e": {"var": "x2"}}]],
    "params": {"kinds": {}},
}
# the same not-yet-computed plain (lazy) future pushed on the scheduler's stack twice: its computation runs once
_DOUBLE_LAZY = {
    "roots": [[
        {"op": "let", "h": "h1", "f": {"lazy": {"ok": 21}}},
        {"op": "let", "h": "h2", "f": {"lazy": {"err": 8}}},
        {"op": "try", "body": [
            {"op": "yield", "x": "x1", "s": {"tuple": [{"old": "h1"}, {"old": "h1"},
                {"new": {"task": [{"op": "yield", "x": "a1", "s": {"list": [{"old": "h1"}, {"old": "h2"}]}}, {"op": "return", "e": {"var": "a1"}}]}},
                {"old": "h2"}, {"old": "h2"}]}}], "x": "e1", "handler": []},
        {"op": "yield", "x": "x2", "s": {"old": "h1"}},
        {"op": "return", "e": {"var": "x2"}}]],
    "params": {"kinds": {}},
}
# one yield that lists the same not-yet-started task twice (first and last): it starts at the place of its first occurrence
_DUP_TASK = {
    "roots": [[
        {"op": "let", "h": "h1", "f": _t(1)["new"]},
        {"op": "yield", "x": "x1", "s": {"list": [{"old": "h1"}, _t(2), _t(3), {"old": "h1"}]}},
        {"op": "let", "h": "h2", "f": _t(4)["new"]},
        {"op": "yield", "x": "x2", "s": {"tuple": [_t(5), {"old": "h2"}, {"tuple": [_t(6), _t(7)]}, {"list": [{"old": "h2"}]}]}},
        {"op": "return", "e": {"var": "x2"}}]],
    "params": {"kinds": {}},
}
# two siblings suspended on items of different batches, the higher-priority batch belongs to the sibling on top of the stack:
# when that one finishes, the other (one dependency, still uncomputed) stays suspended until the scheduler flushes its batch
_TWO_BATCH_SIBLINGS = {
    "roots": [[{"op": "yield", "x": "x1", "s": {"tuple": [
        {"new": {"task": [{"op": "yield", "x": "a1", "s": {"list": [{"new": {"item": [0, 1, {"set": 1}]}}, {"new": {"item": [0, 2, {"set": 2}]}}]}},
                          {"op": "return", "e": {"var": "a1"}}]}},
        {"new": {"task": [{"op": "yield", "x": "b1", "s": {"new": {"item": [1, 5, {"set": 5}]}}}, {"op": "return", "e": {"var": "b1"}}]}}]}},
        {"op": "return", "e": {"var": "x1"}}]],
    "params": {"kinds": {"0": {"prio": ["const", 2, 0]}, "1": {"prio": ["const", 1, 0]}}},
}
# a task suspended on a batch item whose batch a later sibling flushes synchronously (item.value()): at the end of the pass
# the scheduler finds nothing to flush while the root is uncomputed - it must walk the tree again and resume the waiting task
_SIBLING_FLUSHES = {
    "roots": [[
        {"op": "yield", "x": "x1", "s": {"tuple": [
            {"new": {"task": [{"op": "yield", "x": "x2", "s": {"new": {"item": [0, 1, {"set": 5}]}}}, {"op": "return", "e": {"var": "x2"}}]}},
            {"new": {"task": [{"op": "let", "h": "h1", "f": {"item": [0, 2, {"set": 6}]}}, {"op": "sync", "x": "x3", "h": "h1"},
                              {"op": "return", "e": {"var": "x3"}}]}}]}},
        {"op": "return", "e": {"var": "x1"}}]],
    "params": {"kinds": {}},
}
# tasks that return a future they never yielded (`return other.asynq(...)`, `return item`): the future object is the task's
# value - it is neither started nor computed on the task's behalf (model-blind class: monitors only)
_RETURNS_FUTURE = {
    "roots": [[
        {"op": "yield", "x": "x1", "s": {"tuple": [
            {"new": {"task": [{"op": "yield", "x": "a1", "s": {"new": {"item": [0, 1, {"set": 1}]}}},
                              {"op": "let", "h": "h1", "f": {"item": [0, 2, {"set": 2}]}}, {"op": "return", "e": {"handle": "h1"}}]}},
            {"new": {"task": [{"op": "yield", "x": "b1", "s": {"new": {"item": [0, 3, {"set": 3}]}}},
                              {"op": "let", "h": "h2", "f": {"task": [{"op": "yield", "x": "c1", "s": {"new": {"item": [0, 4, {"set": 4}]}}}, {"op": "return", "e": {"var": "c1"}}]}},
                              {"op": "return", "e": {"handle": "h2"}}]}},
            {"new": {"task": [{"op": "yield", "x": "d1", "s": {"new": {"item": [0, 5, {"set": 5}]}}}, {"op": "yield", "x": "d2", "s": {"new": {"item": [0, 6, {"set": 6}]}}},
                              {"op": "return", "e": {"var": "d2"}}]}}]}},
        {"op": "return", "e": 0}]],
    "params": {"kinds": {}, "model_blind": True},
}
_EXTRA = [
    (1, dict(name="shared-lazy", p_ctx_fault=0, p_nonasync=0, budget=16, max_depth=4, p_lazy=0.5, p_let=0.4, p_old=0.6, p_item=0.2)),
    (2, dict(name="nested-dict", p_ctx_fault=0, p_nonasync=0, budget=18, max_depth=4, p_dict=0.5, p_errfut=0.1, p_try=0.2)),
    (1, dict(name="reuse", p_ctx_fault=0, p_nonasync=0, budget=16, max_depth=4, p_again=0.6, p_let=0.35, p_old=0.5)),
    (2, dict(name="twokinds", p_ctx_fault=0, p_nonasync=0, budget=20, max_depth=5, nkinds=3, p_item=0.6, p_prio=0.6, p_old=0.3, p_let=0.2)),
    (1, dict(name="sync-items", p_ctx_fault=0, p_nonasync=0, budget=16, max_depth=4, p_sync=0.35, p_item=0.7, p_let=0.2, nkinds=1)),
    (1, dict(name="returns-future", p_ctx_fault=0, p_nonasync=0, budget=16, max_depth=4, p_ret_fut=0.4, p_let=0.25, p_item=0.55)),
    (1, dict(name="dup", p_ctx_fault=0, p_nonasync=0, budget=18, max_depth=4, p_dup=0.6, p_item=0.25, p_const=0.1)),
]

mach.install(globals(), "C03", ("EvStep", "EvDone"), ("C03:", "C10:compute-once"), PROFILES, n_quick=300, n_thorough=25000,
             nontrivial=_nontrivial, hang_clause="C03:termination", level="proof", extra_monitors=_extra,
             corpus=[_NESTED_DICT, _DOUBLE_LAZY, _DUP_TASK, _TWO_BATCH_SIBLINGS, _SIBLING_FLUSHES, _RETURNS_FUTURE], extra_gen=mach.extra_profiles(_EXTRA, 120, 8000))

_gen0 = gen_cases
_cmp0 = compare
_mon0 = monitors


def gen_cases(rng, tier):
    return _chains(tier) + _gen0(rng, tier)


def compare(c, m, io):
    return None if c.get("chain") else _cmp0(c, m, io)


def monitors(c, io, build):
    if c.get("chain"):
        if "Hang" in io:
            return [dict(clause="C03:termination", site="deep-chain:hang", msg="deep chain did not terminate")]
        return _extra(c, io, build)
    return _mon0(c, io, build)


def model_input_for(c, io, build):
    if c.get("chain"):
        return "(mkP [] (1) false []) 0%nat []"
    return mach.model_input_for(c, io, build)


def nontrivial(c):
    return bool(c.get("chain")) or _nontrivial(c)

