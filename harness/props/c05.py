"""C05 — each batch is flushed once, highest priority first; every item is answered."""
from ..lib import mach, machgen

RULE = ("generated programs over 2-3 batch kinds with arbitrary item counts, get_priority overrides (base+len, base-len, "
        "constant, ties), flush bodies that succeed / raise before item k / skip items / set item errors, yield-only and "
        "with synchronous re-entry; distinct = different AST+params; non-trivial = items of >= 2 kinds")
TRUSTED = ["Python/Gallina emitters of harness/lib/machprog.py", "set iteration order is replayed as the model's oracle and checked for legality"]
ASSUMPTIONS = ["priority clause: yield-only programs (as in the statement)"]
EXPLANATION = "projection: Before/Flush/ItemDone/After events and the model's verdict on every observed flush choice"

_base = dict(name="twokinds", p_ctx_fault=0, p_nonasync=0, budget=20, max_depth=5, nkinds=2, p_item=0.55, p_prio=0.7,
             p_flush_raise=0.25, p_item_skip=0.12, p_item_err=0.1, p_sync=0)
PROFILES = [
    (3, dict(_base)),
    (2, dict(_base, name="threekinds", nkinds=3)),
    (2, dict(_base, name="sync", p_sync=0.2)),
    (1, dict(_base, name="sync-keep", p_sync=0.3, p_keep=0.8)),
    (1, dict(_base, name="ties", p_prio=0.0, nkeys=2)),
]


def _nontrivial(c):
    return machgen.stats(c)["kinds"] >= 2


# KEEP_DEPENDENCIES keeps a flushed batch's items: a batch flushed by a sibling's synchronous item.value() stays in the
# scheduler's set and must still be skipped when the next batch is selected
_KEPT_FLUSHED = {
    "roots": [[
        {"op": "yield", "x": "x1", "s": {"tuple": [
            {"new": {"task": [{"op": "yield", "x": "a1", "s": {"new": {"item": [0, 1, {"set": 1}]}}}, {"op": "return", "e": {"var": "a1"}}]}},
            {"new": {"task": [{"op": "let", "h": "h1", "f": {"item": [0, 2, {"set": 2}]}}, {"op": "sync", "x": "b1", "h": "h1"},
                              {"op": "return", "e": {"var": "b1"}}]}},
            {"new": {"task": [{"op": "yield", "x": "c1", "s": {"new": {"item": [1, 3, {"set": 3}]}}}, {"op": "return", "e": {"var": "c1"}}]}}]}},
        {"op": "return", "e": {"var": "x1"}}]],
    "params": {"kinds": {}, "keep": True},
}

mach.install(globals(), "C05", ("EvBefore", "EvFlush", "EvItemDone", "EvAfter", "EvIllegal"), ("C05:",), PROFILES,
             n_quick=300, n_thorough=5000, nontrivial=_nontrivial, level="proof", corpus=[_KEPT_FLUSHED])
