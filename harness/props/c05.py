"""C05 — each batch is flushed once, highest priority first; every item is answered."""
from ..lib import mach, machgen, machmon

RULE = ("generated programs over 2-3 batch kinds with arbitrary item counts, get_priority overrides (base+len, base-len, "
        "constant, ties), flush bodies that succeed / raise before item k / skip items / set item errors, yield-only and "
        "with synchronous re-entry; distinct = different AST+params; non-trivial = items of >= 2 kinds")
TRUSTED = ["Python/Gallina emitters of harness/lib/machprog.py", "set iteration order is replayed as the model's oracle and checked for legality"]
ASSUMPTIONS = ["priority clause: yield-only programs (as in the statement)"]
EXPLANATION = "projection: Before/Flush/ItemDone/After events and the model's verdict on every observed flush choice"

_base = dict(name="twokinds", p_ctx_fault=0, p_nonasync=0, budget=20, max_depth=5, nkinds=2, p_item=0.55, p_prio=0.7,
             p_flush_raise=0.25, p_item_skip=0.12, p_item_err=0.1, p_sync=0)
PROFILES = [
    (3, dict(_base)),
    (2, dict(_base, name="threekinds", nkinds=3)),
    (2, dict(_base, name="sync", p_sync=0.2)),
    (1, dict(_base, name="sync-keep", p_sync=0.3, p_keep=0.8)),
    (1, dict(_base, name="ties", p_prio=0.0, nkeys=2)),
]


def _nontrivial(c):
    return machgen.stats(c)["kinds"] >= 2


# KEEP_DEPENDENCIES keeps a flushed batch's items: a batch flushed by a sibling's synchronous item.value() stays in the
# scheduler's set and must still be skipped when the next batch is selected
_KEPT_FLUSHED = {
    "roots": [[
        {"op": "yield", "x": "x1", "s": {"tuple": [
            {"new": {"task": [{"op": "yield", "x": "a1", "s": {"new": {"item": [0, 1, {"set": 1}]}}}, {"op": "return", "e": {"var": "a1"}}]}},
            {"new": {"task": [{"op": "let", "h": "h1", "f": {"item": [0, 2, {"set": 2}]}}, {"op": "sync", "x": "b1", "h": "h1"},
                              {"op": "return", "e": {"var": "b1"}}]}},
            {"new": {"task": [{"op": "yield", "x": "c1", "s": {"new": {"item": [1, 3, {"set": 3}]}}}, {"op": "return", "e": {"var": "c1"}}]}}]}},
        {"op": "return", "e": {"var": "x1"}}]],
    "params": {"kinds": {}, "keep": True},
}

# A flush body that makes a synchronous call of an @asynq function blocking on an item of ANOTHER batch kind
# (params.kinds[k]["nested"] = [kind2, key, action]): the scheduler runs re-entrantly while batch k is being flushed.
# This scenario class is OUTSIDE the Coq model (Machine.flush_batch is a function of the state): no correspondence,
# only the program-independent C05 monitors of machmon.analyse_flush_nesting speak about these cases.
def _reentrant_case(n0, n1, prio0=None):
    leaves = [{"new": {"task": [{"op": "yield", "x": "a%d" % i, "s": {"new": {"item": [0, i, {"set": i}]}}},
                                {"op": "return", "e": {"var": "a%d" % i}}]}} for i in range(n0)]
    leaves += [{"new": {"task": [{"op": "yield", "x": "b%d" % i, "s": {"new": {"item": [1, 10 + i, {"set": 10 + i}]}}},
                                 {"op": "return", "e": {"var": "b%d" % i}}]}} for i in range(n1)]
    k0 = {"nested": [1, 99, {"set": 99}]}
    if prio0 is not None:
        k0["prio"] = prio0
    return {"roots": [[{"op": "yield", "x": "x1", "s": {"tuple": leaves}}, {"op": "return", "e": {"var": "x1"}}]],
            "params": {"kinds": {"0": k0}, "reentrant": True}}


# found by the thorough tier on the pinned tree (fixed in /repo): the flush of batch (0,0) is started by a sibling's
# item.value() while the batch is still in the scheduler's set; its body re-enters the scheduler, which selected and
# flushed the same batch again
_REENTRANT_SYNC = {
    "roots": [[{"op": "yield", "x": "x1", "s": {"list": [
        {"new": {"item": [0, 0, {"set": 81}]}},
        {"list": [{"new": {"task": [{"op": "let", "h": "h1", "f": {"item": [0, 0, {"set": 32}]}}, {"op": "sync", "x": "x2", "h": "h1"}]}},
                  {"new": {"item": [1, 1, {"set": 38}]}}, {"new": {"item": [0, 2, {"set": 17}]}}]}]}}]],
    "params": {"kinds": {"0": {"nested": [1, 95, {"set": 8}]}}, "reentrant": True},
}

_REENTRANT = [_reentrant_case(3, 1), _reentrant_case(2, 0), _reentrant_case(1, 2, ["const", 5, 0]), _REENTRANT_SYNC]


def _is_reentrant(c):
    return bool(c.get("params", {}).get("reentrant"))


def _extra_gen(rng, tier):
    out = []
    for _ in range(12 if tier == "quick" else 200):
        g = machgen.Gen(rng, **dict(_base, name="reentrant", p_sync=rng.choice([0, 0.2]), p_flush_raise=0.1))
        c = g.case()
        ks = c.setdefault("params", {}).setdefault("kinds", {})
        k = str(rng.randrange(2))
        ks.setdefault(k, {})["nested"] = [1 - int(k), 90 + rng.randrange(3), rng.choice([{"set": 7}, {"err": 3}, "skip"])]
        if rng.random() < 0.3:
            ks.setdefault(str(1 - int(k)), {})["nested"] = [int(k), 95, {"set": 8}]
        c["params"]["reentrant"] = True
        out.append((c, {"profile": "reentrant"}))
    return out


# flush bodies (and tasks, items) failing with a BaseException that is not an Exception: the batch must still be
# finished with that error, every item answered, the after event fired
_BASE_ERR = [(1, dict(_base, name="base-errors", p_base_err=1.0, p_flush_raise=0.7, p_item_err=0.2, p_try=0.25))]
_FLUSH_BASE_EXC = {
    "roots": [[{"op": "try", "body": [{"op": "yield", "x": "x1", "s": {"tuple": [
        {"new": {"item": [0, 1, {"set": 1}]}}, {"new": {"item": [0, 2, {"set": 2}]}}, {"new": {"item": [1, 3, {"set": 3}]}}]}}],
        "x": "e1", "handler": [{"op": "yield", "x": "x2", "s": {"new": {"item": [1, 4, {"set": 4}]}}}]},
        {"op": "return", "e": 0}]],
    "params": {"kinds": {"0": {"raise": [1, 1002]}}, "base_errors": True},
}


def _after_helper(kind, key):
    return {"new": {"task": [{"op": "yield", "x": "n%d" % key, "s": {"new": {"task": [{"op": "return", "e": key}]}}},
                             {"op": "yield", "x": "v%d" % key, "s": {"new": {"item": [kind, key, {"set": key}]}}},
                             {"op": "return", "e": {"var": "v%d" % key}}]}}


# tasks that first await a sub-task and only then a batch item: their batch (3 items) must be scheduled by the time the
# scheduler has to choose, and win against the 1-item batch of the other kind
_LATE_ITEMS = {
    "roots": [[{"op": "yield", "x": "x1", "s": {"tuple": [
        {"new": {"task": [{"op": "yield", "x": "a1", "s": {"new": {"item": [0, 1, {"set": 1}]}}}, {"op": "return", "e": {"var": "a1"}}]}},
        _after_helper(1, 2), _after_helper(1, 3), _after_helper(1, 4)]}},
        {"op": "return", "e": {"var": "x1"}}]],
    "params": {"kinds": {}},
}


# a synchronous call made by a task while an earlier sibling is suspended on a scheduled batch the callee does not need: the
# nested wait ends as soon as the callee is done and must not flush the sibling's batch
_NESTED_WAIT_DONE = {
    "roots": [[{"op": "yield", "x": "x1", "s": {"tuple": [
        {"new": {"task": [{"op": "yield", "x": "a1", "s": {"new": {"item": [0, 1, {"set": 1}]}}}, {"op": "return", "e": {"var": "a1"}}]}},
        {"new": {"task": [{"op": "let", "h": "h1", "f": {"task": [{"op": "return", "e": 7}]}}, {"op": "sync", "x": "s1", "h": "h1"},
                          {"op": "let", "h": "h2", "f": {"task": [{"op": "yield", "x": "c1", "s": {"new": {"item": [1, 2, {"set": 2}]}}}, {"op": "return", "e": {"var": "c1"}}]}},
                          {"op": "sync", "x": "s2", "h": "h2"},
                          {"op": "yield", "x": "b1", "s": {"new": {"item": [0, 3, {"set": 3}]}}}, {"op": "return", "e": {"var": "b1"}}]}}]}},
        {"op": "return", "e": {"var": "x1"}}]],
    "params": {"kinds": {}},
}


# ---- hooks of the batch that raise: batch.flush() ITSELF fails out of the scheduler (a failing flush BODY does not do
# that - its error is stored on the batch).  params.kinds[k]: `cancel_raise: id` (_cancel() raises while the batch
# completes with its flush error), `switch_raise: [n, id]` (the n-th _try_switch_active_batch() call raises),
# `to_str_raise: id` (dump_perf_stats fails under COLLECT_PERF_STATS); params.before_sub = [kind, "flush" | "value"]
# (a before-flush subscriber that flushes the batch / asks an item for its value itself, so the scheduler's flush() gets
# BatchingError).  The error then leaves value().  OUTSIDE the Coq model (Machine.flush_batch has no hook that can
# raise; a flush always ends normally there; switch_raise is generated for the FIRST call only - flush() fails before the
# body runs - because a _try_switch_active_batch() that raises while the batch completes breaks its documented "must never
# throw" contract and nothing is claimed about the items then): no correspondence, only the program-independent monitors of
# machmon.analyse_flush_nesting speak - brackets closed (the after event even when the flush fails), flushed at most
# once, items of a batch whose body ran are completed when the scheduler flush is over.
def _hook_case(n0, n1, kinds, extra=None, second_root=True):
    its = [{"new": {"item": [0, i, {"set": i}]}} for i in range(n0)] + [{"new": {"item": [1, 10 + i, {"set": 10 + i}]}} for i in range(n1)]
    roots = [[{"op": "yield", "x": "x1", "s": {"tuple": its}}, {"op": "return", "e": {"var": "x1"}}]]
    if second_root:
        # an ordinary computation afterwards: its flushes are bracketed as usual
        roots.append([{"op": "yield", "x": "y1", "s": {"list": [{"new": {"item": [1, 20, {"set": 20}]}}, {"new": {"item": [1, 21, {"set": 21}]}}]}},
                      {"op": "return", "e": {"var": "y1"}}])
    p = {"kinds": kinds, "hook_faults": True}
    p.update(extra or {})
    return {"roots": roots, "params": p}


_HOOKS = [
    _hook_case(3, 1, {"0": {"raise": [1, 1001], "cancel_raise": 1004}}),                       # _flush raises, then _cancel raises
    _hook_case(2, 0, {"0": {"raise": [0, 1001], "via_cancel": True, "cancel_raise": 1004}}, second_root=False),
    _hook_case(3, 1, {"0": {"switch_raise": [1, 1004]}}),                                        # flush() fails before the body runs
    _hook_case(3, 1, {}, {"before_sub": [0, "flush"]}),
    _hook_case(2, 1, {"0": {"raise": [1, 1001]}}, {"before_sub": [0, "value"]}),
    _hook_case(3, 1, {"0": {"to_str_raise": 1004}}, {"options": {"COLLECT_PERF_STATS": True}, "clock": [5]}),
]


def _is_hooks(c):
    return bool(c.get("params", {}).get("hook_faults"))


def _hooks_gen(rng, tier):
    out = []
    for _ in range(24 if tier == "quick" else 400):
        g = machgen.Gen(rng, **dict(_base, name="hook-faults", p_sync=rng.choice([0, 0, 0.2]), p_flush_raise=0.5,
                                    p_via_cancel=0.3, p_try=rng.choice([0.12, 0.3]), roots=(1, 2)))
        c = g.case()
        p = c.setdefault("params", {})
        ks = p.setdefault("kinds", {})
        for _m in range(1 if rng.random() < 0.75 else 2):
            mode = rng.choice(["cancel", "cancel", "switch", "before", "perf"])
            k = str(rng.randrange(2))
            if mode == "cancel":
                kk = ks.setdefault(k, {})
                kk.setdefault("raise", [rng.randrange(0, 3), 1001])
                kk["cancel_raise"] = 1004
            elif mode == "switch":
                ks.setdefault(k, {})["switch_raise"] = [1, 1004]
            elif mode == "before":
                p["before_sub"] = [int(k), rng.choice(["flush", "value"])]
            else:
                ks.setdefault(k, {})["to_str_raise"] = 1004
                p["options"] = {"COLLECT_PERF_STATS": True}
                p["clock"] = [5]
        p["hook_faults"] = True
        out.append((c, {"profile": "hook-faults"}))
    return out


def _hang_monitor(c, io, build):
    # only the hook-fault class has a reading of a hang that needs no knowledge of the program: these programs finish in
    # milliseconds unless the scheduler spins on a task whose awaited item is never answered
    if not _is_hooks(c):
        return []
    ks = c.get("params", {}).get("kinds", {})
    what = sorted({h.replace("_", "-") for k in ks.values() for h in k if h.endswith("_raise")} |
                  ({"before-subscriber-%s" % c["params"]["before_sub"][1]} if c["params"].get("before_sub") else set()))
    return [dict(clause="C05:item-completion", site="scheduler-spins-on-unanswered-items:%s" % "+".join(what),
                 msg="the computation did not end: after a hook of the batch raised, the scheduler keeps running without "
                     "flushing anything (a flushed batch whose items were never answered)")]


def _impl_only(c):
    return _is_reentrant(c) or _is_hooks(c)


def _extra_monitors(c, io, build):
    if _is_hooks(c):
        return machmon.analyse_flush_nesting(c, io, items_answered=True)
    return machmon.analyse_flush_nesting(c, io) if _is_reentrant(c) else []


mach.install(globals(), "C05", ("EvBefore", "EvFlush", "EvItemDone", "EvAfter", "EvIllegal"), ("C05:",), PROFILES,
             n_quick=300, n_thorough=25000, nontrivial=_nontrivial, level="proof", corpus=[_KEPT_FLUSHED, _FLUSH_BASE_EXC, _LATE_ITEMS, _NESTED_WAIT_DONE] + _REENTRANT + _HOOKS,
             impl_only=_impl_only, hang_monitor=_hang_monitor, extra_monitors=_extra_monitors,
             extra_gen=mach.extra_all(_extra_gen, mach.extra_profiles(_BASE_ERR, 40, 3000), _hooks_gen))
