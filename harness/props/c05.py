"""C05 — each batch is flushed once, highest priority first; every item is answered."""
from ..lib import mach, machgen, machmon

RULE = ("generated programs over 2-3 batch kinds with arbitrary item counts, get_priority overrides (base+len, base-len, "
        "constant, ties), flush bodies that succeed / raise before item k / skip items / set item errors, yield-only and "
        "with synchronous re-entry; distinct = different AST+params; non-trivial = items of >= 2 kinds")
TRUSTED = ["Python/Gallina emitters of harness/lib/machprog.py", "set iteration order is replayed as the model's oracle and checked for legality"]
ASSUMPTIONS = ["priority clause: yield-only programs (as in the statement)"]
EXPLANATION = "projection: Before/Flush/ItemDone/After events and the model's verdict on every observed flush choice"

_base = dict(name="twokinds", p_ctx_fault=0, p_nonasync=0, budget=20, max_depth=5, nkinds=2, p_item=0.55, p_prio=0.7,
             p_flush_raise=0.25, p_item_skip=0.12, p_item_err=0.1, p_sync=0)
PROFILES = [
    (3, dict(_base)),
    (2, dict(_base, name="threekinds", nkinds=3)),
    (2, dict(_base, name="sync", p_sync=0.2)),
    (1, dict(_base, name="sync-keep", p_sync=0.3, p_keep=0.8)),
    (1, dict(_base, name="ties", p_prio=0.0, nkeys=2)),
]


def _nontrivial(c):
    return machgen.stats(c)["kinds"] >= 2


# KEEP_DEPENDENCIES keeps a flushed batch's items: a batch flushed by a sibling's synchronous item.value() stays in the
# scheduler's set and must still be skipped when the next batch is selected
_KEPT_FLUSHED = {
    "roots": [[
        {"op": "yield", "x": "x1", "s": {"tuple": [
            {"new": {"task": [{"op": "yield", "x": "a1", "s": {"new": {"item": [0, 1, {"set": 1}]}}}, {"op": "return", "e": {"var": "a1"}}]}},
            {"new": {"task": [{"op": "let", "h": "h1", "f": {"item": [0, 2, {"set": 2}]}}, {"op": "sync", "x": "b1", "h": "h1"},
                              {"op": "return", "e": {"var": "b1"}}]}},
            {"new": {"task": [{"op": "yield", "x": "c1", "s": {"new": {"item": [1, 3, {"set": 3}]}}}, {"op": "return", "e": {"var": "c1"}}]}}]}},
        {"op": "return", "e": {"var": "x1"}}]],
    "params": {"kinds": {}, "keep": True},
}

# A flush body that makes a synchronous call of an @asynq function blocking on an item of ANOTHER batch kind
# (params.kinds[k]["nested"] = [kind2, key, action]): the scheduler runs re-entrantly while batch k is being flushed.
# This scenario class is OUTSIDE the Coq model (Machine.flush_batch is a function of the state): no correspondence,
# only the program-independent C05 monitors of machmon.analyse_flush_nesting speak about these cases.
def _reentrant_case(n0, n1, prio0=None):
    leaves = [{"new": {"task": [{"op": "yield", "x": "a%d" % i, "s": {"new": {"item": [0, i, {"set": i}]}}},
                                {"op": "return", "e": {"var": "a%d" % i}}]}} for i in range(n0)]
    leaves += [{"new": {"task": [{"op": "yield", "x": "b%d" % i, "s": {"new": {"item": [1, 10 + i, {"set": 10 + i}]}}},
                                 {"op": "return", "e": {"var": "b%d" % i}}]}} for i in range(n1)]
    k0 = {"nested": [1, 99, {"set": 99}]}
    if prio0 is not None:
        k0["prio"] = prio0
    return {"roots": [[{"op": "yield", "x": "x1", "s": {"tuple": leaves}}, {"op": "return", "e": {"var": "x1"}}]],
            "params": {"kinds": {"0": k0}, "reentrant": True}}


# found by the thorough tier on the pinned tree (fixed in /repo): the flush of batch (0,0) is started by a sibling's
# item.value() while the batch is still in the scheduler's set; its body re-enters the scheduler, which selected and
# flushed the same batch again
_REENTRANT_SYNC = {
    "roots": [[{"op": "yield", "x": "x1", "s": {"list": [
        {"new": {"item": [0, 0, {"set": 81}]}},
        {"list": [{"new": {"task": [{"op": "let", "h": "h1", "f": {"item": [0, 0, {"set": 32}]}}, {"op": "sync", "x": "x2", "h": "h1"}]}},
                  {"new": {"item": [1, 1, {"set": 38}]}}, {"new": {"item": [0, 2, {"set": 17}]}}]}]}}]],
    "params": {"kinds": {"0": {"nested": [1, 95, {"set": 8}]}}, "reentrant": True},
}

_REENTRANT = [_reentrant_case(3, 1), _reentrant_case(2, 0), _reentrant_case(1, 2, ["const", 5, 0]), _REENTRANT_SYNC]


def _is_reentrant(c):
    return bool(c.get("params", {}).get("reentrant"))


def _extra_gen(rng, tier):
    out = []
    for _ in range(12 if tier == "quick" else 200):
        g = machgen.Gen(rng, **dict(_base, name="reentrant", p_sync=rng.choice([0, 0.2]), p_flush_raise=0.1))
        c = g.case()
        ks = c.setdefault("params", {}).setdefault("kinds", {})
        k = str(rng.randrange(2))
        ks.setdefault(k, {})["nested"] = [1 - int(k), 90 + rng.randrange(3), rng.choice([{"set": 7}, {"err": 3}, "skip"])]
        if rng.random() < 0.3:
            ks.setdefault(str(1 - int(k)), {})["nested"] = [int(k), 95, {"set": 8}]
        c["params"]["reentrant"] = True
        out.append((c, {"profile": "reentrant"}))
    return out


# flush bodies (and tasks, items) failing with a BaseException that is not an Exception: the batch must still be
# finished with that error, every item answered, the after event fired
_BASE_ERR = [(1, dict(_base, name="base-errors", p_base_err=1.0, p_flush_raise=0.7, p_item_err=0.2, p_try=0.25))]
_FLUSH_BASE_EXC = {
    "roots": [[{"op": "try", "body": [{"op": "yield", "x": "x1", "s": {"tuple": [
        {"new": {"item": [0, 1, {"set": 1}]}}, {"new": {"item": [0, 2, {"set": 2}]}}, {"new": {"item": [1, 3, {"set": 3}]}}]}}],
        "x": "e1", "handler": [{"op": "yield", "x": "x2", "s": {"new": {"item": [1, 4, {"set": 4}]}}}]},
        {"op": "return", "e": 0}]],
    "params": {"kinds": {"0": {"raise": [1, 1002]}}, "base_errors": True},
}


def _after_helper(kind, key):
    return {"new": {"task": [{"op": "yield", "x": "n%d" % key, "s": {"new": {"task": [{"op": "return", "e": key}]}}},
                             {"op": "yield", "x": "v%d" % key, "s": {"new": {"item": [kind, key, {"set": key}]}}},
                             {"op": "return", "e": {"var": "v%d" % key}}]}}


# tasks that first await a sub-task and only then a batch item: their batch (3 items) must be scheduled by the time the
# scheduler has to choose, and win against the 1-item batch of the other kind
_LATE_ITEMS = {
    "roots": [[{"op": "yield", "x": "x1", "s": {"tuple": [
        {"new": {"task": [{"op": "yield", "x": "a1", "s": {"new": {"item": [0, 1, {"set": 1}]}}}, {"op": "return", "e": {"var": "a1"}}]}},
        _after_helper(1, 2), _after_helper(1, 3), _after_helper(1, 4)]}},
        {"op": "return", "e": {"var": "x1"}}]],
    "params": {"kinds": {}},
}


# a synchronous call made by a task while an earlier sibling is suspended on a scheduled batch the callee does not need: the
# nested wait ends as soon as the callee is done and must not flush the sibling's batch
_NESTED_WAIT_DONE = {
    "roots": [[{"op": "yield", "x": "x1", "s": {"tuple": [
        {"new": {"task": [{"op": "yield", "x": "a1", "s": {"new": {"item": [0, 1, {"set": 1}]}}}, {"op": "return", "e": {"var": "a1"}}]}},
        {"new": {"task": [{"op": "let", "h": "h1", "f": {"task": [{"op": "return", "e": 7}]}}, {"op": "sync", "x": "s1", "h": "h1"},
                          {"op": "let", "h": "h2", "f": {"task": [{"op": "yield", "x": "c1", "s": {"new": {"item": [1, 2, {"set": 2}]}}}, {"op": "return", "e": {"var": "c1"}}]}},
                          {"op": "sync", "x": "s2", "h": "h2"},
                          {"op": "yield", "x": "b1", "s": {"new": {"item": [0, 3, {"set": 3}]}}}, {"op": "return", "e": {"var": "b1"}}]}}]}},
        {"op": "return", "e": {"var": "x1"}}]],
    "params": {"kinds": {}},
}


def _extra_monitors(c, io, build):
    return machmon.analyse_flush_nesting(c, io) if _is_reentrant(c) else []


mach.install(globals(), "C05", ("EvBefore", "EvFlush", "EvItemDone", "EvAfter", "EvIllegal"), ("C05:",), PROFILES,
             n_quick=300, n_thorough=25000, nontrivial=_nontrivial, level="proof", corpus=[_KEPT_FLUSHED, _FLUSH_BASE_EXC, _LATE_ITEMS, _NESTED_WAIT_DONE] + _REENTRANT,
             impl_only=_is_reentrant, extra_monitors=_extra_monitors,
             extra_gen=mach.extra_all(_extra_gen, mach.extra_profiles(_BASE_ERR, 40, 3000)))
