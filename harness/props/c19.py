"""C19 — asynq.mock.patch replaces every calling convention and always restores."""
import json

from ..lib import coqrun

PROP = "C19"
COQ_IMPORTS = ["Mock"]
COQ_FN = "Mock.run_case"
IMPL = "c19_impl.py"
IMPL_JOBS = 8
RULE = ("scenarios over a fresh module/class per case: 1-2 targets of kind {module function, method, method patched on an "
        "instance, classmethod, staticmethod, plain attribute}, 1-4 patchers with replacement kind {default mock, plain function, "
        "classmethod(fn), staticmethod(fn), @asynq function, bound method, callable object, attribute-refusing callable, "
        "non-callable, new_callable = MagicMock / callable class / NonCallableMock / a callable that refuses attribute assignment "
        "with AttributeError (__slots__), TypeError (frozen __setattr__, immutable builtin type) or RuntimeError, a Mock/MagicMock "
        "INSTANCE given as new=, a class given as new=} x behaviour "
        "{returns, raises}, an op list of enters/exits (with-block, function decorator, several decorators stacked on one function, class decorator), start/stop/stopall, "
        "exits by exception, and probes that call through all four conventions.  Part 1: the full product target kind x "
        "replacement kind x activation style x exit path as single blocks; part 1b (reactivation): ONE patcher object activated "
        "2-3 times in a row (a decorated function / method of a decorated class called again, start/stop/start, several with-blocks, "
        "styles mixed), alone, inside another patch, with another patch in between or next to a second target; the object a "
        "per-activation replacement (default mock, new_callable) installs is identified per activation; part 1c (shared replacement): "
        "ONE caller-supplied object given as new= to 2-3 patchers (of two targets, or nested on one target; every explicit replacement "
        "kind; with-block / decorator / class decorator / start-stop / start-stopall for either patch) whose lifetimes overlap, the "
        "surviving patch probed after the other one ended (plus sequential reuse as control); part 2 (30% of the later patchers reuse "
        "an earlier patcher's object): random well-bracketed nestings and "
        "sequences (mostly on one target); part 3 (malformed stream, ~12%): non-LIFO stops, double starts, stop without start, "
        "stopall under a with-block, a patcher nested in itself; part 4 (result kind, drawn after the other parts): the KIND of value the "
        "replacement returns - besides a plain value / a raise: None, an exception instance as data, a FUTURE OBJECT as the result "
        "(computed ConstFuture, not yet started AsyncTask, unflushed batch item) - x every callable replacement kind x target kind x "
        "activation style, plus nestings / shared replacements with such results; every convention must deliver the very object "
        "the replacement returned (compared by identity).  distinct = different (targets, patchers, op list); "
        "non-trivial = at least one activation with a probe inside it and one after it")
TRUSTED = ["CPython 3.12 unittest.mock._patch (get_original, __enter__, __exit__, start, stop, stopall, decoration_helper, "
           "decorate_class) and MagicMock: modelled in Mock.v, exercised, not verified",
           "qcore.decorators.DecoratorBase.__get__ / DecoratorBinder.__call__ (descriptor binding of the installed decorator objects)",
           "asyncio.run and the asynq scheduler are exercised by the asyncio / yield conventions, modelled as 'the coroutine / task body runs once'"]
ASSUMPTIONS = ["'well-bracketed' = the stack discipline of Mock wb: every enter/start is closed by its own exit/stop (or a stopall that "
               "closes only started patches on top of the stack) in LIFO order and no patcher object is entered while it is active; "
               "for other orders (malformed stream) only model/implementation agreement is checked, as unittest.mock itself does not restore then",
               "classmethod(...) / staticmethod(...) replacements are only installed on attributes fetched through a class",
               "a replacement made by new_callable that is callable but refuses attribute assignment cannot get .asynq/.asyncio: "
               "the patch is refused (the replacement's own AttributeError / TypeError / RuntimeError is re-raised) and the original is left in place",
               "a default mock / new_callable product is a new object on every activation of a patcher; 'the replacement' of an activation is "
               "the object that activation installed, not the one an earlier activation of the same patcher installed",
               "one object given as new= to several patchers is 'the replacement' of each of them: as long as one of these patches is active its "
               "target must reach that object through every convention, also after another patch that was given the same object has ended",
               "'agree on the result' = every convention delivers the very object the replacement returned (or raises what it raised), whatever "
               "kind of object that is: a future object (ConstFuture, task, batch item) returned by the replacement is its result, not "
               "something a convention may look into - fn(..) returns it, so do .asynq(..).value(), a yielded .asynq(..) and await .asyncio(..)",
               "received arguments: the given arguments, preceded by the bound instance/class exactly when the descriptor protocol binds "
               "the replacement (plain function or @asynq function fetched through an instance, classmethod object)"]
EXPLANATION = ("Mock.v models the attribute store, every _patch object's saved original, _active_patches, _maybe_wrap_new's "
               "classification and the dispatch of the four calling conventions on the installed object; theorems: C19_restored "
               "(all well-bracketed op lists, any number of targets/patchers), C19_conventions_reach_replacement (whole product, "
               "argument type polymorphic), C19_noncallable_as_is, C19_maybe_wrap_new_spec, C19_enter_refusal (any refusal exception: "
               "state untouched, exception re-raised), C19_reactivation_fresh/_same + C19_probe_reaches_current (a re-activated patcher "
               "installs a new per-activation object and every convention reaches the object in place now), C19_attach_persists / "
               "C19_survivor_reached / C19_survivor_agree (the .asynq/.asyncio wrappers are never taken off an object again, for ANY op "
               "list: a patch whose replacement object is shared with other patches is reached by all four conventions after those ended), "
               "C19_shared_same_object / _wrapped_distinct / _body (what two patchers given one object install).")

TKS = ["TModFn", "TMethod", "TInstMethod", "TClassmethod", "TStaticmethod", "TAttr"]
RKS = ["RDefault", "RFunc", "RClassmethod", "RStaticmethod", "RAsynqFn", "RBound", "RCallableObj", "RSlotsObj",
       "RNonCallable", "RNcMock", "RNcObj", "RNcSlots", "RNcNonCallable", "RNcFrozen", "RNcType", "RNcRaiser",
       "RMockObj", "RClassObj"]
NONCALLABLE = ("RNonCallable", "RNcNonCallable")
# made by unittest.mock on every activation (new is DEFAULT) vs. the one object given as new=
PER_ACTIVATION = ("RDefault", "RNcMock", "RNcObj", "RNcSlots", "RNcNonCallable", "RNcFrozen", "RNcType", "RNcRaiser")
# callable products of new_callable that refuse `obj.asynq = ...` (AttributeError / TypeError / TypeError / RuntimeError)
REFUSING = ("RNcSlots", "RNcFrozen", "RNcType", "RNcRaiser")
# explicit new= objects that _maybe_wrap_new hands back unchanged: given to several patchers they are ONE installed object
AS_IS = ("RAsynqFn", "RCallableObj", "RNonCallable", "RMockObj", "RClassObj")
# explicit new= objects (a caller can give the same one to several patches)
EXPLICIT = tuple(r for r in RKS if r not in PER_ACTIVATION)
# kinds of value a replacement returns besides the plain tuple of BRet (a future object among them is a value like any other)
RESULT_KINDS = ["BRetNone", "BRetExc", "BRetFut", "BRetTask", "BRetBatch"]
FUTURE_RESULTS = ("BRetFut", "BRetTask", "BRetBatch")
STYLES = ["SWith", "SDecor", "SDecorCls", "SDecorStack", "StartStop", "StartStopAll"]


def compat(tk, rk):
    if rk == "RClassmethod":
        return tk in ("TClassmethod", "TMethod", "TStaticmethod", "TAttr")
    if rk == "RStaticmethod":
        return tk not in ("TModFn", "TInstMethod")
    return True


def B(x):
    return "true" if x else "false"


def open_close(p, style, exc):
    if style in ("SWith", "SDecor", "SDecorCls"):
        return [{"OEnter": [p, style]}], [{"OExit": [p, style, B(exc)]}]
    if style == "StartStop":
        return [{"OStart": [p]}], [{"OStop": [p, B(exc)]}]
    return [{"OStart": [p]}], [{"OStopAll": [B(exc)]}]


def norm_ps(ps):
    """[target, replacement kind, behaviour, share]; share (default: own index) = the lowest patcher that is given the
    same caller-supplied object as new= (only explicit replacements can be shared; sharers have the same kind/behaviour)"""
    out = []
    for i, p in enumerate(ps):
        p = list(p)
        if len(p) < 4:
            p.append(i)
        out.append(p)
    return out


def mk(tks, ps, ops, api=None, reuse=True, **meta):
    ps = norm_ps(ps)
    c = {"tks": tks, "ps": ps, "ops": ops, "api": api or ["object"] * len(ps), "reuse": bool(reuse), "meta": meta}
    c["tree"] = [tks, [{"": list(p)} for p in ps], ops]
    return c


def model_input(c):
    return " ".join(coqrun.coq_of(a) for a in [c["tks"], [{"": list(p)} for p in norm_ps(c["ps"])], c["ops"]])


def sharers(ps, p):
    """the other patchers that were given the same replacement object as p"""
    if ps[p][1] in PER_ACTIVATION:
        return []
    return [q for q in range(len(ps)) if q != p and ps[q][3] == ps[p][3] and ps[q][1] not in PER_ACTIVATION]


def canon(c):
    return json.dumps([c["tks"], norm_ps(c["ps"]), c["ops"], c.get("api"), c.get("reuse", True)], sort_keys=True)


def _args(rng):
    return [rng.randrange(0, 50) for _ in range(rng.choice([0, 1, 1, 2, 3]))]


def product_cases(rng, both_exits, both_apis):
    out = []
    n = 0
    for tk in TKS:
        for rk in RKS:
            if not compat(tk, rk):
                continue
            for style in STYLES:
                for exc in ((False, True) if both_exits else (bool(n % 2),)):
                    for api in (("patch", "object") if both_apis else (("patch", "object")[(n // 2) % 2],)):
                        n += 1
                        beh = "BRaise" if rng.random() < 0.25 else "BRet"
                        if style == "SDecorStack":
                            # @patch(x, <cell's replacement>) stacked on @patch(x) on one function
                            o = [{"OEnter": [1, "SDecor"]}, {"OEnter": [0, "SDecorStack"]}]
                            cl = [{"OExit": [0, "SDecorStack", B(exc)]}, {"OExit": [1, "SDecor", B(exc)]}]
                            ops = [{"OProbe": [0, _args(rng)]}] + o + [{"OProbe": [0, _args(rng)]}] + cl + [{"OProbe": [0, _args(rng)]}]
                            out.append(mk([tk], [(0, rk, beh), (0, "RDefault", "BRet")], ops, [api, api], part="product", style=style, exc=exc))
                            continue
                        o, cl = open_close(0, style, exc)
                        ops = [{"OProbe": [0, _args(rng)]}] + o + [{"OProbe": [0, _args(rng)]}] + cl + [{"OProbe": [0, _args(rng)]}]
                        out.append(mk([tk], [(0, rk, beh)], ops, [api], part="product", style=style, exc=exc))
    return out


def _pick_rk(rng, tk):
    while True:
        rk = rng.choice(RKS if rng.random() < 0.8 else ["RDefault", "RFunc", "RBound", "RCallableObj"])
        if compat(tk, rk) and not (rk in REFUSING and rng.random() < 0.7):
            return rk


def nested_case(rng):
    ntk = 1 if rng.random() < 0.7 else 2
    tks = [rng.choice(TKS) for _ in range(ntk)]
    nps = rng.choice([2, 2, 3, 3, 4])
    ps = []
    for _ in range(nps):
        t = 0 if rng.random() < 0.8 else rng.randrange(ntk)
        prev = [q for q in range(len(ps)) if ps[q][1] in EXPLICIT and compat(tks[t], ps[q][1])]
        if prev and rng.random() < 0.3:
            # the same caller-supplied object as an earlier patcher (same or another target)
            q = rng.choice(prev)
            ps.append((t, ps[q][1], ps[q][2], ps[q][3]))
        else:
            ps.append((t, _pick_rk(rng, tks[t]), "BRaise" if rng.random() < 0.2 else "BRet", len(ps)))
    budget = [rng.choice([2, 3, 4, 5, 6])]

    def probes():
        return [{"OProbe": [rng.randrange(ntk) if rng.random() < 0.3 else 0, _args(rng)]} for _ in range(rng.choice([0, 1, 1, 2]))]

    def seq(open_ps, started_open, depth):
        ops = probes() if rng.random() < 0.6 else []
        for _ in range(rng.choice([1, 1, 2, 3]) if depth == 0 else rng.choice([0, 1, 1, 2])):
            free = [p for p in range(nps) if p not in open_ps]
            if not free or budget[0] <= 0:
                break
            budget[0] -= 1
            p = rng.choice(free)
            styles = ["SWith", "SDecor", "SDecorCls", "StartStop"] + ([] if started_open else ["StartStopAll", "MultiStart"])
            style = rng.choice(styles)
            exc = rng.random() < 0.35
            if style == "MultiStart":
                grp = [p] + [q for q in free if q != p][:rng.choice([1, 1, 2])]
                o = [{"OStart": [q]} for q in grp]
                cl = [{"OStopAll": [B(exc)]}]
                # only with-style blocks may be opened under a group that stopall will close
                body = seq(open_ps + grp, True, depth + 1) if depth < 3 else probes()
            elif style == "SDecor" and len(free) > 1 and rng.random() < 0.5:
                grp = [p] + [q for q in free if q != p and ps[q][1] not in REFUSING][:rng.choice([1, 1, 2])]
                o = [{"OEnter": [q, "SDecor" if i == 0 else "SDecorStack"]} for i, q in enumerate(grp)]
                cl = [{"OExit": [q, "SDecor" if i == 0 else "SDecorStack", B(exc)]} for i, q in reversed(list(enumerate(grp)))]
                body = seq(open_ps + grp, started_open, depth + 1) if depth < 3 else probes()
                p = grp[-1]
            else:
                o, cl = open_close(p, style, exc)
                st = started_open or style in ("StartStop", "StartStopAll")
                body = seq(open_ps + [p], st, depth + 1) if depth < 3 else probes()
            ops += o + (probes() or [{"OProbe": [ps[p][0], _args(rng)]}]) + body + cl + probes()
        return ops
    ops = seq([], False, 0) + [{"OProbe": [t, _args(rng)]} for t in range(ntk)]
    return mk(tks, ps, ops, [rng.choice(["patch", "object"]) for _ in ps], reuse=rng.random() < 0.7, part="nested")


def malformed_case(rng):
    tks = [rng.choice(TKS)]
    kinds = ["RDefault", "RFunc", "RBound", "RCallableObj", "RNonCallable", "RAsynqFn", "RNcObj", "RNcFrozen", "RMockObj", "RClassObj"]
    nps = rng.choice([2, 3])
    ps = [(0, rng.choice(kinds), "BRet", i) for i in range(nps)]
    if ps[0][1] in EXPLICIT and rng.random() < 0.3:
        ps[1] = (0, ps[0][1], "BRet", 0)           # two patchers given the same object
    shape = rng.choice(["nonlifo", "double-start", "stop-unstarted", "stopall-under-with", "self-nested", "random"])
    pr = lambda: {"OProbe": [0, _args(rng)]}
    if shape == "nonlifo":
        ops = [{"OStart": [0]}, pr(), {"OStart": [1]}, pr(), {"OStop": [0, "false"]}, pr(), {"OStop": [1, B(rng.random() < 0.3)]}, pr()]
    elif shape == "double-start":
        ops = [{"OStart": [0]}, {"OStart": [0]}, pr(), {"OStop": [0, "false"]}, pr(), {"OStop": [0, "false"]}, pr(), {"OStopAll": ["false"]}, pr()]
    elif shape == "stop-unstarted":
        ops = [{"OStop": [0, "false"]}, pr(), {"OStopAll": ["false"]}, {"OStart": [1]}, {"OStop": [0, "true"]}, pr(), {"OStop": [1, "false"]}, pr()]
    elif shape == "stopall-under-with":
        sty = rng.choice(["SWith", "SDecor"])
        ops = [{"OStart": [0]}, {"OEnter": [1, sty]}, pr(), {"OStopAll": ["false"]}, pr(), {"OExit": [1, sty, B(rng.random() < 0.5)]}, pr()]
    elif shape == "self-nested":
        sty = rng.choice(["SWith", "SDecor"])
        ops = [{"OEnter": [0, sty]}, {"OEnter": [0, "SWith"]}, pr(), {"OExit": [0, "SWith", "false"]}, pr(), {"OExit": [0, sty, "false"]}, pr()]
    else:
        ops = []
        stack = []
        for _ in range(rng.randrange(4, 12)):
            r = rng.random()
            p = rng.randrange(nps)
            if r < 0.25:
                ops.append({"OStart": [p]})
            elif r < 0.5:
                ops.append({"OStop": [p, B(rng.random() < 0.3)]})
            elif r < 0.58:
                ops.append({"OStopAll": [B(rng.random() < 0.3)]})
            elif r < 0.72 and len(stack) < 3:
                sty = rng.choice(["SWith", "SDecor"])
                stack.append((p, sty))
                ops.append({"OEnter": [p, sty]})
            elif r < 0.84 and stack:
                q, sty = stack.pop()
                ops.append({"OExit": [q, sty, B(rng.random() < 0.3)]})
            else:
                ops.append(pr())
        while stack:
            q, sty = stack.pop()
            ops.append({"OExit": [q, sty, "false"]})
        ops.append(pr())
    return mk(tks, ps, ops, None, reuse=rng.random() < 0.7, part="malformed", shape=shape)


REACT_STYLES = ["SWith", "SDecor", "SDecorCls", "StartStop", "StartStopAll"]


def reactivation_case(rng, tk, rk, styles, wrap=None):
    """ONE patcher object (patcher 0) activated len(styles) times in a row, a probe inside and after each activation.
    wrap: None | "inside" (the whole run sits inside a with-block of a second patcher on the same target) |
    "between" (a second patcher is activated and closed between the activations) | "other-target"."""
    beh = "BRaise" if rng.random() < 0.2 else "BRet"
    tks, ps = [tk], [(0, rk, beh)]
    if wrap in ("inside", "between"):
        ps.append((0, rng.choice(["RDefault", "RFunc", "RCallableObj", "RNcObj"]), "BRet"))
    elif wrap == "other-target":
        tks = [tk, rng.choice(TKS)]
        ps.append((1, rng.choice(["RDefault", "RCallableObj"]), "BRet"))
    ops = [{"OProbe": [0, _args(rng)]}] if rng.random() < 0.5 else []
    for i, style in enumerate(styles):
        exc = rng.random() < 0.3
        o, cl = open_close(0, style, exc)
        ops += o + [{"OProbe": [0, _args(rng)]}]
        if wrap == "other-target" and rng.random() < 0.5:
            ops += [{"OEnter": [1, "SWith"]}, {"OProbe": [1, _args(rng)]}, {"OProbe": [0, _args(rng)]}, {"OExit": [1, "SWith", "false"]}]
        ops += cl + [{"OProbe": [0, _args(rng)]}]
        if wrap == "between" and i + 1 < len(styles):
            st2 = rng.choice(["SWith", "SDecor", "StartStop"])
            o2, cl2 = open_close(1, st2, rng.random() < 0.3)
            ops += o2 + [{"OProbe": [0, _args(rng)]}] + cl2
    if wrap == "inside":
        # stopall would also end a started outer patcher, so the outer one is a with-block
        ops = [{"OEnter": [1, "SWith"]}, {"OProbe": [0, _args(rng)]}] + ops + [{"OExit": [1, "SWith", B(rng.random() < 0.3)]}, {"OProbe": [0, _args(rng)]}]
    return mk(tks, ps, ops, [rng.choice(["patch", "object"]) for _ in ps], reuse=rng.random() < 0.75,
              part="reactivation", styles=list(styles), wrap=wrap)


def reactivation_cases(rng, full):
    out = []
    for tk in TKS:
        for rk in RKS:
            if not compat(tk, rk):
                continue
            if full:
                for s1 in REACT_STYLES:
                    for s2 in REACT_STYLES:
                        out.append(reactivation_case(rng, tk, rk, [s1, s2]))
                for wrap in ("inside", "between", "other-target"):
                    for _ in range(3):
                        out.append(reactivation_case(rng, tk, rk, [rng.choice(REACT_STYLES) for _ in range(rng.choice([2, 3]))], wrap))
            else:
                s = rng.choice(REACT_STYLES)
                out.append(reactivation_case(rng, tk, rk, [s, s] if rng.random() < 0.5 else [s, rng.choice(REACT_STYLES)]))
                if rk in PER_ACTIVATION and rk not in REFUSING:
                    out.append(reactivation_case(rng, tk, rk, [rng.choice(REACT_STYLES) for _ in range(rng.choice([2, 3]))],
                                                 rng.choice([None, "inside", "between", "other-target"])))
    return out


SHARED_STYLES = ["SWith", "SDecor", "SDecorCls", "StartStop", "StartStopAll"]
SHARED_SHAPES = ["two-targets", "same-target", "sequential", "three"]


def shared_style_ok(outer, inner):
    # a stopall that ends the inner patch would also end a started outer one (not well-bracketed)
    return not (inner == "StartStopAll" and outer in ("StartStop", "StartStopAll"))


def shared_case(rng, tk0, tk1, rk, shape, outer, inner, flip=False):
    """ONE caller-supplied replacement object given to 2-3 patchers (different targets or the same target) whose
    lifetimes overlap (or follow each other: "sequential", the control); the surviving patch is probed after the
    other one has ended.  flip: the surviving (outer) patcher is the one created later."""
    beh = "BRaise" if rng.random() < 0.2 else "BRet"
    same = shape in ("same-target", "sequential") and rng.random() < 0.7 or shape == "same-target"
    tks = [tk0] if same else [tk0, tk1]
    t_in = 0 if same else 1
    po, pi = (1, 0) if flip else (0, 1)
    ps = [None, None]
    ps[po] = (0, rk, beh, 0)
    ps[pi] = (t_in, rk, beh, 0)
    pr = lambda t: {"OProbe": [t, _args(rng)]}
    oo, oc = open_close(po, outer, rng.random() < 0.3)
    io, ic = open_close(pi, inner, rng.random() < 0.3)
    ops = [pr(0)] if rng.random() < 0.4 else []
    if shape == "sequential":
        ops += oo + [pr(0)] + oc + [pr(0)] + io + [pr(t_in)] + ic + [pr(t_in)]
        if rng.random() < 0.5:
            oo2, oc2 = open_close(po, outer, False)
            ops += oo2 + [pr(0)] + oc2
    elif shape == "three":
        # a third patcher given the same object: two inner patches one after the other (or an unrelated object)
        t3 = rng.randrange(len(tks))
        third_shared = rng.random() < 0.7
        ps.append((t3, rk, beh, 0) if third_shared else (t3, rk, "BRet", 2))
        st3 = rng.choice([x for x in SHARED_STYLES if shared_style_ok(outer, x)])
        o3, c3 = open_close(2, st3, rng.random() < 0.3)
        ops += oo + [pr(0)] + io + [pr(t_in)] + ic + [pr(0)] + o3 + [pr(t3), pr(0)] + c3 + [pr(0)] + oc + [pr(0)]
    else:
        ops += oo + ([pr(0)] if rng.random() < 0.7 else []) + io + [pr(t_in)] + ([pr(0)] if not same and rng.random() < 0.6 else [])
        ops += ic + [pr(0)] + ([pr(t_in)] if not same else []) + oc + [pr(0)]
    ops += [pr(t) for t in range(len(tks)) if rng.random() < 0.5]
    return mk(tks, ps, ops, [rng.choice(["patch", "object"]) for _ in ps], reuse=rng.random() < 0.75,
              part="shared", shape=shape, styles=[outer, inner])


def shared_cases(rng, full):
    out = []
    pairs = [(a, b) for a in SHARED_STYLES for b in SHARED_STYLES if shared_style_ok(a, b)]
    for rk in EXPLICIT:
        tks_ok = [tk for tk in TKS if compat(tk, rk)]
        if full:
            for tk0 in tks_ok:
                for shape in SHARED_SHAPES:
                    for (a, b) in pairs:
                        out.append(shared_case(rng, tk0, rng.choice(tks_ok), rk, shape, a, b, flip=rng.random() < 0.4))
        else:
            for shape, n in (("two-targets", 5), ("same-target", 3), ("three", 2), ("sequential", 1)):
                for _ in range(n):
                    a, b = rng.choice(pairs)
                    out.append(shared_case(rng, rng.choice(tks_ok), rng.choice(tks_ok), rk, shape, a, b, flip=rng.random() < 0.4))
    return out


def _with_result_kinds(rng, c, part):
    """the same scenario, every returning replacement gets a random result kind (patchers given one object keep one behaviour)"""
    ps = norm_ps(c["ps"])
    kind = {}
    for i, p in enumerate(ps):
        if p[2] == "BRet":
            key = i if p[1] in PER_ACTIVATION else ("obj", p[3])
            if key not in kind:
                kind[key] = rng.choice(RESULT_KINDS + list(FUTURE_RESULTS))
            p[2] = kind[key]
    meta = dict(c["meta"])
    meta["part"] = part
    return mk(c["tks"], ps, c["ops"], c.get("api"), reuse=c.get("reuse", True), **meta)


def result_kind_cases(rng, full):
    """part 4: what KIND of value the replacement returns (payload dimension of 'agree on the result')"""
    out = []
    callable_rks = [rk for rk in RKS if rk not in NONCALLABLE and rk not in REFUSING]
    for rk in callable_rks:
        tks_ok = [tk for tk in TKS if compat(tk, rk)]
        for beh in RESULT_KINDS:
            for tk in (tks_ok if full else [rng.choice(tks_ok)]):
                for style in (STYLES if full else [rng.choice(STYLES)]):
                    exc = rng.random() < 0.3
                    api = rng.choice(["patch", "object"])
                    if style == "SDecorStack":
                        o = [{"OEnter": [1, "SDecor"]}, {"OEnter": [0, "SDecorStack"]}]
                        cl = [{"OExit": [0, "SDecorStack", B(exc)]}, {"OExit": [1, "SDecor", B(exc)]}]
                        ps = [(0, rk, beh), (0, "RDefault", rng.choice(RESULT_KINDS))]
                    else:
                        o, cl = open_close(0, style, exc)
                        ps = [(0, rk, beh)]
                    ops = [{"OProbe": [0, _args(rng)]}] + o + [{"OProbe": [0, _args(rng)]}] + cl + [{"OProbe": [0, _args(rng)]}]
                    out.append(mk([tk], ps, ops, [api] * len(ps), part="result-kind", style=style, exc=exc))
    n_nested, n_shared = (600, 1) if full else (40, 0)
    out += [_with_result_kinds(rng, nested_case(rng), "result-kind-nested") for _ in range(n_nested)]
    shared = shared_cases(rng, False)
    if not full:
        shared = [shared[i] for i in sorted(rng.sample(range(len(shared)), 25))]
    out += [_with_result_kinds(rng, c, "result-kind-shared") for c in shared]
    return out


def gen_cases(rng, tier):
    if tier == "quick":
        cs = product_cases(rng, False, False)
        cs += reactivation_cases(rng, False)
        cs += shared_cases(rng, False)
        cs += [nested_case(rng) for _ in range(170)]
        cs += [malformed_case(rng) for _ in range(70)]
    else:
        cs = product_cases(rng, True, True)
        cs += reactivation_cases(rng, True)
        cs += shared_cases(rng, True)
        cs += [nested_case(rng) for _ in range(8000)]
        cs += [malformed_case(rng) for _ in range(1500)]
    # drawn after the main stream, so that the cases above stay what they were
    cs += result_kind_cases(rng, tier != "quick")
    return cs


def _blk(tk, rk, style, exc, beh="BRet", args=(1, 2)):
    o, cl = open_close(0, style, exc)
    a = list(args)
    return mk([tk], [(0, rk, beh)], [{"OProbe": [0, a]}] + o + [{"OProbe": [0, a]}] + cl + [{"OProbe": [0, a]}], None, corpus=True)


CORPUS = [
    # the cells asynq's own test_mock.py covers
    _blk("TModFn", "RDefault", "SWith", False), _blk("TClassmethod", "RClassmethod", "SDecor", False),
    _blk("TMethod", "RFunc", "SDecorCls", False), _blk("TModFn", "RBound", "SWith", False),
    _blk("TModFn", "RNonCallable", "SWith", False), _blk("TModFn", "RAsynqFn", "StartStop", False),
    _blk("TInstMethod", "RBound", "SWith", False), _blk("TAttr", "RCallableObj", "SWith", False),
    # new_callable (default autospec) and an attribute-refusing product of new_callable
    _blk("TModFn", "RNcMock", "SWith", True), _blk("TMethod", "RNcObj", "StartStopAll", False),
    _blk("TModFn", "RNcSlots", "SWith", False), _blk("TModFn", "RNcSlots", "StartStop", False),
    # the replacement refuses .asynq with a TypeError (frozen __setattr__ / immutable builtin type): with-block, start()
    _blk("TMethod", "RNcFrozen", "SWith", False), _blk("TStaticmethod", "RNcType", "StartStopAll", False),
    # ONE patcher object activated twice (per-activation default mock): a decorated function called twice,
    # start/stop/start, two with-blocks
    mk(["TMethod"], [(0, "RDefault", "BRet")],
       [{"OEnter": [0, "SDecor"]}, {"OProbe": [0, [1]]}, {"OExit": [0, "SDecor", "false"]}, {"OProbe": [0, [2]]},
        {"OEnter": [0, "SDecor"]}, {"OProbe": [0, [3]]}, {"OExit": [0, "SDecor", "false"]}, {"OProbe": [0, [4]]}], ["object"], corpus=True),
    mk(["TModFn"], [(0, "RNcObj", "BRet")],
       [{"OStart": [0]}, {"OProbe": [0, [1]]}, {"OStop": [0, "false"]}, {"OStart": [0]}, {"OProbe": [0, [2]]}, {"OStop": [0, "false"]},
        {"OEnter": [0, "SWith"]}, {"OProbe": [0, []]}, {"OExit": [0, "SWith", "true"]}, {"OProbe": [0, [3]]}], ["patch"], corpus=True),
    # ONE caller-supplied object given to two patches whose lifetimes overlap; the outer patch is used after the inner
    # one has ended: two module functions / with-blocks (callable object); nested on one method / start-stop (Mock
    # instance); a class on a method and a staticmethod / decorated function around a with-block, left by an exception
    mk(["TModFn", "TModFn"], [(0, "RCallableObj", "BRet", 0), (1, "RCallableObj", "BRet", 0)],
       [{"OEnter": [0, "SWith"]}, {"OProbe": [0, [1]]}, {"OEnter": [1, "SWith"]}, {"OProbe": [1, [5]]}, {"OProbe": [0, [1]]},
        {"OExit": [1, "SWith", "false"]}, {"OProbe": [0, [1]]}, {"OProbe": [1, [2]]}, {"OExit": [0, "SWith", "false"]}, {"OProbe": [0, [7]]}],
       ["patch", "patch"], corpus=True),
    mk(["TMethod"], [(0, "RMockObj", "BRet", 0), (0, "RMockObj", "BRet", 0)],
       [{"OStart": [0]}, {"OStart": [1]}, {"OProbe": [0, [3]]}, {"OStop": [1, "false"]}, {"OProbe": [0, [4, 5]]},
        {"OStop": [0, "false"]}, {"OProbe": [0, [6]]}], ["object", "object"], corpus=True),
    mk(["TMethod", "TStaticmethod"], [(1, "RClassObj", "BRaise", 0), (0, "RClassObj", "BRaise", 0)],
       [{"OEnter": [1, "SDecor"]}, {"OEnter": [0, "SWith"]}, {"OProbe": [1, [2]]}, {"OExit": [0, "SWith", "true"]}, {"OProbe": [0, [8]]},
        {"OProbe": [1, []]}, {"OExit": [1, "SDecor", "true"]}, {"OProbe": [0, [9]]}], ["object", "patch"], corpus=True),
    # nested + sequential on one target, exits by exception, one stopall for two starts
    mk(["TMethod"], [(0, "RFunc", "BRet"), (0, "RDefault", "BRaise"), (0, "RBound", "BRet")],
       [{"OEnter": [0, "SWith"]}, {"OProbe": [0, [1]]}, {"OEnter": [1, "SDecor"]}, {"OProbe": [0, [2, 3]]}, {"OExit": [1, "SDecor", "true"]},
        {"OProbe": [0, [4]]}, {"OExit": [0, "SWith", "true"]}, {"OProbe": [0, []]}, {"OStart": [2]}, {"OStart": [1]}, {"OProbe": [0, [5]]},
        {"OStopAll": ["true"]}, {"OProbe": [0, [6]]}], None, corpus=True),
    # three patch decorators stacked on one function (same target twice), left by an exception
    mk(["TModFn", "TClassmethod"], [(0, "RDefault", "BRet"), (1, "RClassmethod", "BRet"), (0, "RFunc", "BRaise")],
       [{"OEnter": [0, "SDecor"]}, {"OEnter": [1, "SDecorStack"]}, {"OEnter": [2, "SDecorStack"]}, {"OProbe": [0, [3]]}, {"OProbe": [1, [4, 5]]},
        {"OExit": [2, "SDecorStack", "true"]}, {"OExit": [1, "SDecorStack", "true"]}, {"OExit": [0, "SDecor", "true"]}, {"OProbe": [0, [6]]},
        {"OProbe": [1, []]}], ["patch", "object", "object"], corpus=True),
    mk(["TInstMethod", "TModFn"], [(0, "RCallableObj", "BRet"), (0, "RFunc", "BRet"), (1, "RSlotsObj", "BRet")],
       [{"OStart": [0]}, {"OEnter": [1, "SDecorCls"]}, {"OProbe": [0, [7]]}, {"OEnter": [2, "SWith"]}, {"OProbe": [1, [8]]},
        {"OExit": [2, "SWith", "false"]}, {"OExit": [1, "SDecorCls", "false"]}, {"OProbe": [0, [9]]}, {"OStop": [0, "true"]},
        {"OProbe": [0, [1]]}, {"OProbe": [1, [2]]}], ["object", "object", "patch"], corpus=True),
    # the replacement returns a FUTURE OBJECT as its result (default mock with such a return value; bound method; callable
    # object; function on a method; new_callable product), None, an exception instance: all conventions deliver that object
    _blk("TModFn", "RDefault", "SWith", False, beh="BRetFut"), _blk("TModFn", "RBound", "SWith", False, beh="BRetTask"),
    _blk("TMethod", "RCallableObj", "StartStop", False, beh="BRetBatch"), _blk("TMethod", "RFunc", "SDecor", False, beh="BRetFut"),
    _blk("TClassmethod", "RNcObj", "SWith", True, beh="BRetFut"), _blk("TModFn", "RAsynqFn", "SWith", False, beh="BRetFut"),
    _blk("TStaticmethod", "RMockObj", "SDecorCls", False, beh="BRetNone"), _blk("TModFn", "RClassObj", "StartStopAll", False, beh="BRetExc"),
]


def nontrivial(c):
    depth = 0
    inside = after = False
    for o in c["ops"]:
        n = next(iter(o))
        if n in ("OEnter", "OStart"):
            depth += 1
        elif n in ("OExit", "OStop"):
            depth = max(0, depth - 1)
        elif n == "OStopAll":
            depth = 0
        elif n == "OProbe":
            if depth > 0:
                inside = True
            elif inside:
                after = True
    return inside and after


def compare(c, m, io):
    if m != io["out"]:
        mo, im = m[""], io["out"][""]
        for k, (a, b_) in enumerate(zip(mo[0], im[0])):
            if a != b_:
                return "op %d (%s): Mock.run_case gives %s, the implementation %s" % (k, json.dumps(c["ops"][k]), json.dumps(a)[:300], json.dumps(b_)[:300])
        return "final slots / started-patch count differ: model %s, implementation %s" % (mo[1:], im[1:])
    return None


def distribution(cases):
    d = {"part": {}, "target_kind": {}, "replacement_kind": {}, "style": {}, "exit_by_exception": 0, "ops_len": {},
         "max_nesting": {}, "two_targets": 0, "behaviour_raise": 0, "max_activations_of_one_patcher": {},
         "reactivated_per_activation_replacement": 0, "refusing_replacement_activations": 0, "redecorate_each_time": 0,
         "shared_replacement": {"cases_with_one_object_given_to_several_patchers": 0, "cases_with_overlapping_sharing_patches": 0,
                                "cases_probing_the_survivor_after_the_other_ended": 0, "survivor_probes": 0,
                                "overlap_on_same_target": 0, "overlap_on_two_targets": 0, "installed_as_is": 0, "wrapped_per_patcher": 0,
                                "by_kind": {}, "by_survivor_style": {}}}
    for c in cases:
        _shared_stats(c, d["shared_replacement"])
        part = c.get("meta", {}).get("part", "corpus")
        d["part"][part] = d["part"].get(part, 0) + 1
        for tk in c["tks"]:
            d["target_kind"][tk] = d["target_kind"].get(tk, 0) + 1
        d["two_targets"] += len(c["tks"]) > 1
        for p in c["ps"]:
            d["replacement_kind"][p[1]] = d["replacement_kind"].get(p[1], 0) + 1
            d["behaviour_raise"] += p[2] == "BRaise"
            if p[2] in RESULT_KINDS:
                d.setdefault("result_kind", {})
                d["result_kind"][p[2]] = d["result_kind"].get(p[2], 0) + 1
        depth = mx = 0
        acts = {}
        d["redecorate_each_time"] += not c.get("reuse", True)
        for o in c["ops"]:
            n, a = next(iter(o.items()))
            if n in ("OEnter", "OStart"):
                acts[a[0]] = acts.get(a[0], 0) + 1
                if 0 <= a[0] < len(c["ps"]) and c["ps"][a[0]][1] in REFUSING:
                    d["refusing_replacement_activations"] += 1
            if n == "OEnter":
                d["style"][a[1]] = d["style"].get(a[1], 0) + 1
            elif n == "OStart":
                d["style"]["start"] = d["style"].get("start", 0) + 1
            elif n == "OStopAll":
                d["style"]["stopall"] = d["style"].get("stopall", 0) + 1
            if n in ("OEnter", "OStart"):
                depth += 1
                mx = max(mx, depth)
            elif n in ("OExit", "OStop"):
                depth = max(0, depth - 1)
            elif n == "OStopAll":
                depth = 0
            if n in ("OExit", "OStop", "OStopAll") and a[-1] == "true":
                d["exit_by_exception"] += 1
        L = len(c["ops"])
        bk = "1-5" if L <= 5 else "6-10" if L <= 10 else "11-20" if L <= 20 else "21+"
        d["ops_len"][bk] = d["ops_len"].get(bk, 0) + 1
        d["max_nesting"][str(mx)] = d["max_nesting"].get(str(mx), 0) + 1
        ma = str(max(acts.values()) if acts else 0)
        d["max_activations_of_one_patcher"][ma] = d["max_activations_of_one_patcher"].get(ma, 0) + 1
        d["reactivated_per_activation_replacement"] += any(
            k > 1 and c["ps"][p][1] in PER_ACTIVATION and c["ps"][p][1] not in REFUSING for p, k in acts.items() if 0 <= p < len(c["ps"]))
    return d


def _shared_stats(c, d):
    """how often ONE replacement object is given to several patchers, how often their lifetimes overlap, and how often the
    surviving patch is probed after the other one has ended (simulates the open patchers; any history)"""
    ps = norm_ps(c["ps"])
    if not any(sharers(ps, p) for p in range(len(ps))):
        return
    d["cases_with_one_object_given_to_several_patchers"] += 1
    open_ = []           # [p, style, set of sharers that ended meanwhile]
    overlap = survivor = False
    same = two = False
    kinds = set()
    for o in c["ops"]:
        n, a = next(iter(o.items()))
        if n in ("OEnter", "OStart"):
            p = a[0]
            if not (0 <= p < len(ps)) or any(e[0] == p for e in open_):
                continue
            for e in open_:
                if e[0] in sharers(ps, p):
                    overlap = True
                    kinds.add(ps[p][1])
                    if ps[e[0]][0] == ps[p][0]:
                        same = True
                    else:
                        two = True
            open_.append([p, a[1] if n == "OEnter" else "start", set()])
        elif n in ("OExit", "OStop", "OStopAll"):
            if n == "OStopAll":
                closing = [e for e in open_ if e[1] == "start"]
            else:
                closing = [e for e in open_ if e[0] == a[0]][-1:]
            for e in closing:
                open_.remove(e)
                for r in open_:
                    if r[0] in sharers(ps, e[0]):
                        r[2].add(e[0])
        elif n == "OProbe":
            for e in reversed(open_):
                if ps[e[0]][0] == a[0]:
                    if e[2]:
                        survivor = True
                        d["survivor_probes"] += 1
                        d["by_survivor_style"][e[1]] = d["by_survivor_style"].get(e[1], 0) + 1
                    break
    d["cases_with_overlapping_sharing_patches"] += overlap
    d["cases_probing_the_survivor_after_the_other_ended"] += survivor
    d["overlap_on_same_target"] += same
    d["overlap_on_two_targets"] += two
    for k in kinds:
        d["by_kind"][k] = d["by_kind"].get(k, 0) + 1
        d["installed_as_is" if k in AS_IS else "wrapped_per_patcher"] += 1


# ------------------------------------------------------------------------------------------ monitors
def _ok(r):
    return r == {"RO": ["RDone"]}


def monitors(c, io, build):
    """Direct encoding of the C19 statement over what the implementation did (no model)."""
    tks, ps, ops = c["tks"], norm_ps(c["ps"]), c["ops"]
    res = io["out"][""][0]
    obs = io["obs"]
    fs = []

    def add(clause, site, msg):
        fs.append(dict(clause=clause, site=site, msg=msg))

    # patch(...) / patch.object(...) itself must accept every replacement kind of the statement
    for p, note in enumerate(io.get("construct", [])):
        if note:
            add("construct", "construct:%s:%s" % (ps[p][1], note[0]),
                "asynq.mock.patch(..) for a %s replacement raised %s when the patcher was created (patcher %d)" % (ps[p][1], note[0], p))

    def orig_slot(t):
        return "None" if tks[t] == "TInstMethod" else {"Some": [{"OOrig": [t]}]}

    stack = []          # open patchers, innermost last: (p, started, which activation of p)
    failed = set()      # patchers whose activation failed and whose exit the runner still issues
    nact = {}           # patcher -> successful activations so far
    wellformed = True

    ended_during = {}   # open patcher -> patchers GIVEN THE SAME REPLACEMENT OBJECT that ended since it was activated

    def new_id(p, g):
        """the object activation g of patcher p installs: a per-activation replacement is a new object each time; an
        explicit object that patch() installs as is, is the one object all the patchers it was given to install"""
        rk = ps[p][1]
        return {"ONew": [p, g] if rk in PER_ACTIVATION else [ps[p][3], 0] if rk in AS_IS else [p, 0]}

    def body_id(p, g):
        """the object whose code is 'the replacement' of activation g of patcher p (a function / bound method given to
        several patchers is wrapped once per patcher, the replacement is still the one function)"""
        return {"ONew": [p, g] if ps[p][1] in PER_ACTIVATION else [ps[p][3], 0]}

    def sharing_ctx(p):
        """'' | ':sharing-patch-ended' | ':sharing-patch-active': p's replacement object was also given to another
        patch whose lifetime overlapped p's current activation and that has ended / is still active"""
        if ended_during.get(p):
            return ":sharing-patch-ended"
        if any(q in sharers(ps, p) for q, _, _ in stack):
            return ":sharing-patch-active"
        return ""

    def note_closed(q):
        for r, _, _ in stack:
            if r in sharers(ps, q):
                ended_during.setdefault(r, set()).add(q)

    def expected(t):
        for p, _, g in reversed(stack):
            if ps[p][0] == t:
                return {"Some": [new_id(p, g)]}
        return orig_slot(t)

    def check_slots(k, clause, what):
        if obs[k] is None:          # between stacked decorators: not observable
            return True
        for t in range(len(tks)):
            got = obs[k]["own"][t]
            want = expected(t)
            if got != want:
                kind = ("original-not-back" if want == orig_slot(t) else "outer-replacement-not-back") if clause == "restored" else "not-installed"
                found = "absent" if got == "None" else "foreign-object" if "Some" not in got else (
                    "earlier-activation" if "ONew" in got["Some"][0] and "Some" in want and "ONew" in want["Some"][0]
                    and got["Some"][0]["ONew"][0] == want["Some"][0]["ONew"][0] else next(iter(got["Some"][0])))
                add(clause, "%s:%s:%s:found-%s" % (what, tks[t], kind, found),
                    "after op %d %s the own slot of target %d (%s) holds %s, expected %s" % (k, json.dumps(ops[k]), t, tks[t], json.dumps(got), json.dumps(want)))
                return False
        return True

    for k, o in enumerate(ops):
        n, a = next(iter(o.items()))
        if not wellformed:
            break
        if n in ("OEnter", "OStart"):
            p = a[0]
            if any(q == p for q, _, _ in stack):
                wellformed = False
                break
            t, rk, beh = ps[p][:3]
            sty = a[1] if n == "OEnter" else "start"
            if _ok(res[k]):
                stack.append((p, n == "OStart", nact.get(p, 0)))
                ended_during[p] = set()
                nact[p] = nact.get(p, 0) + 1
                if not check_slots(k, "installed", "%s:%s" % (sty, rk)):
                    return fs
            else:
                if rk not in REFUSING:
                    add("reach-replacement", "activation-raised:%s:%s:%s" % (rk, tks[t], sty),
                        "activating patcher %d (%s on %s, %s) raised %s" % (p, rk, tks[t], sty, json.dumps(res[k])))
                if n == "OEnter":
                    failed.add(p)
                # a failed activation must leave everything as it was
                for tt in range(len(tks)):
                    if obs[k] is not None and obs[k]["own"][tt] != expected(tt):
                        add("restored", "failed-activation:%s:slot-left-patched" % rk,
                            "activating patcher %d (%s) raised but target %d (%s) was left holding %s instead of %s" % (
                                p, rk, tt, tks[tt], json.dumps(obs[k]["own"][tt]), json.dumps(expected(tt))))
                        return fs
        elif n in ("OExit", "OStop"):
            p = a[0]
            if n == "OExit" and p in failed and not any(q == p for q, _, _ in stack):
                failed.discard(p)
                continue
            if not stack or stack[-1][:2] != (p, n == "OStop"):
                wellformed = False
                break
            stack.pop()
            note_closed(p)
            what = "%s:%s" % ("stop" if n == "OStop" else a[1], "exception" if a[-1] == "true" else "normal")
            if not _ok(res[k]):
                add("restored", "%s:%s:raised" % (what, ps[p][1]), "ending patcher %d raised %s" % (p, json.dumps(res[k])))
                return fs
            if not check_slots(k, "restored", what):
                return fs
        elif n == "OStopAll":
            while stack and stack[-1][1]:
                note_closed(stack.pop()[0])
            if any(s for _, s, _ in stack):
                wellformed = False
                break
            what = "stopall:%s" % ("exception" if a[-1] == "true" else "normal")
            if not _ok(res[k]):
                add("restored", "%s:raised" % what, "stopall raised %s" % json.dumps(res[k]))
                return fs
            if not check_slots(k, "restored", what):
                return fs
        elif n == "OProbe":
            t, args = a
            cur, cs = res[k]["RProbe"]
            ob = obs[k]
            active = None
            for p, _, g in reversed(stack):
                if ps[p][0] == t:
                    active, agen = p, g
                    break
            if active is None:
                if tks[t] == "TAttr":
                    if cur != {"Some": [{"OOrig": [t]}]}:
                        add("restored", "probe:%s:original-not-in-place" % tks[t], "op %d: no patch active but the attribute is %s" % (k, json.dumps(cur)))
                    continue
                for cv in ob["convs"]:
                    cl = cv["calls"]
                    if len(cl) != 1 or cl[0][0] != {"OOrig": [t]} or len(cl[0][1]) < len(args) or cl[0][1][len(cl[0][1]) - len(args):] != args:
                        add("restored", "probe:%s:%s:original-not-reached" % (tks[t], cv["conv"]),
                            "op %d: no patch active on target %d but %s made calls %s" % (k, t, cv["conv"], json.dumps(cv["calls"])))
                        break
                continue
            rk, beh = ps[active][1], ps[active][2]
            cell = "%s:%s" % (tks[t], rk)
            # the clause holds for as long as THIS patch is active, whatever happened to other patches meanwhile:
            # the site says when a patch given the same replacement object overlapped / ended during this activation
            ctx = sharing_ctx(active)
            if rk in NONCALLABLE:
                as_is = ob.get("as_is")
                as_is = as_is if isinstance(as_is, list) else [as_is]
                if rk == "RNonCallable" and active not in as_is:
                    add("non-callable-as-is", "%s:not-the-given-object" % cell,
                        "op %d: the non-callable replacement of patcher %d is not what the attribute holds (%s)" % (k, active, json.dumps(cur)))
                if ob["convs"]:
                    add("non-callable-as-is", "%s:became-callable" % cell, "op %d: a non-callable replacement is callable once installed" % k)
                continue
            if len(ob["convs"]) != 4:
                add("reach-replacement", "%s:not-callable-when-installed%s" % (cell, ctx),
                    "op %d: the installed replacement of patcher %d (%s) is not callable" % (k, active, rk))
                continue
            for cv in ob["convs"]:
                calls = cv["calls"]
                site = None
                if len(calls) == 0:
                    site = "replacement-not-called"
                elif len(calls) > 1:
                    site = "called-%d-times" % len(calls)
                elif calls[0][0] != body_id(active, agen):
                    # the replacement of THIS activation: an earlier activation's object is not it
                    site = ("reached-earlier-activation" if "ONew" in calls[0][0] and calls[0][0]["ONew"][0] == active and rk in PER_ACTIVATION
                            else "reached-%s-instead" % next(iter(calls[0][0])))
                else:
                    recv = calls[0][1]
                    extra = recv[:len(recv) - len(args)] if len(recv) >= len(args) else None
                    if extra is None or recv[len(extra):] != args or extra not in ([], [-100], [-200]):
                        site = "wrong-arguments"
                    else:
                        wid = body_id(active, agen)["ONew"]
                        # the result: what the replacement raised, or the very object it returned (for the non-plain result
                        # kinds the runner compares by identity; a third entry says what was delivered instead)
                        want = ["raise", "VErr", wid] if beh == "BRaise" else ["ret", [beh if beh in RESULT_KINDS else "ret", "new", wid, [str(x) for x in recv]]]
                        if cv["outcome"] != want:
                            site = "wrong-result-%s" % cv["outcome"][0] + ("-" + str(cv["outcome"][1]) if cv["outcome"][0] == "raise" else "")
                            if cv["outcome"][0] == "ret" and len(cv["outcome"]) > 2:
                                site += "-" + str(cv["outcome"][2])
                if site:
                    add("reach-replacement", "%s:%s:%s%s" % (cell, cv["conv"], site, ctx),
                        "op %d: %s on target %d (%s) with args %s while patcher %d (%s) is active%s: calls=%s outcome=%s" % (
                            k, cv["conv"], t, tks[t], args, active, rk,
                            " (patcher(s) %s, given the same replacement object, ended during this activation)" % sorted(ended_during[active])
                            if ended_during.get(active) else "", json.dumps(calls), json.dumps(cv["outcome"])[:200]))
            first = ob["convs"][0]
            for cv in ob["convs"][1:]:
                if cv["outcome"] != first["outcome"] or [x[1] for x in cv["calls"]] != [x[1] for x in first["calls"]]:
                    add("conventions-agree", "%s:%s-vs-CSync%s" % (cell, cv["conv"], ctx),
                        "op %d: %s and the synchronous call disagree: %s / %s vs %s / %s" % (
                            k, cv["conv"], json.dumps(cv["outcome"])[:120], json.dumps(cv["calls"]), json.dumps(first["outcome"])[:120], json.dumps(first["calls"])))
                    break
    if wellformed and not stack:
        final, nactive = io["out"][""][1], io["out"][""][2]
        for t in range(len(tks)):
            if final[t] != orig_slot(t):
                add("restored", "final:%s:original-not-back" % tks[t],
                    "after the whole well-bracketed sequence target %d (%s) holds %s" % (t, tks[t], json.dumps(final[t])))
        if nactive != 0:
            add("restored", "final:started-patches-left", "%d patches are still registered as started" % nactive)
    return fs


def shrink(c):
    tks, ps, ops, api = c["tks"], norm_ps(c["ps"]), c["ops"], c.get("api")

    reuse = c.get("reuse", True)

    def again(o):
        return mk(tks, ps, o, api, reuse=reuse, shrunk=True)
    # drop one probe
    for i, o in enumerate(ops):
        if "OProbe" in o:
            yield again(ops[:i] + ops[i + 1:])
    # drop a matched bracket (keeping its body), or a bracket with its body
    for i, o in enumerate(ops):
        n, a = next(iter(o.items()))
        if n in ("OEnter", "OStart"):
            depth = 0
            for j in range(i + 1, len(ops)):
                n2, a2 = next(iter(ops[j].items()))
                if n == "OEnter" and n2 == "OEnter":
                    depth += 1
                elif n == "OEnter" and n2 == "OExit":
                    if depth == 0:
                        yield again(ops[:i] + ops[i + 1:j] + ops[j + 1:])
                        yield again(ops[:i] + ops[j + 1:])
                        break
                    depth -= 1
                elif n == "OStart" and n2 == "OStop" and a2[0] == a[0]:
                    yield again(ops[:i] + ops[i + 1:j] + ops[j + 1:])
                    break
    # shorter argument lists, exits without exception
    for i, o in enumerate(ops):
        n, a = next(iter(o.items()))
        if n == "OProbe" and a[1]:
            yield again(ops[:i] + [{"OProbe": [a[0], a[1][:-1]]}] + ops[i + 1:])
        if n in ("OExit", "OStop", "OStopAll") and a[-1] == "true":
            yield again(ops[:i] + [{n: a[:-1] + ["false"]}] + ops[i + 1:])
    for i, p in enumerate(ps):
        if p[2] == "BRaise" and p[3] == i:
            # (patchers given the same object have the same behaviour)
            yield mk(tks, [[q[0], q[1], "BRet" if q[3] == i else q[2], q[3]] for q in ps], ops, api, reuse=reuse, shrunk=True)
    # every patcher gets an object of its own
    for i, p in enumerate(ps):
        if p[3] != i:
            yield mk(tks, ps[:i] + [[p[0], p[1], p[2], i]] + ps[i + 1:], ops, api, reuse=reuse, shrunk=True)
    if not reuse:
        yield mk(tks, ps, ops, api, reuse=True, shrunk=True)
