"""C18 — diagnostics are faithful and total: glued tracebacks, asynq stack, repr/str/dump, filter_traceback."""
import itertools
import json
import re

from ..lib import coqrun

PROP = "C18"
COQ_IMPORTS = ["Diag"]
COQ_FN = "Diag.run_case"
IMPL = "c18_impl.py"
IMPL_JOBS = 8
RULE = ("six case families. filter: line lists assembled from segments (complete runs of each of the three boilerplate patterns, "
        "partial runs = proper prefixes / one element replaced / out of order, at every position incl. the end of input, foreign "
        "lines incl. ones containing the short needles 'reraise'/'value' and the marker texts) plus uniformly random words over the "
        "line alphabet (exhaustive up to length 4-5 in the thorough tier). chain: d = 1..50 (thorough: ..300) awaiting tasks, a "
        "handler mode per level (none / bare raise / raise e / store-yield-raise / raise new / swallow), await or synchronous call "
        "per level, yield shape per level, raise in the body / k helper calls deep / ErrorFuture / re-raise of an instance prepared by qcore.prepare_for_reraise elsewhere. stack: creator chains of depth "
        "1..50 (thorough: ..3000) where each level is created by its parent (yield or sync call), outside any task, by a "
        "finished helper task or by a helper task that then failed; independently per task (outermost, middle, calling task, failed helper) "
        "whether the source line of its frame can be retrieved (if not: function compiled under a pseudo file name / file missing / file empty); "
        "format_asynq_stack() called before the first yield, after a yield, or in a plain function called by the task "
        "(thorough: every source assignment for chains up to depth 5). repr: every (kind, lifecycle state) cell driven through the public API (exhaustive list) plus random "
        "object trees (dependency trees deeper than the dump cut-off, schedulers with queues) put into arbitrary attribute states; "
        "payload axis: every value a cell's driver supplies (returned value, argument of the raised error, item result, scoped value, Value) "
        "is one of 26 shapes hostile to string formatting (tuples of length 0/1/2/3, nested, strings with % / {} / quotes / line breaks, "
        "300-character strings, lists, dicts, None, computed futures, objects with a multi-line repr) or a generated nest of them, crossed "
        "with the cells that hold a value (quick: 18 representative cells, thorough: all 37); generated trees carry generated payloads. "
        "shared: the failed future several observers look at is not a task - an ErrorFuture, a batch item whose flush called set_error, "
        "a FutureBase given set_error from outside, a lazy Future whose provider raises - holding the error a failed task chain ended with (chains as in observe); observer sequences as in observe; three pinned cases hold an instance "
        "no task has prepared (never raised / prepared outside any task). "
        "distinct = different case tree; non-trivial = filter: >= 1 complete and >= 1 partial run; chain: depth >= 2; observe: >= 2 observers; stack: depth "
        ">= 2; repr: every cell / tree with >= 1 nested object")
TRUSTED = ["regular expressions that read status words back out of str()/repr()/dump() output (harness/impl/c18_impl.py parse_summary) "
           "and the small reader of Python literals that reads the shown payload back (c18_impl.py _PV)",
           "Pygments (syntax highlighting inside format_error) and the traceback module are exercised, not modelled",
           "CPython's rule for which frames a raise / re-raise / generator.throw adds to __traceback__ is modelled (Diag.v part B), not verified"]
ASSUMPTIONS = ["user payloads (arguments, values, exception messages) have well-behaved __repr__/__str__ (DESIGN 5.21): tuples, strings, "
               "lists, dicts, None, futures and objects with a multi-line repr are well-behaved and are generated",
               "no generated payload puts a printed line within 150 characters of debug.options.DEBUG_STR_REPR_MAX_LENGTH (the model "
               "decides the cut of debug.str from a lower bound of the payload's repr length)",
               "the interpreter recursion limit is the default 1000 (the deep creator chain finding depends on it)"]

PATTERNS = [
    (["asynq.async_task.AsyncTask._continue",
      "asynq.async_task.AsyncTask._continue_on_generator",
      "asynq.async_task.AsyncTask._continue_on_generator"], "___asynq_continue___"),
    (["asynq.decorators.AsyncDecorator.__call__",
      "asynq.futures.FutureBase.value",
      "asynq.futures.FutureBase.value",
      "asynq.futures.FutureBase.raise_if_error",
      "reraise", "six.reraise", "reraise", "value"], "___asynq_future_raise_if_error___"),
    (["asynq.decorators.AsyncDecorator.asynq",
      "asynq.decorators.AsyncProxyDecorator._call_pure",
      "asynq.decorators.AsyncProxyDecorator._call_pure",
      "asynq.decorators.AsyncProxyDecorator._call_pure",
      "asynq.decorators.async_call"], "___asynq_call_pure___"),
]

FOREIGN = [
    '  File "something.py", line 25 in hello_world\n',
    "    hello()\n",
    "Traceback (most recent call last):\n",
    "\n",
    "    raise value\n",
    '  File "/usr/lib/python3/site-packages/six.py", line 693, in reraise\n',
    "    six.reraise(type(error), error, error._traceback)\n",
    "  ___asynq_continue___\n",
    "ValueError: asynq.async_task.AsyncTask._continu\n",
    "    return self.value()\n",
    "\x1b[34mFile\x1b[39m \"x.py\", line 3, in f\n",
    "last line without newline",
]


def S(x):
    return {"s": x}


def _embed(rng, elem):
    r = rng.random()
    if r < 0.6:
        return '  File "asynq/x.py", line %d, in %s\n' % (rng.randrange(1, 400), elem)
    if r < 0.8:
        return elem + "\n"
    if r < 0.9:
        return elem
    return "\x1b[36m%s\x1b[39m tail\n" % elem


# --------------------------------------------------------------------------- generators: filter
def gen_filter(rng, malformed):
    lines = []
    kinds = {"complete": 0, "partial": 0, "foreign": 0}
    nseg = rng.choice([0, 1, 2, 3, 4, 6, 9])
    for s in range(nseg):
        r = rng.random()
        pat, _ = rng.choice(PATTERNS)
        if r < 0.35:
            lines += [_embed(rng, e) for e in pat]
            kinds["complete"] += 1
        elif r < 0.7:
            kinds["partial"] += 1
            q = rng.random()
            if q < 0.4:      # proper prefix
                lines += [_embed(rng, e) for e in pat[:rng.randrange(1, len(pat))]]
            elif q < 0.6:    # proper suffix
                lines += [_embed(rng, e) for e in pat[rng.randrange(1, len(pat)):]]
            elif q < 0.8:    # one element replaced by a foreign line
                k = rng.randrange(len(pat))
                lines += [_embed(rng, e) if j != k else rng.choice(FOREIGN) for j, e in enumerate(pat)]
            else:            # out of order
                p2 = list(pat)
                rng.shuffle(p2)
                lines += [_embed(rng, e) for e in p2]
        else:
            kinds["foreign"] += 1
            lines += [rng.choice(FOREIGN) for _ in range(rng.randrange(1, 4))]
    if malformed:
        # uniformly random word over the alphabet of pattern elements and foreign lines
        alpha = sorted({e for p, _ in PATTERNS for e in p}) + FOREIGN[:5]
        lines = [(_embed(rng, a) if not a.endswith("\n") else a) for a in (rng.choice(alpha) for _ in range(rng.randrange(0, 26)))]
    return {"tree": {"CFilter": [[S(l) for l in lines]]}, "meta": {"family": "filter", "malformed": malformed, "segments": kinds}}


def exhaustive_filter(maxlen, alpha):
    out = []
    for n in range(maxlen + 1):
        for w in itertools.product(alpha, repeat=n):
            out.append({"tree": {"CFilter": [[S(x + "\n") for x in w]]}, "meta": {"family": "filter", "exhaustive": True}})
    return out


# --------------------------------------------------------------------------- generators: chain
MODES = ["MPass", "MReraise", "MRaiseE", "MLater", "MNew", "MSwallow"]


def gen_chain(rng, tier, malformed):
    dmax = 50 if tier == "quick" else 300
    d = rng.choice([1, 1, 2, 2, 3, 3, 4, 5, 6, 8, 12, 20, rng.randrange(1, dmax + 1)])
    ms = []
    nsync = 0
    for i in range(d - 1):
        if malformed:
            m = rng.choice(MODES)
        else:
            m = rng.choice(["MPass"] * 5 + ["MReraise"] * 2 + ["MRaiseE", "MLater"])
        h = "HSync" if (rng.random() < 0.2 and nsync < 15) else "HAwait"
        nsync += h == "HSync"
        ms.append({"": [m, h]})
    r = rng.random()
    bottom = ({"BRaise": [{"n": rng.choice([0, 1, 1, 2, 3, 5])}]} if r < 0.75 else "BErrorFuture" if r < 0.92
              else {"BPrepared": [{"n": rng.choice([0, 1, 2])}]})
    shapes = [rng.choice(["single", "single", "list", "tuple", "dict"]) for _ in range(d)]
    return {"tree": {"CChain": [ms, bottom]},
            "meta": {"family": "chain", "malformed": malformed, "pre_yields": rng.choice([0, 1, 1, 2, 5]), "shapes": shapes}}


def mk_chain(modes, bottom, pre_yields=1, shapes=None):
    return {"tree": {"CChain": [[{"": [m, h]} for m, h in modes], bottom]},
            "meta": {"family": "chain", "pre_yields": pre_yields, "shapes": shapes or []}}


# --------------------------------------------------------------------------- generators: observers
def mk_observe(modes, bottom, drv, observers, **meta):
    """observers: list of observers, each a list of (how, catches) per reader level, outermost first
    ([] = the driver looks at the failed task itself)."""
    m = {"family": "observe", "pre_yields": 1, "shapes": []}
    m.update(meta)
    return {"tree": {"CObserve": [[{"": [a, h]} for a, h in modes], bottom, drv,
                                  [[{"": [h, "true" if c else "false"]} for h, c in o] for o in observers]]},
            "meta": m}


def observer_levels(o):
    return [(x[""][0], x[""][1] == "true") for x in o]


def catching_level(o):
    """The reader level that handles the error: the innermost one with a handler (None: the driver)."""
    cs = [j for j, (_, c) in enumerate(observer_levels(o)) if c]
    return cs[-1] if cs else None


def observer_kind(o):
    if not o:
        return "driver-itself"
    c = catching_level(o)
    if c is None:
        return "readers-propagate"
    return "innermost-reader-handles" if c == len(o) - 1 else "outer-reader-handles"


def gen_observer(rng, malformed):
    r = rng.choice([0, 0, 1, 1, 1, 2, 2, 3, rng.randrange(0, 6)])
    hows = ["HAwait" if rng.random() < 0.6 else "HSync" for _ in range(r)]
    if malformed:
        cs = [rng.random() < 0.5 for _ in range(r)]
    else:
        cs = [False] * r
        q = rng.random()
        if r and q < 0.35:
            cs[-1] = True                      # the innermost reader copes with the failure
        elif r and q < 0.5:
            cs[rng.randrange(r)] = True        # some reader above does
    return list(zip(hows, cs))


def gen_observe(rng, tier, malformed):
    quick = tier == "quick"
    d = rng.choice([1, 1, 2, 2, 3, 3, 4, 6, rng.randrange(1, 13 if quick else 41)])
    ms = []
    for i in range(d - 1):
        m = rng.choice(MODES) if malformed else rng.choice(["MPass"] * 6 + ["MReraise"] * 2 + ["MRaiseE", "MLater"])
        ms.append((m, "HSync" if rng.random() < 0.2 else "HAwait"))
    r = rng.random()
    bottom = ({"BRaise": [{"n": rng.choice([0, 1, 1, 2])}]} if r < 0.75 else "BErrorFuture" if r < 0.9
              else {"BPrepared": [{"n": rng.choice([0, 1])}]})
    n = rng.choice([1, 2, 2, 2, 3, 3, 4, 6] if quick else [1, 2, 2, 3, 3, 4, 6, 10])
    obs = [gen_observer(rng, malformed) for _ in range(n)]
    return mk_observe(ms, bottom, "HAwait" if rng.random() < 0.35 else "HSync", obs, malformed=malformed,
                      pre_yields=rng.choice([0, 1, 1, 2]), precompute=rng.random() < 0.2,
                      sync_via=[rng.choice(["value", "call"]) for _ in range(rng.choice([1, 2]))],
                      fresh_caller=rng.random() < 0.7,
                      shapes=[rng.choice(["single", "single", "list", "dict"]) for _ in range(d)])


OBSERVER_SHAPES = [[], [("HAwait", False)], [("HSync", False)], [("HAwait", True)], [("HSync", True)],
                   [("HAwait", False), ("HSync", False)], [("HAwait", True), ("HAwait", False)],
                   [("HSync", False), ("HAwait", True)]]


def exhaustive_observe():
    """Every ordered pair of observer shapes (and every triple of the five one-level-or-less shapes), run from a
    plain caller and from a task."""
    out = []
    for drv in ("HSync", "HAwait"):
        for a in OBSERVER_SHAPES:
            for b in OBSERVER_SHAPES:
                out.append(mk_observe([("MPass", "HAwait")], {"BRaise": [{"n": 1}]}, drv, [a, b], exhaustive=True))
        for t in itertools.product(OBSERVER_SHAPES[:5], repeat=3):
            out.append(mk_observe([], {"BRaise": [{"n": 0}]}, drv, list(t), exhaustive=True, fresh_caller=False))
    return out


# --------------------------------------------------------------------------- generators: shared non-task future
FKINDS = ["KErrorFuture", "KItem", "KSetError", "KLazy"]
FKIND_NAMES = {"KErrorFuture": "ErrorFuture", "KItem": "batch-item-set_error", "KSetError": "FutureBase-set_error",
               "KLazy": "lazy-Future-provider-raises"}


def EOfTask(modes, bottom):
    return {"EOfTask": [[{"": [a, h]} for a, h in modes], bottom]}


def mk_shared(fk, src, drv, observers, **meta):
    """The failed future every observer looks at is not a task: kind fk, holding the exception src
    (EOfTask: what a failed task chain ended with; EPrepared / EFresh: an instance no task has prepared --
    pinned corpus cases only, they are listed known findings)."""
    m = {"family": "shared", "pre_yields": 1, "shapes": []}
    m.update(meta)
    return {"tree": {"CShared": [fk, src, drv, [[{"": [h, "true" if c else "false"]} for h, c in o] for o in observers]]},
            "meta": m}


def src_kind(src):
    return src if isinstance(src, str) else next(iter(src))


def gen_shared(rng, tier, malformed):
    quick = tier == "quick"
    fk = rng.choice(FKINDS)
    r = rng.random()
    if r < 0.7:
        d = rng.choice([1, 1, 2, 2, 3, 4, rng.randrange(1, 9 if quick else 25)])
        ms = [(rng.choice(MODES[:5]) if malformed else rng.choice(["MPass"] * 6 + ["MReraise"] * 2 + ["MRaiseE", "MLater"]),
               "HSync" if rng.random() < 0.2 else "HAwait") for _ in range(d - 1)]
        q = rng.random()
        bottom = ({"BRaise": [{"n": rng.choice([0, 1, 1, 2])}]} if q < 0.75 else "BErrorFuture" if q < 0.9
                  else {"BPrepared": [{"n": rng.choice([0, 1])}]})
        src = EOfTask(ms, bottom)
    else:
        # the error of a task that failed at once, or deep below
        d = rng.choice([1, rng.randrange(2, 13 if quick else 41)])
        src = EOfTask([("MPass", "HAwait")] * (d - 1), {"BRaise": [{"n": rng.choice([0, 1])}]})
    n = rng.choice([1, 2, 2, 2, 3, 3, 4, 6])
    obs = [gen_observer(rng, malformed) for _ in range(n)]
    return mk_shared(fk, src, "HAwait" if rng.random() < 0.35 else "HSync", obs, malformed=malformed,
                     pre_yields=rng.choice([0, 1, 1, 2]), precompute=rng.random() < 0.2,
                     sync_via=[rng.choice(["value", "call"]) for _ in range(rng.choice([1, 2]))],
                     fresh_caller=rng.random() < 0.7)


def exhaustive_shared():
    """Every kind x every error source x every ordered pair of observer shapes, from a plain caller and from a task."""
    out = []
    srcs = [EOfTask([("MPass", "HAwait")], {"BRaise": [{"n": 1}]}), EOfTask([], "BErrorFuture"), EOfTask([("MRaiseE", "HSync")], {"BPrepared": [{"n": 0}]})]
    for fk in FKINDS:
        for src in srcs:
            for drv in ("HSync", "HAwait"):
                for a in OBSERVER_SHAPES[:6]:
                    for b in OBSERVER_SHAPES[:6]:
                        out.append(mk_shared(fk, src, drv, [a, b], exhaustive=True))
    return out


# --------------------------------------------------------------------------- generators: stack
NOSRC_HOW = ["exec", "missing-file", "empty-file"]
CALL_SITES = ["after-yield", "before-yield", "in-plain-fn"]


def mk_stack(cs, s0="SrcFile", srcs=None, nosrc_how=None, call_site="after-yield", **meta):
    """cs: creation kind per level below the outermost; srcs: source kind per such level (default: all
    file-backed); s0: source kind of the outermost task."""
    srcs = srcs or ["SrcFile"] * len(cs)
    m = {"family": "stack", "call_site": call_site}
    if nosrc_how:
        m["nosrc_how"] = nosrc_how
    m.update(meta)
    return {"tree": {"CStack": [s0, [{"": [c, x]} for c, x in zip(cs, srcs)]]}, "meta": m}


def stack_levels(c):
    """(s0, [created...], [src...]) of a CStack case."""
    s0, cs = c["tree"]["CStack"]
    return s0, [x[""][0] for x in cs], [x[""][1] for x in cs]


def gen_src(rng, p):
    return "SrcNone" if rng.random() < p else "SrcFile"


def gen_stack(rng, tier, deep=None):
    # how often a level has no retrievable source line: mostly never or rarely, sometimes often/always
    p = rng.choice([0.0, 0.0, 0.15, 0.15, 0.3, 0.5, 1.0])
    how = [rng.choice(NOSRC_HOW) for _ in range(rng.choice([1, 1, 3]))]
    site = rng.choice(CALL_SITES)
    if deep is not None:
        cs = ["ByParent"] * deep
        for _ in range(rng.randrange(0, 3)):
            cs[rng.randrange(deep)] = rng.choice(["ByHelper", {"ByFailedHelper": [gen_src(rng, 0.5)]}])
        srcs = ["SrcFile"] * deep
        for _ in range(rng.randrange(0, 4)):
            srcs[rng.randrange(deep)] = "SrcNone"
        return mk_stack(cs, gen_src(rng, 0.2), srcs, how, site, deep=True)
    dmax = 50
    d = rng.choice([1, 2, 2, 3, 3, 4, 5, 8, 13, rng.randrange(1, dmax + 1)])
    cs = []
    nsync = 0
    for _ in range(d):
        r = rng.random()
        if r < 0.55:
            cs.append("ByParent")
        elif r < 0.7 and nsync < 12:
            cs.append("BySync")
            nsync += 1
        elif r < 0.8:
            cs.append("ByHelper")
        elif r < 0.9:
            cs.append({"ByFailedHelper": [gen_src(rng, max(p, 0.3))]})
        else:
            cs.append("Pre")
    return mk_stack(cs, gen_src(rng, p), [gen_src(rng, p) for _ in range(d)], how, site)


def exhaustive_stack(maxd):
    """Every assignment of source kinds to chains of up to maxd parent-created levels, and every creation
    kind at one position with a source-less task directly above / at / below it."""
    out = []
    for d in range(1, maxd + 1):
        for ss in itertools.product(["SrcFile", "SrcNone"], repeat=d + 1):
            out.append(mk_stack(["ByParent"] * d, ss[0], list(ss[1:]), ["exec"], exhaustive=True))
    kinds = ["ByParent", "BySync", "Pre", "ByHelper", {"ByFailedHelper": ["SrcFile"]}, {"ByFailedHelper": ["SrcNone"]}]
    for k1 in kinds:
        for k2 in kinds:
            for pos in range(3):
                srcs = ["SrcFile"] * 3
                srcs[pos] = "SrcNone"
                out.append(mk_stack(["ByParent", k1, k2], "SrcFile", srcs, ["missing-file"], exhaustive=True))
    return out


# --------------------------------------------------------------------------- generators: repr
# ---- user payloads (Diag.pval): what a computed future holds / its error was built with
def PInt(n):
    return {"PInt": [n]}


def PStr(x):
    return {"PStr": [S(x)]}


def PTuple(*xs):
    return {"PTuple": [list(xs)]}


def PList(*xs):
    return {"PList": [list(xs)]}


def PDict(*kvs):
    return {"PDict": [[{"": [k, v]} for k, v in kvs]]}


PNone, PMulti = "PNone", "PMulti"
PFutOk, PFutErr = {"PFut": ["true"]}, {"PFut": ["false"]}
P3 = PInt(3)                      # the plain payload of the lifecycle cells
LONG = "x" * 300
CUT = 240                         # debug.options.DEBUG_STR_REPR_MAX_LENGTH
MULTI_TEXT = "Multi(\n  rows=2\n)"
FUT_TEXTS = {"true": "<class 'asynq.futures.ConstFuture'> (computed, = 1)",
             "false": "<class 'asynq.futures.ErrorFuture'> (computed, error = Boom('n'))"}

STRINGS = ["", "a", "100%", "%s", "%(x)s and %r", "%d items", "{}", "{0} and {name}", "it's", 'say "hi"', "both ' and \"",
           "line1\nline2", "tab\there", "back\\slash", "(1, 2)", "None", " = self)", LONG]

# one payload of every shape the printing code could trip over (value kind axis of the repr cells)
PAYLOADS = {
    "tuple-0": PTuple(), "tuple-1": PTuple(PInt(7)), "tuple-2": PTuple(PInt(1), PStr("x")), "tuple-3": PTuple(PInt(1), PInt(2), PInt(3)),
    "tuple-1-of-tuple": PTuple(PTuple(PInt(1), PInt(2))), "tuple-of-percent": PTuple(PStr("%s"), PStr("%d")),
    "none": PNone, "str-percent": PStr("100% of %s"), "str-percent-paren": PStr("%(x)s"), "str-braces": PStr("{} and {0!r}"),
    "str-empty": PStr(""), "str-quotes": PStr("it's \"q\""), "str-newline": PStr("line1\nline2"), "str-long": PStr(LONG),
    "list": PList(PInt(1), PInt(2)), "list-empty": PList(), "dict": PDict((PStr("a"), PInt(1)), (PInt(2), PTuple(PInt(3)))),
    "dict-empty": PDict(), "dict-one-percent-key": PDict((PStr("%s"), PNone)), "negative-int": PInt(-5),
    "future": PFutOk, "error-future": PFutErr, "multiline-repr": PMulti, "tuple-long": PTuple(PStr(LONG), PInt(1)),
    "list-of-tuples": PList(PTuple(), PTuple(PInt(1))), "tuple-with-multiline": PTuple(PMulti, PInt(2)),
}


def pctor(p):
    return (p, []) if isinstance(p, str) else next(iter(p.items()))


def py_of(p):
    """A Python value with the same repr/str as the runner's payload for p (used to measure texts)."""
    k, a = pctor(p)
    if k == "PInt":
        return a[0]
    if k == "PNone":
        return None
    if k == "PStr":
        return a[0]["s"]
    if k == "PMulti":
        return _Txt(MULTI_TEXT)
    if k == "PFut":
        return _Txt(FUT_TEXTS[a[0]])
    if k == "PTuple":
        return tuple(py_of(x) for x in a[0])
    if k == "PList":
        return [py_of(x) for x in a[0]]
    if k == "PDict":
        return {py_of(kv[""][0]): py_of(kv[""][1]) for kv in a[0]}
    raise ValueError(k)


class _Txt(object):
    def __init__(self, t):
        self.t = t

    def __repr__(self):
        return self.t

    def __eq__(self, o):
        return isinstance(o, _Txt) and o.t == self.t

    def __hash__(self):
        return hash(self.t)


def plen(p):
    """Diag.plen: the model's lower bound of len(repr(p))."""
    k, a = pctor(p)
    if k == "PStr":
        return len(a[0]["s"])
    if k in ("PTuple", "PList"):
        return sum(plen(x) for x in a[0])
    if k == "PDict":
        return sum(plen(kv[""][0]) + plen(kv[""][1]) for kv in a[0])
    return 1


def has_multi(p):
    k, a = pctor(p)
    if k == "PMulti":
        return True
    if k in ("PTuple", "PList"):
        return any(has_multi(x) for x in a[0])
    if k == "PDict":
        return any(has_multi(x) for kv in a[0] for x in kv[""])
    return False


def payload_ok(p, small=90):
    """Outside the grey zone of the debug.str cut: either every line that shows p stays below the limit
    (len(repr(p)) <= small) or the model's lower bound already exceeds it; a long payload has no
    multi-line part (the cut could fall inside it); dict keys are distinct."""
    try:
        r = len(repr(py_of(p)))
    except TypeError:
        return False
    if not _distinct_keys(p):
        return False
    if plen(p) > CUT:
        return not has_multi(p)
    return r <= small


def _distinct_keys(p):
    k, a = pctor(p)
    if k in ("PTuple", "PList"):
        return all(_distinct_keys(x) for x in a[0])
    if k == "PDict":
        keys = [py_of(kv[""][0]) for kv in a[0]]
        return len(set(keys)) == len(keys) and all(_distinct_keys(x) for kv in a[0] for x in kv[""])
    return True


def payload_kind(p):
    """Data-derived name of the shape of a payload (site suffix of the repr monitors)."""
    k, a = pctor(p)
    if k == "PInt":
        return "int"
    if k == "PNone":
        return "none"
    if k == "PStr":
        x = a[0]["s"]
        return ("str-long" if len(x) > CUT else "str-percent" if "%" in x else "str-braces" if "{" in x
                else "str-newline" if "\n" in x else "str")
    if k == "PTuple":
        return "tuple-%s" % (len(a[0]) if len(a[0]) < 2 else "n")
    return {"PList": "list", "PDict": "dict", "PFut": "future", "PMulti": "multiline-repr"}.get(k, k)


def gen_key(rng):
    r = rng.random()
    if r < 0.4:
        return PInt(rng.randrange(-3, 50))
    if r < 0.8:
        return PStr(rng.choice(STRINGS[:-1]))
    return PTuple(*[PInt(rng.randrange(5)) for _ in range(rng.choice([0, 1, 2]))])


def gen_payload(rng, depth=2, small=90):
    """Mostly tuples (every length), strings hostile to %-/{}-formatting, containers, None, nested futures."""
    for _ in range(50):
        p = _gen_payload(rng, depth)
        if payload_ok(p, small):
            return p
    return P3


def _gen_payload(rng, depth):
    r = rng.random()
    if depth <= 0 or r < 0.4:
        q = rng.random()
        if q < 0.25:
            return PInt(rng.choice([0, 1, 3, 7, -5, 2 ** 40]))
        if q < 0.35:
            return PNone
        if q < 0.8:
            return PStr(rng.choice(STRINGS))
        if q < 0.88:
            return PMulti
        return rng.choice([PFutOk, PFutErr])
    n = rng.choice([0, 1, 1, 2, 2, 3, 5])
    if r < 0.75:
        return PTuple(*[_gen_payload(rng, depth - 1) for _ in range(n)])
    if r < 0.87:
        return PList(*[_gen_payload(rng, depth - 1) for _ in range(n)])
    return PDict(*[(gen_key(rng), _gen_payload(rng, depth - 1)) for _ in range(min(n, 3))])


def OkV(p=P3):
    return {"OkV": [p]}


def ErrV(p=P3):
    return {"ErrV": [p]}


def OFut(c, o):
    return {"OFut": [c, o]}


def OTask(o, it, g, deps):
    return {"OTask": [o, it, "true" if g else "false", deps]}


def OBatch(c, o, items):
    return {"OBatch": [c, o, items]}


def OSched(ts, bs, act):
    return {"OSched": [ts, bs, "None" if act is None else {"Some": [act]}]}


def OScoped(c, p):
    return {"OScoped": [c, p]}


def OValue(p):
    return {"OValue": [p]}


ITEM, DITEM = "CBatchItem", "CDebugBatchItem"
T1 = OTask("Unc", 1, True, [])
NOARGS = PTuple()                 # an exception asynq builds itself, without arguments
NOT_SET = PStr("Value of this item wasn't set on batch flush.")     # batching.py: the AssertionError of an item left without a value


def cells(p=P3):
    """Every (object kind, lifecycle state) cell, with p as the payload of every value the cell's driver
    supplies (the returned value, the argument of the raised error, the scoped value ...)."""
    ok, err = OkV(p), ErrV(p)
    done = OkV(PNone)             # a flushed batch holds None
    return {
        "FutureBase/fresh": OFut("CFutureBase", "Unc"), "FutureBase/ok": OFut("CFutureBase", ok),
        "FutureBase/err": OFut("CFutureBase", err), "FutureBase/self": OFut("CFutureBase", "OkSelf"),
        "FutureBase/reset": OFut("CFutureBase", "Unc"), "FutureBase/reset-then-err": OFut("CFutureBase", err),
        "Future/fresh": OFut("CFuture", "Unc"), "Future/ok": OFut("CFuture", ok), "Future/err": OFut("CFuture", err),
        "Future/reset": OFut("CFuture", "Unc"), "Future/reset-then-err": OFut("CFuture", err),
        "ConstFuture/fresh": OFut("CConstFuture", ok), "ConstFuture/ok": OFut("CConstFuture", ok),
        "ConstFuture/reset": OFut("CConstFuture", "Unc"), "ConstFuture/reset-then-err": OFut("CConstFuture", err),
        "ErrorFuture/fresh": OFut("CErrorFuture", err), "ErrorFuture/err": OFut("CErrorFuture", err),
        "ErrorFuture/reset": OFut("CErrorFuture", "Unc"), "ErrorFuture/reset-then-err": OFut("CErrorFuture", err),
        "Task/fresh": OTask("Unc", 0, True, []), "Task/ok": OTask(ok, 2, False, []), "Task/err": OTask(err, 2, False, []),
        "Task/reset": OTask("Unc", 2, False, []), "Task/running-first-step": T1,
        "Task/running-after-yields": OTask("Unc", 3, True, []),
        "Task/blocked-on-item": OTask("Unc", 1, True, [OFut(ITEM, "Unc")]),
        "Task/blocked-on-task": OTask("Unc", 1, True, [OFut("CConstFuture", ok), T1]),
        "Task/blocked-on-two": OTask("Unc", 2, True, [OFut(ITEM, "Unc"), OTask(ok, 2, False, []), OFut(ITEM, "Unc")]),
        "Task/in-on-computed": OTask(ok, 2, False, []), "Task/failed-in-on-computed": OTask(err, 2, False, []),
        "Task/cancelled-generator-exit": OTask(ErrV(NOARGS), 2, False, []), "Task/returns-itself": OTask("OkSelf", 2, False, []),
        "Batch/empty": OBatch("CBatch", "Unc", []), "Batch/pending": OBatch("CBatch", "Unc", [OFut(ITEM, "Unc"), OFut(ITEM, "Unc")]),
        "Batch/flushing": OBatch("CBatch", "Unc", [OFut(ITEM, "Unc")]), "Batch/flushed": OBatch("CBatch", done, []),
        "Batch/cancelled": OBatch("CBatch", ErrV(NOARGS), [OFut(ITEM, ErrV(NOARGS))]), "Batch/flush-failed": OBatch("CBatch", err, []),
        "Batch/not-set": OBatch("CBatch", done, []), "Batch/reset": OBatch("CBatch", "Unc", []),
        "Batch/flushed-by-scheduler": OBatch("CBatch", done, []),
        "Item/pending": OFut(ITEM, "Unc"), "Item/flushing": OFut(ITEM, "Unc"), "Item/flushed": OFut(ITEM, ok),
        "Item/cancelled": OFut(ITEM, ErrV(NOARGS)), "Item/flush-failed": OFut(ITEM, err), "Item/not-set": OFut(ITEM, ErrV(NOT_SET)),
        "Item/reset": OFut(ITEM, "Unc"), "Item/flushed-by-scheduler": OFut(ITEM, ok),
        "DebugBatch/empty": OBatch("CDebugBatch", "Unc", []), "DebugBatch/pending": OBatch("CDebugBatch", "Unc", [OFut(DITEM, "Unc")]),
        "DebugBatch/flushing": OBatch("CDebugBatch", "Unc", [OFut(DITEM, ok), OFut(DITEM, "Unc")]),
        "DebugBatch/flushed": OBatch("CDebugBatch", done, []), "DebugBatch/cancelled": OBatch("CDebugBatch", ErrV(NOARGS), [OFut(DITEM, ErrV(NOARGS))]),
        "DebugBatch/reset": OBatch("CDebugBatch", "Unc", []), "DebugBatch/flushed-by-scheduler": OBatch("CDebugBatch", done, []),
        "DebugItem/pending": OFut(DITEM, "Unc"), "DebugItem/flushing": OFut(DITEM, "Unc"), "DebugItem/flushed": OFut(DITEM, ok),
        "DebugItem/cancelled": OFut(DITEM, ErrV(NOARGS)), "DebugItem/reset": OFut(DITEM, "Unc"),
        "DebugItem/flushed-by-scheduler": OFut(DITEM, ok),
        "Sched/idle": OSched([], [], None), "Sched/new": OSched([], [], None), "Sched/running": OSched([T1], [], T1),
        "Sched/flushing": OSched([], [], None),
        "Sched/nested-sync-call": OSched([OTask("Unc", 2, True, []), T1], [], T1), "Sched/after-error": OSched([], [], None),
        "Sched/with-pending-batch": OSched([OTask("Unc", 1, True, [T1, OFut(ITEM, "Unc")]), T1],
                                           [OBatch("CBatch", "Unc", [OFut(ITEM, "Unc")])], T1),
        "Scoped/default": OScoped("CScopedValue", p), "Scoped/set": OScoped("CScopedValue", p),
        "Scoped/overridden": OScoped("CScopedValue", p), "Scoped/overridden-in-task": OScoped("CScopedValue", p),
        "Override/fresh": OScoped("CSVOverride", p), "Override/active": OScoped("CSVOverride", p),
        "Override/exited": OScoped("CSVOverride", p), "Override/paused-in-task": OScoped("CSVOverride", p),
        "PropOverride/fresh": OScoped("CPropOverride", p), "PropOverride/active": OScoped("CPropOverride", p),
        "PropOverride/exited": OScoped("CPropOverride", p),
        "AGen/fresh": {"OAGen": ["false"]}, "AGen/mid": {"OAGen": ["false"]}, "AGen/stopped": {"OAGen": ["true"]},
        "Value/any": OValue(p),
    }


CELLS = cells()
# the cells whose printed forms show the payload the driver supplied
PAYLOAD_CELLS = sorted(n for n, t in cells(PStr("probe")).items() if t != CELLS[n])
# one cell per (object kind, value/error role, way of getting there): the quick tier crosses these with PAYLOADS
QUICK_PAYLOAD_CELLS = ["FutureBase/ok", "FutureBase/err", "Future/ok", "ConstFuture/fresh", "ErrorFuture/fresh",
                       "Task/ok", "Task/err", "Task/in-on-computed", "Task/blocked-on-task", "Item/flushed",
                       "DebugItem/flushed-by-scheduler", "DebugBatch/flushing", "Batch/flush-failed", "Value/any", "Scoped/set",
                       "Scoped/overridden-in-task", "Override/active", "PropOverride/active"]

FUT_CLS = ["CFutureBase", "CFuture", "CConstFuture", "CErrorFuture", ITEM, DITEM]
OUTS = ["Unc", "OkV", "ErrV"]


def gen_out(rng, kinds, small=90):
    """A future outcome; computed ones carry a payload: plain in a third of the cases, else generated."""
    k = rng.choice(kinds)
    if k in ("OkV", "ErrV"):
        return {k: [P3 if rng.random() < 0.35 else gen_payload(rng, small=small)]}
    return k


def gen_obj(rng, depth, malformed, small=90):
    """Random future-like object tree for the dependency list of a task."""
    r = rng.random()
    if depth <= 0 or r < 0.45:
        c = rng.choice(FUT_CLS)
        return OFut(c, gen_out(rng, OUTS + (["OkSelf"] if c == "CFutureBase" else []), small))
    if r < 0.85:
        return gen_task(rng, depth - 1, malformed, small)
    return gen_batch(rng)


def gen_task(rng, depth, malformed, small=90):
    o = gen_out(rng, ["Unc", "Unc", "Unc", "OkV", "ErrV", "OkSelf"], small)
    nd = rng.choice([0, 1, 1, 2, 3])
    if o != "Unc" and not malformed:
        nd = 0   # _computed drops the dependencies
    deps = [gen_obj(rng, depth, malformed, small) for _ in range(nd)]
    g = (rng.random() < 0.8) if (o == "Unc" or malformed) else False
    it = rng.choice([0, 1, 1, 2, 3, 7, 120]) if not malformed else rng.choice([-3, 0, 1, 2, 2 ** 40])
    return OTask(o, it, g, deps)


def gen_batch(rng):
    c = rng.choice(["CBatch", "CDebugBatch"])
    ic = ITEM if c == "CBatch" else DITEM
    return OBatch(c, gen_out(rng, OUTS), [OFut(ic, gen_out(rng, OUTS)) for _ in range(rng.choice([0, 1, 2, 5]))])


def gen_repr(rng, malformed):
    r = rng.random()
    if r < 0.2:      # a deep single chain of blocked tasks: crosses the MAX_DUMP_INDENT cut
        n = rng.choice([5, 19, 20, 21, 22, 30])
        t = OFut(ITEM, "Unc")
        for i in range(n):
            t = OTask("Unc", rng.randrange(1, 4), True, [t] + ([OFut("CConstFuture", gen_out(rng, ["OkV"]))] if rng.random() < 0.3 else []))
    elif r < 0.55:
        t = gen_task(rng, rng.choice([1, 2, 3, 4]), malformed)
    elif r < 0.7:
        t = gen_batch(rng)
    elif r < 0.9:
        ts = [gen_task(rng, rng.choice([0, 1, 2]), malformed) for _ in range(rng.choice([0, 1, 2, 4]))]
        bs = [gen_batch(rng)] if rng.random() < 0.5 else []
        # the scheduler's own line quotes the active task's: a tighter bound keeps it out of the grey zone
        act = rng.choice([None, gen_task(rng, 1, malformed, small=45)])
        t = OSched(ts, bs, act)
    else:
        t = rng.choice([OFut(rng.choice(FUT_CLS), gen_out(rng, OUTS)), {"OAGen": [rng.choice(["true", "false"])]},
                        OScoped(rng.choice(["CScopedValue", "CSVOverride", "CPropOverride"]), gen_payload(rng)),
                        OValue(gen_payload(rng))])
    return {"tree": {"CRepr": [t]}, "meta": {"family": "repr", "cell": None, "malformed": malformed}}


def cell_case(name, p=None, **meta):
    m = {"family": "repr", "cell": name}
    if p is not None:
        m["payload"] = p
    m.update(meta)
    return {"tree": {"CRepr": [cells(p if p is not None else P3)[name]]}, "meta": m}


def cell_cases():
    return [cell_case(name) for name in sorted(CELLS)]


def payload_cell_cases(names, payloads):
    return [cell_case(n, p, payload_name=pn) for pn, p in sorted(payloads.items()) for n in names]


def gen_payload_cell(rng):
    return cell_case(rng.choice(PAYLOAD_CELLS), gen_payload(rng, rng.choice([1, 2, 2, 3]), small=45), payload_name="generated")


# --------------------------------------------------------------------------- all cases
def gen_cases(rng, tier):
    cs = []
    quick = tier == "quick"
    cs += [gen_filter(rng, rng.random() < 0.3) for _ in range(260 if quick else 4000)]
    cs += [gen_chain(rng, tier, rng.random() < 0.3) for _ in range(110 if quick else 900)]
    cs += [gen_stack(rng, tier) for _ in range(70 if quick else 500)]
    cs += [gen_repr(rng, rng.random() < 0.25) for _ in range(110 if quick else 1500)]
    if not quick:
        cs += payload_cell_cases(PAYLOAD_CELLS, PAYLOADS)
        a = PATTERNS[0][0][:2] + ["x"]
        cs += exhaustive_filter(5, ["  in " + x for x in a])
        b = PATTERNS[2][0][:1] + PATTERNS[2][0][1:2] + PATTERNS[2][0][4:] + ["    raise value"]
        cs += exhaustive_filter(6, ["  in " + x for x in b])
        cs += [gen_stack(rng, tier, deep=n) for n in (100, 500, 900, 1100, 2000, 3000)]
        cs += exhaustive_stack(5)
        cs += exhaustive_observe()
        for modes in itertools.product(MODES, repeat=3):
            cs.append(mk_chain([(m, "HAwait") for m in modes], {"BRaise": [{"n": 1}]}))
        for modes in itertools.product(MODES[:5], repeat=2):
            cs.append(mk_chain([(m, "HSync") for m in modes], "BErrorFuture"))
    # generated last so that the PRNG stream of the older families is unchanged
    cs += [gen_observe(rng, tier, rng.random() < 0.25) for _ in range(90 if quick else 800)]
    # the payload axis of the repr cells (value kind x object kind x state)
    if quick:
        cs += payload_cell_cases(QUICK_PAYLOAD_CELLS, PAYLOADS)
    cs += [gen_payload_cell(rng) for _ in range(60 if quick else 1200)]
    # the kind of the failed future several observers share (drawn last: the older families keep their PRNG stream)
    cs += [gen_shared(rng, tier, rng.random() < 0.2) for _ in range(90 if quick else 900)]
    if not quick:
        cs += exhaustive_shared()
    return cs


def _lines(*xs):
    return {"tree": {"CFilter": [[S(x) for x in xs]]}, "meta": {"family": "filter", "corpus": True}}


def _run(p, embed='  File "asynq/x.py", line 1, in %s\n'):
    return [embed % e for e in PATTERNS[p][0]]


CORPUS = [
    # a computed future whose value is a tuple: the value must never become a "%" argument list
    cell_case("ConstFuture/fresh", PTuple(PInt(1), PInt(2)), payload_name="tuple-2"),
    # ... a task that returned a 1-tuple: str and repr show the tuple, not its element
    cell_case("Task/ok", PTuple(PInt(7)), payload_name="tuple-1"),
    # ... a flushed batch item holding (), and an error built with a "%s" string inside a tuple
    cell_case("Item/flushed", PTuple(), payload_name="tuple-0"),
    cell_case("Task/err", PTuple(PStr("%s"), PNone), payload_name="tuple-of-percent"),
] + cell_cases() + [
    _lines(),
    _lines(*(["\n"] + _run(1) + _run(0) + _run(2) + FOREIGN[:2])),                    # asynq's own test text
    _lines(*(_run(2)[:3] + FOREIGN[:2])),                                              # partial run, then foreign
    _lines(*_run(2)[:3]),                                                              # partial run at the end of input
    _lines(*(_run(0)[:2] + _run(0))),                                                  # partial run directly before a complete one
    _lines(*(["x asynq.async_task.AsyncTask._continue_on_generator\n"] * 7)),          # every line contains every element of pattern 0
    _lines(*(_run(0)[:1] + _run(1) + _run(0)[1:])),                                    # a run interrupted by another complete run
    _lines(*_run(1)[:7]), _lines(*(_run(1)[:7] + ["    raise value"])),
    _lines("  ___asynq_continue___\n", *_run(0)),
    mk_chain([], {"BRaise": [{"n": 0}]}), mk_chain([], {"BRaise": [{"n": 2}]}), mk_chain([], "BErrorFuture"),
    mk_chain([("MPass", "HAwait")] * 4, {"BRaise": [{"n": 1}]}),
    mk_chain([("MPass", "HAwait"), ("MLater", "HAwait"), ("MPass", "HSync"), ("MPass", "HAwait")], {"BRaise": [{"n": 1}]}),
    mk_chain([("MRaiseE", "HAwait")] * 3, "BErrorFuture", shapes=["list", "tuple", "dict", "list"]),
    mk_chain([("MPass", "HAwait"), ("MNew", "HAwait"), ("MPass", "HSync")], {"BRaise": [{"n": 1}]}),
    mk_chain([("MPass", "HAwait"), ("MSwallow", "HAwait"), ("MPass", "HAwait")], {"BRaise": [{"n": 0}]}),
    mk_chain([("MReraise", "HSync")] * 3, {"BRaise": [{"n": 3}]}, pre_yields=0),
    mk_chain([("MPass", "HAwait")] * 49, {"BRaise": [{"n": 1}]}),
    mk_chain([("MPass", "HAwait")] * 2, {"BPrepared": [{"n": 0}]}),
    mk_chain([("MReraise", "HAwait"), ("MPass", "HSync"), ("MLater", "HAwait")], {"BPrepared": [{"n": 2}]}),
    # the same failed task observed more than once: a reader task that copes with the failure, then a
    # chain of two readers that does not
    mk_observe([("MPass", "HAwait")], {"BRaise": [{"n": 1}]}, "HSync",
               [[("HSync", True)], [("HAwait", False), ("HSync", False)]]),
    # ... the caller itself looks three times (value(), (), value())
    mk_observe([("MPass", "HAwait")], {"BRaise": [{"n": 0}]}, "HSync", [[], [], []], sync_via=["value", "call"]),
    # ... two tasks awaiting the same failed dependency one after the other inside a task, then that task itself
    mk_observe([], {"BRaise": [{"n": 1}]}, "HAwait", [[("HAwait", False)], [("HAwait", False)], []]),
    # the failed future that two sibling tasks await one after the other is not a task: an ErrorFuture made
    # from the error a failed task ended with (a negative cache), then the caller itself looks
    mk_shared("KErrorFuture", EOfTask([], {"BRaise": [{"n": 0}]}), "HSync", [[("HAwait", False)], [("HAwait", False)], []]),
    # ... a batch item whose flush stored that error, awaited by two tasks inside one task
    mk_shared("KItem", EOfTask([("MPass", "HAwait")], {"BRaise": [{"n": 1}]}), "HAwait", [[("HAwait", False)], [("HAwait", False)]]),
    # ... a lazy Future whose provider raises it, a future given set_error() from outside; an instance prepared elsewhere
    mk_shared("KLazy", EOfTask([], {"BRaise": [{"n": 1}]}), "HSync", [[("HSync", False)], [("HAwait", True)], []], sync_via=["call"]),
    mk_shared("KSetError", EOfTask([("MLater", "HAwait")], {"BPrepared": [{"n": 0}]}), "HSync", [[("HAwait", False)], [("HAwait", False), ("HSync", False)]]),
    # ... holding an instance NO task has prepared (pinned here only, not generated: listed known findings, known/C18.json):
    # ErrorFuture(never raised) awaited by two sibling tasks, then value()
    mk_shared("KErrorFuture", "EFresh", "HSync", [[("HAwait", False)], [("HAwait", False)], []]),
    # ErrorFuture(instance prepared for re-raising outside any task) awaited by one task
    mk_shared("KErrorFuture", "EPrepared", "HSync", [[("HAwait", False)]]),
    # ... the same asked synchronously in the reader's body (keeps the frames: no finding)
    mk_shared("KErrorFuture", "EPrepared", "HSync", [[("HSync", False)]]),
    # lazy Future whose provider raises a new instance, awaited by one task
    mk_shared("KLazy", "EFresh", "HSync", [[("HAwait", False)]]),
    mk_stack([]),
    mk_stack(["ByParent"] * 3),
    mk_stack(["ByParent", "ByHelper", "BySync", "Pre", "ByParent"]),
    mk_stack(["ByHelper"] * 4),
    mk_stack(["ByParent"] * 50),
    # a task in the middle of the creator chain whose source line cannot be retrieved
    mk_stack(["ByParent"] * 3, "SrcFile", ["SrcFile", "SrcNone", "SrcFile"], ["exec"]),
    # ... the calling task itself, with its file gone; nothing retrievable anywhere
    mk_stack(["ByParent", "BySync"], "SrcFile", ["SrcFile", "SrcNone"], ["missing-file"], "before-yield"),
    mk_stack(["ByParent", {"ByFailedHelper": ["SrcNone"]}, "ByParent"], "SrcNone", ["SrcNone"] * 3, NOSRC_HOW, "in-plain-fn"),
]


def family(c):
    return next(iter(c["tree"])) if isinstance(c["tree"], dict) else "?"


def canon(c):
    return json.dumps([c["tree"], (c.get("meta") or {}).get("cell")], sort_keys=True)


# --------------------------------------------------------------------------- reference reading of the statement
def contains_run(lines, i, pat):
    return i + len(pat) <= len(lines) and all(p in lines[i + j] for j, p in enumerate(pat))


def reference_filter(lines):
    """Leftmost, first pattern wins, complete runs only; also returns the segmentation."""
    out, segs, i = [], [], 0
    while i < len(lines):
        for pat, marker in PATTERNS:
            if contains_run(lines, i, pat):
                out.append("  " + marker + "\n")
                segs.append(("run", i, len(pat), marker))
                i += len(pat)
                break
        else:
            out.append(lines[i])
            segs.append(("keep", i, 1, None))
            i += 1
    return out, segs


def filter_stats(lines):
    complete = partial = 0
    _, segs = reference_filter(lines)
    complete = sum(1 for s in segs if s[0] == "run")
    for kind, i, n, _ in segs:
        if kind == "keep" and any(pat[0] in lines[i] for pat, _ in PATTERNS):
            partial += 1
    return complete, partial


def expected_chain(ms, bottom):
    """Reading of the statement: which user frames the caller must see, as (name, min, max) runs."""
    d = len(ms) + 1
    # walk up from the bottom
    if isinstance(bottom, dict) and "BRaise" in bottom:
        k = bottom["BRaise"][0]["n"]
        tail = [("hlp_%d" % j, 1, 1) for j in range(1, k + 1)]
    elif isinstance(bottom, dict) and "BPrepared" in bottom:
        # re-raising an instance keeps the frames of its earlier raise at the end, as in plain Python
        k = bottom["BPrepared"][0]["n"]
        tail = [("hlp_%d" % j, 1, 1) for j in range(1, k + 1)] + [("prep_site", 1, 1)]
    else:
        tail = []
    seq = [("lvl_%d" % (d - 1), 1, 1)] + tail      # innermost part, outermost first
    alive = True
    for i in range(d - 2, -1, -1):
        m = ms[i][""][0]
        if not alive:
            continue
        if m == "MSwallow":
            alive = False
        elif m == "MNew":
            seq = [("lvl_%d" % i, 1, 1)]
        elif m in ("MRaiseE", "MLater"):
            seq = [("lvl_%d" % i, 1, 2)] + seq     # an explicit raise statement repeats its own frame (plain Python does too)
        else:
            seq = [("lvl_%d" % i, 1, 1)] + seq
    if not alive:
        return None
    return [("caller_frame", 1, 1)] + seq


def created_kind(c):
    return c if isinstance(c, str) else next(iter(c))


def expected_stack(cs):
    """Reading of the statement: the calling task and each task that created it, outermost first, as
    task names; cs = how each level below the outermost was created."""
    names = [("TL", 0)]
    for i, c in enumerate(cs):
        k = created_kind(c)
        if k == "Pre":
            names = [("TL", i + 1)]
        elif k in ("ByHelper", "ByFailedHelper"):
            names += [("TH", i + 1), ("TL", i + 1)]
        else:
            names.append(("TL", i + 1))
    return [{k: [v]} for k, v in names]


def sourceless_tasks(s0, cs, srcs):
    """Names of the tasks on the chain that have a frame whose source line cannot be retrieved."""
    out = []
    for i, x in enumerate([s0] + srcs):
        if x == "SrcNone":
            out.append({"TL": [i]})
    for i, c in enumerate(cs):
        if isinstance(c, dict) and c.get("ByFailedHelper") == ["SrcNone"]:
            out.append({"TH": [i + 1]})
    return out


def entry_task(e):
    """The task an entry of format_asynq_stack() names (None if it names none)."""
    if isinstance(e, dict):
        for k in ("EFrame", "EStr"):
            if k in e:
                return e[k][0]
    return None


SRC_NAMES = {"EOfTask": "error-of-a-failed-task", "EPrepared": "error-prepared-outside-any-task", "EFresh": "error-never-raised"}


def expected_shared(src, fk=None):
    """Reading of the statement: the frames below the observer's own chain, i.e. the ones the error had when
    the shared future received it (None: the task the error is taken from did not fail)."""
    k = src_kind(src)
    if k == "EOfTask":
        w = expected_chain(src["EOfTask"][0], src["EOfTask"][1])
        return None if w is None else w[1:]
    # an instance no task has prepared: the frames it has when the future receives it -- the site that prepared
    # it / none, and below a lazy Future the provider that raises it
    return ([("provider", 1, 1)] if fk == "KLazy" else []) + ([("prep_site", 1, 1)] if k == "EPrepared" else [])


def observer_findings(fs, observers, per, want_f, pre, what, optional=()):
    """Clause chain-one-frame-per-level for several observers of one failed future: every observer -- the first
    and each later one -- catches its own chain (one frame per reader level from the catching level down)
    followed by the frames want_f the error had when the future received it, and no frame of another observer.
    want_f None: the future did not fail.  optional: plain-function frames that may or may not be shown."""
    kinds = [observer_kind(o) for o in observers]
    for k, o in enumerate(observers):
        ob = per[k] if k < len(per) else {"raised": False}
        nth = "first-observation" if k == 0 else "later-observation"
        if want_f is None:
            if ob.get("raised"):
                fs.append(dict(clause="chain-one-frame-per-level", site=pre + ":exception-after-swallow",
                               msg="observer %d saw an exception although a level of the observed task swallowed it" % k))
            continue
        if not ob.get("raised"):
            fs.append(dict(clause="chain-one-frame-per-level", site=pre + ":no-exception-reached-observer:%s" % nth,
                           msg="observer %d (%s) looked at the failed future and saw no exception" % (k, kinds[k])))
            continue
        if ob.get("exc_type") != "Boom":
            fs.append(dict(clause="chain-one-frame-per-level", site=pre + ":wrong-exception-type:%s" % ob.get("exc_type"), msg="observer %d saw %s" % (k, ob.get("exc_type"))))
        r = len(o)
        cl = catching_level(o)
        own = (["caller_frame"] if cl is None else []) + ["rdr_%d_%d" % (k, j) for j in range(cl or 0, r)]
        want = [(n, 1, 1) for n in own] + want_f
        uf = ob["user_frames"]
        # frames that belong to another observer of the same failed task: none of them is in this observer's call chain
        leaked, rest, seen_caller = {}, [], False
        for n in uf:
            m = re.match(r"^rdr_(\d+)_(\d+)$", n)
            if m and int(m.group(1)) != k:
                k2, j2 = int(m.group(1)), int(m.group(2))
                c2 = catching_level(observers[k2]) if k2 < len(observers) else None
                kind = ("reader-that-handled-it" if c2 == j2 else "reader-that-let-it-propagate" if (c2 is None or j2 > c2)
                        else "reader-that-never-saw-it")
                leaked.setdefault(kind, []).append(n)
            elif n == "caller_frame" and (seen_caller or cl is not None):
                leaked.setdefault("driver-that-caught-it", []).append(n)
            elif n in optional:
                continue      # a plain function between the reader and the error: the statement asks for the task levels
            else:
                seen_caller = seen_caller or n == "caller_frame"
                rest.append(n)
        for kind, names in sorted(leaked.items()):
            fs.append(dict(clause="chain-one-frame-per-level", site=pre + ":frames-of-earlier-observer:%s" % kind,
                           msg="observer %d (%s) of a failed %s that %d observers looked at before (%s) caught a traceback with the user frames %s; "
                               "%s belong to another observer (%s), not to its call chain %s"
                               % (k, kinds[k], what, k, ", ".join(kinds[:k]), uf[:30], sorted(set(names))[:6], kind, [n for n, _, _ in want][:30])))
        runs = [(n, len(list(g))) for n, g in itertools.groupby(rest)]
        names = [n for n, _ in runs]
        wnames = [n for n, _, _ in want]
        if names != wnames:
            missing = [n for n in wnames if n not in names]
            if missing:
                site = pre + ":missing-%s-frame" % ("level" if missing[0].startswith("lvl") else "reader" if missing[0].startswith("rdr")
                                                     else "raising" if missing[0].startswith(("hlp", "prep", "provider")) else "caller")
            elif sorted(names) == sorted(wnames):
                site = pre + ":frames-out-of-call-order"
            elif names[-1] != wnames[-1]:
                site = pre + ":does-not-end-at-raising-frame"
            else:
                site = pre + ":extra-frames"
            fs.append(dict(clause="chain-one-frame-per-level", site=site + ":" + nth,
                           msg="observer %d (%s): user frames %s; expected its own chain and one frame per level of the failed task in call order: %s"
                               % (k, kinds[k], uf[:40], wnames[:40])))
        else:
            for (n, cnt), (_, lo, hi) in zip(runs, want):
                if not (lo <= cnt <= hi):
                    fs.append(dict(clause="chain-one-frame-per-level", site=pre + ":frame-repeated:" + nth,
                                   msg="observer %d (%s): frame %s appears %d times (allowed %d..%d) in %s" % (k, kinds[k], n, cnt, lo, hi, uf[:40])))
                    break
        for f in ob.get("formats", []):
            if not f["ok"]:
                fs.append(dict(clause="format-error-total", site="format_error:observed-again:%s:%s" % (f["variant"].split(",")[0], f["exc"]),
                               msg="format_error raised %s (%s) for the error observer %d caught" % (f["exc"], f["variant"], k)))
            elif not f["has_text"]:
                fs.append(dict(clause="format-error-total", site="format_error:observed-again:%s:empty" % f["variant"].split(",")[0],
                               msg="format_error returned nothing (%s) for the error observer %d caught" % (f["variant"], k)))


# --------------------------------------------------------------------------- monitors
def monitors(c, io, build):
    fam = family(c)
    fs = []
    if "Hang" in io:
        return [dict(clause="repr-never-raises" if fam == "CRepr" else "diagnostic-call-returns", site="%s:hang" % fam,
                     msg="the diagnostic call did not return within 30 s")]
    out, obs = io.get("out"), io.get("obs") or {}
    if fam == "CFilter":
        lines = [l["s"] for l in c["tree"]["CFilter"][0]]
        if not (isinstance(out, dict) and "RFilter" in out):
            return [dict(clause="filter-only-complete-runs", site="filter:not-a-list-of-strings", msg="filter_traceback returned %s" % out)]
        got = [l["s"] for l in out["RFilter"][0]]
        want, segs = reference_filter(lines)
        if not obs.get("input_unchanged", True):
            fs.append(dict(clause="filter-other-lines-untouched", site="filter:input-mutated", msg="filter_traceback modified its argument"))
        if got != want:
            # locate the first differing segment and say which clause it breaks
            k = 0
            while k < min(len(got), len(want)) and got[k] == want[k]:
                k += 1
            markers = {"  " + m + "\n" for _, m in PATTERNS}
            if k < len(want):
                kind, i, n, marker = segs[k]
                g = got[k] if k < len(got) else None
                if kind == "keep" and g in markers and lines[i] not in markers:
                    site, clause = "filter:collapsed-without-complete-run", "filter-only-complete-runs"
                elif kind == "keep":
                    site, clause = "filter:line-changed-or-dropped", "filter-other-lines-untouched"
                elif g in markers:
                    site, clause = "filter:wrong-marker", "filter-only-complete-runs"
                else:
                    site, clause = "filter:complete-run-not-collapsed", "filter-one-marker-per-run"
                msg = "input line %d (%r): expected output[%d] = %r, got %r" % (i, lines[i][:60], k, want[k][:60], (g or "")[:60])
            else:
                site, clause, msg = "filter:extra-output", "filter-other-lines-untouched", "output has %d extra lines: %r" % (len(got) - len(want), got[len(want):][:3])
            fs.append(dict(clause=clause, site=site, msg=msg))
    elif fam == "CChain":
        ms, bottom = c["tree"]["CChain"]
        want = expected_chain(ms, bottom)
        if want is None:
            if obs.get("raised"):
                fs.append(dict(clause="chain-one-frame-per-level", site="chain:exception-after-swallow",
                               msg="an exception reached the caller although a level swallowed it"))
            return fs
        if not obs.get("raised"):
            return [dict(clause="chain-one-frame-per-level", site="chain:no-exception-reached-caller", msg="the bottom raised but the caller saw no exception")]
        if obs.get("exc_type") != "Boom":
            fs.append(dict(clause="chain-one-frame-per-level", site="chain:wrong-exception-type:%s" % obs.get("exc_type"), msg="caller saw %s" % obs.get("exc_type")))
        pi = "prepared-instance:" if (isinstance(bottom, dict) and "BPrepared" in bottom) else ""
        uf = obs["user_frames"]
        runs = [(n, len(list(g))) for n, g in itertools.groupby(uf)]
        names = [n for n, _ in runs]
        wnames = [n for n, _, _ in want]
        if names != wnames:
            missing = [n for n in wnames if n not in names]
            if missing:
                site = "chain:" + pi + "missing-%s-frame" % ("level" if missing[0].startswith("lvl") else "raising" if missing[0].startswith("hlp") else "caller")
            elif sorted(names) == sorted(wnames):
                site = "chain:frames-out-of-call-order"
            elif names[-1] != wnames[-1]:
                site = "chain:does-not-end-at-raising-frame"
            else:
                site = "chain:extra-frames"
            fs.append(dict(clause="chain-one-frame-per-level", site=site,
                           msg="user frames of the traceback %s; expected one per level in call order ending at the raising frame: %s" % (uf[:40], wnames[:40])))
        else:
            for (n, k), (_, lo, hi) in zip(runs, want):
                if not (lo <= k <= hi):
                    fs.append(dict(clause="chain-one-frame-per-level", site="chain:frame-repeated", msg="frame %s appears %d times (allowed %d..%d)" % (n, k, lo, hi)))
                    break
        for f in obs.get("formats", []):
            if not f["ok"]:
                fs.append(dict(clause="format-error-total", site="format_error:%s:%s" % (f["variant"].split(",")[0], f["exc"]),
                               msg="format_error raised %s (%s)" % (f["exc"], f["variant"])))
            elif not f["has_text"]:
                fs.append(dict(clause="format-error-total", site="format_error:%s:empty" % f["variant"].split(",")[0], msg="format_error returned nothing (%s)" % f["variant"]))
            elif f["names"] is not None and f["variant"].startswith(("stored-tb", "explicit-tb")):
                # the printed traceback must show the level frames in call order
                lv = [n for n in f["names"] if n.startswith(("lvl", "hlp", "prep"))]
                lv = [n for n, _ in itertools.groupby(lv)]
                if lv != wnames[1:]:
                    fs.append(dict(clause="format-error-faithful", site="format_error:%s%s:levels-missing-or-reordered" % (pi, f["variant"].split(",")[0]),
                                   msg="format_error (%s) lists %s, expected %s" % (f["variant"], lv[:30], wnames[1:][:30])))
    elif fam == "CObserve":
        ms, bottom, drv, observers = c["tree"]["CObserve"]
        want_f = expected_chain(ms, bottom)
        observer_findings(fs, observers, obs.get("observers") or [], None if want_f is None else want_f[1:], "observe", "task")
    elif fam == "CShared":
        fk, src, drv, observers = c["tree"]["CShared"]
        want_f = expected_shared(src, fk)
        observer_findings(fs, observers, obs.get("observers") or [], want_f, "shared:%s:%s" % (FKIND_NAMES[fk], SRC_NAMES[src_kind(src)]),
                          "%s holding %s" % (FKIND_NAMES[fk], SRC_NAMES[src_kind(src)]),
                          optional=("provider",) if src_kind(src) == "EOfTask" else ())
    elif fam == "CStack":
        s0, cs, srcs = stack_levels(c)
        want = expected_stack(cs)
        nosrc = sourceless_tasks(s0, cs, srcs)
        if not obs.get("outside_none", True):
            fs.append(dict(clause="stack-outermost-first", site="format_asynq_stack:not-None-outside-task", msg="format_asynq_stack() outside any task did not return None"))
        if isinstance(out, dict) and "RStackRaised" in out:
            exc = out["RStackRaised"][0]["s"]
            fs.append(dict(clause="stack-outermost-first", site="format_asynq_stack:raised-%s" % exc,
                           msg="format_asynq_stack() inside a task whose creator chain has %d entries (%d of them without a retrievable source line) raised %s"
                               % (len(want), len(nosrc), exc)))
        elif not (isinstance(out, dict) and "RStack" in out):
            fs.append(dict(clause="stack-outermost-first", site="format_asynq_stack:not-a-list", msg="format_asynq_stack() inside a task returned %s" % json.dumps(out)[:100]))
        else:
            ents = out["RStack"][0]
            got = [entry_task(e) for e in ents]
            if None in got:
                bad = ents[got.index(None)]
                fs.append(dict(clause="stack-outermost-first", site="format_asynq_stack:entry-names-no-task",
                               msg="entry %d of format_asynq_stack() does not name a task of the chain: %s" % (got.index(None), json.dumps(bad)[:120])))
            elif len(got) < len(want) and got == want[len(want) - len(got):] and got:
                # the calling task is there but the list stops short of the outermost creator
                site = "format_asynq_stack:outer-creators-missing"
                if got[0] in nosrc:
                    site += ":above-task-without-source-line"
                fs.append(dict(clause="stack-outermost-first", site=site,
                               msg="format_asynq_stack() listed %d entries %s for a creator chain of %d: the %d outermost creators %s are missing (tasks without a retrievable source line: %s)"
                                   % (len(got), got[:6], len(want), len(want) - len(got), want[:len(want) - len(got)][:6], nosrc[:6])))
            elif len(got) != len(want):
                fs.append(dict(clause="stack-outermost-first", site="format_asynq_stack:wrong-number-of-entries",
                               msg="format_asynq_stack() listed %d entries for a creator chain of %d" % (len(got), len(want))))
            elif got != want:
                site = "format_asynq_stack:not-outermost-first" if got == want[::-1] or sorted(map(str, got)) == sorted(map(str, want)) else "format_asynq_stack:wrong-entries"
                fs.append(dict(clause="stack-outermost-first", site=site, msg="format_asynq_stack() listed %s, expected %s" % (got[:12], want[:12])))
    elif fam == "CRepr":
        if isinstance(out, dict) and "NotDriven" in out:
            return fs
        cell = obs.get("cell") or "generated-state"
        st = cell.split("/")[1] if "/" in cell else cell
        pk = top_payload_kind(c)
        suffix = "" if pk in (None, "int") else ":payload=%s" % pk
        typ = obs.get("type")
        for nm in ("str", "repr", "dump"):
            v = obs.get(nm)
            if v not in ("ok", "n/a"):
                fs.append(dict(clause="repr-never-raises", site="%s:%s:%s%s" % (nm, typ, v, suffix),
                               msg="%s() of a %s in state %s%s raised %s" % (nm, typ, st, " holding a %s payload" % pk if pk else "", v)))
        # dump() goes through debug.str, which turns an exception of str() into an n/a line: str() of
        # that object raised all the same
        if obs.get("dump") == "ok" and obs.get("dump_na_lines"):
            fs.append(dict(clause="repr-never-raises", site="dump:%s:line-is-n/a-text%s" % (typ, suffix or nested_suffix(c)),
                           msg="dump() of a %s in state %s printed %d '<n/a: str(...) raised' line(s): str() of an object in the dump raised: %s"
                               % (typ, st, obs["dump_na_lines"], (obs.get("dump_text") or "")[:200])))
        # faithful: the text of a computed future (finished task, flushed item, Value, scoped value,
        # override) shows the value it holds / the error it failed with -- repr(payload) is in the text
        h = obs.get("holds")
        if h:
            what = "value" if h["role"] == "value" else "error"
            for nm in ("str", "repr", "dump"):
                if obs.get(nm) != "ok":
                    continue
                if nm == "dump":
                    if obs.get("dump_first_cut") or obs.get("dump_na_lines"):
                        continue      # cut by debug.str at DEBUG_STR_REPR_MAX_LENGTH / reported above
                    text = obs.get("dump_text") or ""
                    # debug.write indents the continuation lines of a multi-line text
                    text = re.sub(r"\n +", "\n", text)
                    wants = [re.sub(r"\n +", "\n", h["repr"])]
                    if shows_only_status(c):
                        continue
                else:
                    text = obs.get(nm + "_text") or ""
                    wants = [h["repr"]] + ([h["str"]] if nm == "str" and typ == "AsyncScopedValue" else [])
                    if nm == "str" and shows_only_status(c):
                        continue      # a batch's own __str__ gives state and item count, not the value
                if not any(w in text for w in wants):
                    fs.append(dict(clause="repr-shows-value", site="%s:%s:%s-not-shown%s" % (nm, typ, what, suffix),
                                   msg="%s() of a %s in state %s is %r: it does not show the %s it holds, %s"
                                       % (nm, typ, st, text[:160], what, h["repr"][:80])))
    return fs


def top_payload(c):
    """The payload the printed object itself holds, per the case (None: it holds none)."""
    t = c["tree"]["CRepr"][0]
    if not isinstance(t, dict):
        return None
    k, a = next(iter(t.items()))
    o = a[1] if k in ("OFut", "OBatch") else a[0] if k == "OTask" else None
    if isinstance(o, dict):
        return next(iter(o.values()))[0]
    if k == "OScoped":
        return a[1]
    if k == "OValue":
        return a[0]
    return None


def top_payload_kind(c):
    p = top_payload(c)
    return None if p is None else payload_kind(p)


def all_payloads(t):
    """Every payload in an object tree."""
    if isinstance(t, list):
        for x in t:
            yield from all_payloads(x)
    elif isinstance(t, dict):
        for k, a in t.items():
            if k in ("OkV", "ErrV", "OValue"):
                yield a[0]
            elif k == "OScoped":
                yield a[1]
            else:
                yield from all_payloads(a)


def nested_suffix(c):
    """The printed object holds no payload itself; some object below it does."""
    return ":nested-object" if any(payload_kind(p) != "int" for p in all_payloads(c["tree"])) else ""


def shows_only_status(c):
    """BatchBase.__str__ (and so the batch's dump line) prints state and item count only."""
    t = c["tree"]["CRepr"][0]
    return isinstance(t, dict) and "OBatch" in t


def compare(c, m, io):
    if "Hang" in io:
        return "the implementation hung"
    out = io.get("out")
    if family(c) == "CRepr":
        obs = io.get("obs") or {}
        if isinstance(out, dict) and "NotDriven" in out:
            return "the harness could not drive the object into state %s" % out["NotDriven"][0]["s"]
        if not obs.get("driven", True):
            return "object state after driving differs from the case's state: %s" % json.dumps(obs.get("observed_state"))[:300]
    if m != out:
        return "Diag.run_case and the implementation differ: model %s / implementation %s" % (json.dumps(m)[:400], json.dumps(out)[:400])
    return None


def nontrivial(c):
    fam = family(c)
    t = c["tree"][fam]
    if fam == "CFilter":
        comp, part = filter_stats([l["s"] for l in t[0]])
        return comp >= 1 and part >= 1
    if fam == "CChain":
        return len(t[0]) + 1 >= 2
    if fam == "CStack":
        return len(t[1]) >= 2
    if fam in ("CObserve", "CShared"):
        return len(t[3]) >= 2
    if fam == "CRepr":
        return bool((c.get("meta") or {}).get("cell")) or isinstance(t[0], dict) and next(iter(t[0])) in ("OTask", "OBatch", "OSched") and len(json.dumps(t[0])) > 60
    return False


def distribution(cases):
    d = {"family": {}, "filter_len": {}, "filter_runs": {"complete>=1": 0, "partial>=1": 0, "both": 0, "partial_at_end": 0},
         "chain_depth": {}, "chain_modes": {}, "chain_sync_levels": 0, "chain_bottom": {}, "stack_depth": {}, "stack_created": {},
         "stack_sourceless": {"none": 0, "outermost-only": 0, "below-outermost": 0, "calling-task": 0, "all": 0}, "stack_nosrc_how": {}, "stack_call_site": {},
         "observe_observers": {}, "observe_kinds": {}, "observe_driver": {}, "observe_reader_how": {},
         "observe_second_look_after": {}, "observe_chain_depth": {},
         "shared_kind": {}, "shared_error_source": {}, "shared_observers": {}, "shared_second_look_after": {},
         "repr_cells": 0, "repr_generated": {}, "repr_payload_cells": {}, "repr_top_payload": {}, "repr_payload_role": {},
         "repr_payloads_in_trees": {}, "repr_long_payload_cut_in_dump": 0, "malformed": 0}

    def bucket(n):
        return "0" if n == 0 else "1-3" if n <= 3 else "4-12" if n <= 12 else "13-50" if n <= 50 else "51-300" if n <= 300 else ">300"
    for c in cases:
        fam = family(c)
        t = c["tree"][fam]
        meta = c.get("meta") or {}
        d["family"][fam] = d["family"].get(fam, 0) + 1
        d["malformed"] += 1 if meta.get("malformed") else 0
        if fam == "CFilter":
            lines = [l["s"] for l in t[0]]
            b = bucket(len(lines))
            d["filter_len"][b] = d["filter_len"].get(b, 0) + 1
            comp, part = filter_stats(lines)
            d["filter_runs"]["complete>=1"] += comp >= 1
            d["filter_runs"]["partial>=1"] += part >= 1
            d["filter_runs"]["both"] += comp >= 1 and part >= 1
            _, segs = reference_filter(lines)
            tail = [s for s in segs[-7:] if s[0] == "keep" and any(p[0] in lines[s[1]] for p, _ in PATTERNS)]
            d["filter_runs"]["partial_at_end"] += bool(tail)
        elif fam == "CChain":
            b = bucket(len(t[0]) + 1)
            d["chain_depth"][b] = d["chain_depth"].get(b, 0) + 1
            for mh in t[0]:
                m, h = mh[""]
                d["chain_modes"][m] = d["chain_modes"].get(m, 0) + 1
                d["chain_sync_levels"] += h == "HSync"
            bk = t[1] if isinstance(t[1], str) else "%s%d" % (next(iter(t[1])), next(iter(t[1].values()))[0]["n"])
            d["chain_bottom"][bk] = d["chain_bottom"].get(bk, 0) + 1
        elif fam == "CObserve":
            ms_, _b, drv, observers = t
            n = len(observers)
            nb = str(n) if n <= 4 else "5+"
            d["observe_observers"][nb] = d["observe_observers"].get(nb, 0) + 1
            d["observe_driver"][drv] = d["observe_driver"].get(drv, 0) + 1
            b = bucket(len(ms_) + 1)
            d["observe_chain_depth"][b] = d["observe_chain_depth"].get(b, 0) + 1
            ks = [observer_kind(o) for o in observers]
            for x in ks:
                d["observe_kinds"][x] = d["observe_kinds"].get(x, 0) + 1
            for x in set(ks[:-1]):      # what had looked at the task before somebody looked again
                d["observe_second_look_after"][x] = d["observe_second_look_after"].get(x, 0) + 1
            for o in observers:
                for h, _c in observer_levels(o):
                    d["observe_reader_how"][h] = d["observe_reader_how"].get(h, 0) + 1
        elif fam == "CShared":
            fk, src, drv, observers = t
            d["shared_kind"][FKIND_NAMES[fk]] = d["shared_kind"].get(FKIND_NAMES[fk], 0) + 1
            sk = SRC_NAMES[src_kind(src)]
            d["shared_error_source"][sk] = d["shared_error_source"].get(sk, 0) + 1
            nb = str(len(observers)) if len(observers) <= 4 else "5+"
            d["shared_observers"][nb] = d["shared_observers"].get(nb, 0) + 1
            ks = [observer_kind(o) for o in observers]
            for x in set(ks[:-1]):
                d["shared_second_look_after"][x] = d["shared_second_look_after"].get(x, 0) + 1
        elif fam == "CStack":
            s0, kinds, srcs = stack_levels(c)
            b = bucket(len(kinds))
            d["stack_depth"][b] = d["stack_depth"].get(b, 0) + 1
            for x in kinds:
                x = created_kind(x)
                d["stack_created"][x] = d["stack_created"].get(x, 0) + 1
            ns = sourceless_tasks(s0, kinds, srcs)
            sl = d["stack_sourceless"]
            if not ns:
                sl["none"] += 1
            elif ns == [{"TL": [0]}]:
                sl["outermost-only"] += 1
            else:
                sl["below-outermost"] += 1
            sl["calling-task"] += ([s0] + srcs)[-1] == "SrcNone"
            sl["all"] += all(x == "SrcNone" for x in [s0] + srcs)
            if ns:
                for h in meta.get("nosrc_how") or ["exec"]:
                    d["stack_nosrc_how"][h] = d["stack_nosrc_how"].get(h, 0) + 1
            cs_ = meta.get("call_site", "after-yield")
            d["stack_call_site"][cs_] = d["stack_call_site"].get(cs_, 0) + 1
        else:
            pk = top_payload_kind(c)
            if pk:
                d["repr_top_payload"][pk] = d["repr_top_payload"].get(pk, 0) + 1
                o = t[0][next(iter(t[0]))]
                role = "error-argument" if any(isinstance(x, dict) and "ErrV" in x for x in o) else "value"
                d["repr_payload_role"][role] = d["repr_payload_role"].get(role, 0) + 1
            for q in all_payloads(t):
                k_ = payload_kind(q)
                d["repr_payloads_in_trees"][k_] = d["repr_payloads_in_trees"].get(k_, 0) + 1
            d["repr_long_payload_cut_in_dump"] += any(plen(q) > CUT for q in all_payloads(t))
            if meta.get("cell") and meta.get("payload") is not None:
                kind = meta["cell"].split("/")[0]
                d["repr_payload_cells"][kind] = d["repr_payload_cells"].get(kind, 0) + 1
            elif meta.get("cell"):
                d["repr_cells"] += 1
            else:
                k = next(iter(t[0])) if isinstance(t[0], dict) else t[0]
                d["repr_generated"][k] = d["repr_generated"].get(k, 0) + 1
    return d


# --------------------------------------------------------------------------- shrinking
def shrink(c):
    fam = family(c)
    t = c["tree"][fam]
    meta = dict(c.get("meta") or {})
    meta["shrunk"] = True
    if fam == "CFilter":
        ls = t[0]
        for i in range(len(ls)):
            yield {"tree": {"CFilter": [ls[:i] + ls[i + 1:]]}, "meta": meta}
    elif fam == "CChain":
        ms, b = t
        m2 = dict(meta, shapes=[])
        for i in range(len(ms)):
            yield {"tree": {"CChain": [ms[:i] + ms[i + 1:], b]}, "meta": m2}
        for i, mh in enumerate(ms):
            if mh[""] != ["MPass", "HAwait"]:
                yield {"tree": {"CChain": [ms[:i] + [{"": ["MPass", "HAwait"]}] + ms[i + 1:], b]}, "meta": m2}
        if b != {"BRaise": [{"n": 0}]}:
            yield {"tree": {"CChain": [ms, {"BRaise": [{"n": 0}]}]}, "meta": m2}
    elif fam == "CObserve":
        ms, b, drv, observers = t
        m2 = dict(meta, shapes=[])

        def mk(ms=ms, b=b, drv=drv, observers=observers, meta=m2):
            return {"tree": {"CObserve": [ms, b, drv, observers]}, "meta": meta}
        for i in range(len(observers)):
            yield mk(observers=observers[:i] + observers[i + 1:])
        for i, o in enumerate(observers):
            for j in range(len(o)):
                yield mk(observers=observers[:i] + [o[:j] + o[j + 1:]] + observers[i + 1:])
        for i in range(len(ms)):
            yield mk(ms=ms[:i] + ms[i + 1:])
        for i, mh in enumerate(ms):
            if mh[""] != ["MPass", "HAwait"]:
                yield mk(ms=ms[:i] + [{"": ["MPass", "HAwait"]}] + ms[i + 1:])
        if b != {"BRaise": [{"n": 0}]}:
            yield mk(b={"BRaise": [{"n": 0}]})
        for i, o in enumerate(observers):
            for j, x in enumerate(o):
                if x[""][0] != "HAwait":
                    yield mk(observers=observers[:i] + [o[:j] + [{"": ["HAwait", x[""][1]]}] + o[j + 1:]] + observers[i + 1:])
        if drv != "HSync":
            yield mk(drv="HSync")
        plain_meta = dict(m2, pre_yields=1, precompute=False, sync_via=["value"], fresh_caller=True)
        if plain_meta != m2:
            yield mk(meta=plain_meta)
    elif fam == "CShared":
        fk, src, drv, observers = t
        m2 = dict(meta, shapes=[])

        def mk(fk=fk, src=src, drv=drv, observers=observers, meta=m2):
            return {"tree": {"CShared": [fk, src, drv, observers]}, "meta": meta}
        for i in range(len(observers)):
            yield mk(observers=observers[:i] + observers[i + 1:])
        for i, o in enumerate(observers):
            for j in range(len(o)):
                yield mk(observers=observers[:i] + [o[:j] + o[j + 1:]] + observers[i + 1:])
        if src_kind(src) == "EOfTask":
            ms, b = src["EOfTask"]
            for i in range(len(ms)):
                yield mk(src={"EOfTask": [ms[:i] + ms[i + 1:], b]})
            if b != {"BRaise": [{"n": 0}]}:
                yield mk(src={"EOfTask": [ms, {"BRaise": [{"n": 0}]}]})
        if fk != "KErrorFuture":
            yield mk(fk="KErrorFuture")
        for i, o in enumerate(observers):
            for j, x in enumerate(o):
                if x[""][0] != "HAwait":
                    yield mk(observers=observers[:i] + [o[:j] + [{"": ["HAwait", x[""][1]]}] + o[j + 1:]] + observers[i + 1:])
        if drv != "HSync":
            yield mk(drv="HSync")
        plain_meta = dict(m2, pre_yields=1, precompute=False, sync_via=["value"], fresh_caller=True)
        if plain_meta != m2:
            yield mk(meta=plain_meta)
    elif fam == "CStack":
        s0, cs = t
        n = len(cs)
        plain = {"": ["ByParent", "SrcFile"]}
        if n > 8:   # bisect deep chains first
            for k in (n // 2, n - n // 4, n - n // 16 - 1, n - 1):
                yield {"tree": {"CStack": [s0, cs[n - k:]]}, "meta": meta}
                yield {"tree": {"CStack": ["SrcFile", [plain] * k]}, "meta": meta}
        else:
            for i in range(n):
                yield {"tree": {"CStack": [s0, cs[:i] + cs[i + 1:]]}, "meta": meta}
        if any(x[""][0] != "ByParent" for x in cs):
            yield {"tree": {"CStack": [s0, [{"": ["ByParent", x[""][1]]} for x in cs]]}, "meta": meta}
        if n <= 8:
            for i in range(n):
                if cs[i][""][1] != "SrcFile":
                    yield {"tree": {"CStack": [s0, cs[:i] + [{"": [cs[i][""][0], "SrcFile"]}] + cs[i + 1:]]}, "meta": meta}
        if s0 != "SrcFile":
            yield {"tree": {"CStack": ["SrcFile", cs]}, "meta": meta}
        if meta.get("call_site", "after-yield") != "after-yield" or (meta.get("nosrc_how") or ["exec"]) != ["exec"]:
            yield {"tree": {"CStack": [s0, cs]}, "meta": dict(meta, call_site="after-yield", nosrc_how=["exec"])}
    elif fam == "CRepr" and meta.get("cell") and meta.get("payload") is not None:
        # smaller payloads of the same cell: drop an element / entry, replace an element by a plain int
        for q in shrink_payload(meta["payload"]):
            yield cell_case(meta["cell"], q, payload_name="shrunk", shrunk=True)
    elif fam == "CRepr" and not meta.get("cell"):
        o = t[0]
        for q in all_payloads(o):
            if q != P3:
                yield {"tree": {"CRepr": [subst_payload(o, q, P3)]}, "meta": meta}
                break
        if isinstance(o, dict):
            k = next(iter(o))
            if k == "OTask":
                for dep in o[k][3]:
                    yield {"tree": {"CRepr": [dep]}, "meta": meta}
                if o[k][3]:
                    yield {"tree": {"CRepr": [{"OTask": o[k][:3] + [[]]}]}, "meta": meta}
            elif k == "OSched":
                ts, bs, act = o[k]
                for x in ts + bs + ([] if act == "None" else act["Some"]):
                    yield {"tree": {"CRepr": [x]}, "meta": meta}
            elif k == "OBatch":
                for x in o[k][2]:
                    yield {"tree": {"CRepr": [x]}, "meta": meta}


def shrink_payload(p):
    k, a = pctor(p)
    if k in ("PTuple", "PList"):
        xs = a[0]
        for i in range(len(xs)):
            yield {k: [xs[:i] + xs[i + 1:]]}
        for i, x in enumerate(xs):
            if x != PInt(1):
                yield {k: [xs[:i] + [PInt(1)] + xs[i + 1:]]}
    elif k == "PDict":
        kvs = a[0]
        for i in range(len(kvs)):
            yield {k: [kvs[:i] + kvs[i + 1:]]}
    elif k == "PStr" and len(a[0]["s"]) > 2 and len(a[0]["s"]) < CUT:
        yield PStr(a[0]["s"][:len(a[0]["s"]) // 2])


def subst_payload(t, old, new):
    if t == old:
        return new
    if isinstance(t, list):
        return [subst_payload(x, old, new) for x in t]
    if isinstance(t, dict):
        return {k: subst_payload(v, old, new) for k, v in t.items()}
    return t


def model_input(c):
    return coqrun.coq_of(c["tree"])


EXPLANATION = ("Coq theorems about Diag.v (filter_traceback rewriting, traceback gluing, creator chain, str/repr/dump totality) are "
               "re-checked; Diag.run_case is evaluated with vm_compute on every case and compared with asynq (pure and Cython "
               "builds): filter_traceback output, hide-aware user frames of the traceback reaching the caller and of the traceback every one of several "
               "observers of the same failed task - or failed non-task future (ErrorFuture, batch item, set_error, lazy Future) - catches, the entries of "
               "format_asynq_stack(), and the status words and the payload shown, parsed out of str()/repr()/dump(), for payloads of every shape "
               "(tuples of any length, %-/{}-strings, containers, None, nested futures, long and multi-line reprs). Monitors encode the statement directly: "
               "no call raises, no dump line degrades to the n/a text, the text of a computed object contains repr of what it holds.")
