"""C06 — an AsyncContext is active exactly while its task, or work it awaits, runs."""
from ..lib import mach, machgen

RULE = ("generated programs with with-blocks (AsyncContext, NonAsyncContext, scoped overrides) at any nesting, spanning 0-4 "
        "yields, in several concurrently pending tasks, synchronous re-entry, exceptions thrown into / out of the block, "
        "early result(); distinct = different AST+params; non-trivial = a with-block and >= 2 tasks and >= 1 batch item")
TRUSTED = ["Python/Gallina emitters of harness/lib/machprog.py"]
ASSUMPTIONS = ["contexts whose own pause()/resume() raise are outside this property's quantifier (they belong to C08)",
               "interpretation of the flush clause under synchronous re-entry: DESIGN.md 5.21"]
EXPLANATION = "projection: the global Resume/Pause sequence interleaved with Step and Before markers"

_base = dict(name="ctx", p_ctx_fault=0, p_nonasync=0.12, p_with=0.3, p_override=0.2, budget=20, max_depth=5, p_sync=0.12,
             p_raise=0.08, p_try=0.2, p_result=0.25)
PROFILES = [
    (3, dict(_base)),
    (2, dict(_base, name="ctx-yieldonly", p_sync=0)),
    (1, dict(_base, name="ctx-dag", p_old=0.4, p_let=0.25)),
]


def _nontrivial(c):
    s = machgen.stats(c)
    return s["withs"] >= 1 and s["tasks"] >= 2 and s["items"] >= 1


mach.install(globals(), "C06", ("EvResume", "EvPause", "EvStep", "EvBefore"), ("C06:",), PROFILES, n_quick=300,
             n_thorough=25000, nontrivial=_nontrivial, level="proof")
