"""C06 — an AsyncContext is active exactly while its task, or work it awaits, runs."""
from ..lib import mach, machgen

RULE = ("generated programs with with-blocks (AsyncContext, NonAsyncContext, scoped overrides) at any nesting, spanning 0-4 "
        "yields, in several concurrently pending tasks, synchronous re-entry, exceptions thrown into / out of the block, "
        "early result(); distinct = different AST+params; non-trivial = a with-block and >= 2 tasks and >= 1 batch item")
TRUSTED = ["Python/Gallina emitters of harness/lib/machprog.py"]
ASSUMPTIONS = ["contexts whose SCHEDULER-DRIVEN pause()/resume() raise are outside this property's quantifier (they belong to C08); "
               "a pause() that raises when __exit__ makes it is inside: it is the context's last call however the block was left",
               "interpretation of the flush clause under synchronous re-entry: DESIGN.md 5.21"]
EXPLANATION = "projection: the global Resume/Pause sequence interleaved with Step and Before markers"

_base = dict(name="ctx", p_ctx_fault=0, p_nonasync=0.12, p_with=0.3, p_override=0.2, budget=20, max_depth=5, p_sync=0.12,
             p_raise=0.08, p_try=0.2, p_result=0.25)
PROFILES = [
    (3, dict(_base)),
    (2, dict(_base, name="ctx-yieldonly", p_sync=0)),
    (1, dict(_base, name="ctx-dag", p_old=0.4, p_let=0.25)),
]


def _nontrivial(c):
    s = machgen.stats(c)
    return s["withs"] >= 1 and s["tasks"] >= 2 and s["items"] >= 1


# contexts entered and left by explicit __enter__/__exit__ calls whose lifetimes overlap without nesting (a helper
# that holds one open while another block is entered and left), then a suspension for a flush
_OVERLAP = {
    "roots": [[{"op": "yield", "x": "x0", "s": {"tuple": [
        {"new": {"task": [
            {"op": "enter", "v": "m1", "c": {"async": [1, None]}},
            {"op": "enter", "v": "m2", "c": {"async": [2, None]}},
            {"op": "yield", "x": "a1", "s": {"new": {"item": [0, 1, {"set": 1}]}}},
            {"op": "exit", "v": "m1", "c": {"async": [1, None]}},
            {"op": "yield", "x": "a2", "s": {"new": {"item": [1, 2, {"set": 2}]}}},
            {"op": "exit", "v": "m2", "c": {"async": [2, None]}},
            {"op": "yield", "x": "a3", "s": {"new": {"item": [0, 3, {"set": 3}]}}},
            {"op": "return", "e": {"var": "a3"}}]}},
        {"new": {"task": [{"op": "yield", "x": "b1", "s": {"new": {"item": [1, 4, {"set": 4}]}}}, {"op": "return", "e": {"var": "b1"}}]}}]}},
        {"op": "return", "e": {"var": "x0"}}]],
    "params": {"kinds": {}},
}
# a synchronous call made by a task whose callee is killed by a context's resume() when the nested loop resumes it after its
# flush; the caller catches the error, looks at the active task, then enters a context of its own and is suspended inside it
_CALLEE_RESUME_FAILS = {
    "roots": [[
        {"op": "let", "h": "h1", "f": {"task": [
            {"op": "with", "c": {"async": [1, {"resume": [1, 33]}]}, "body": [
                {"op": "yield", "x": "a1", "s": {"new": {"item": [0, 1, {"set": 1}]}}}]}, {"op": "return", "e": 0}]}},
        {"op": "try", "body": [{"op": "sync", "x": "x1", "h": "h1"}], "x": "e1", "handler": [{"op": "probe"}]},
        {"op": "probe"},
        {"op": "with", "c": {"async": [2, None]}, "body": [
            {"op": "yield", "x": "x2", "s": {"tuple": [
                {"new": {"item": [0, 2, {"set": 2}]}},
                {"new": {"task": [{"op": "yield", "x": "b1", "s": {"new": {"item": [1, 3, {"set": 3}]}}}, {"op": "return", "e": {"var": "b1"}}]}}]}},
            {"op": "probe"}]},
        {"op": "return", "e": 1}],
        [{"op": "probe"}, {"op": "return", "e": 2}]],
    "params": {"kinds": {}},
}
# a context whose pause() raises when __exit__ makes it (a teardown step that fails); the block spanned a suspension; a handler
# around the block lets the task carry on; it is then suspended for two more flushes while another task with a context of
# its own runs: the pause on exit is the context's last call
_EXIT_PAUSE_FAILS = {
    "roots": [[{"op": "yield", "x": "x0", "s": {"tuple": [
        {"new": {"task": [
            {"op": "try", "body": [
                {"op": "with", "c": {"async": [1, {"exit": 7}]}, "body": [
                    {"op": "yield", "x": "a1", "s": {"new": {"item": [0, 1, {"set": 1}]}}}]}],
             "x": "e1", "handler": [{"op": "probe"}]},
            {"op": "yield", "x": "a2", "s": {"new": {"item": [0, 2, {"set": 2}]}}},
            {"op": "yield", "x": "a3", "s": {"new": {"item": [1, 3, {"set": 3}]}}},
            {"op": "return", "e": {"tuple": [{"var": "a2"}, {"var": "a3"}]}}]}},
        {"new": {"task": [
            {"op": "with", "c": {"async": [2, None]}, "body": [
                {"op": "yield", "x": "b1", "s": {"new": {"item": [1, 4, {"set": 4}]}}},
                {"op": "yield", "x": "b2", "s": {"new": {"item": [0, 5, {"set": 5}]}}}]},
            {"op": "return", "e": {"var": "b2"}}]}}]}},
        {"op": "return", "e": {"var": "x0"}}]],
    "params": {"kinds": {}},
}
# the same fault with nothing around the block (the error kills the task, its awaiter handles it and is suspended again), and
# with an enclosing block of the same task that stays open across the failing exit and the later suspension
_EXIT_PAUSE_FAILS_NESTED = {
    "roots": [[
        {"op": "with", "c": {"async": [1, None]}, "body": [
            {"op": "try", "body": [
                {"op": "with", "c": {"async": [2, {"exit": 8}]}, "body": [{"op": "probe"}]}],
             "x": "e1", "handler": []},
            {"op": "yield", "x": "x1", "s": {"tuple": [
                {"new": {"item": [0, 1, {"set": 1}]}},
                {"new": {"task": [
                    {"op": "with", "c": {"async": [3, {"exit": 9}]}, "body": [
                        {"op": "yield", "x": "b1", "s": {"new": {"item": [1, 2, {"set": 2}]}}}]},
                    {"op": "return", "e": {"var": "b1"}}]}}]}},
            {"op": "probe"}]},
        {"op": "return", "e": 1}]],
    "params": {"kinds": {}},
}
_EXTRA = [(1, dict(name="overlap", p_ctx_fault=0, p_nonasync=0.0, p_manual_ctx=0.35, p_with=0.15, p_item=0.6, budget=18, max_depth=4))]
# contexts whose pause() raises when __exit__ makes it, mostly with a handler around the block, in programs that go on
# yielding batch items afterwards (drawn after the "overlap" cases: no earlier case shifts)
_EXIT_FAULT = [(2, dict(_base, name="exit-fault", p_exit_fault=0.5, p_with=0.35, p_override=0.1, p_nonasync=0.0, p_raise=0.04,
                        p_item=0.6, budget=16, max_depth=4)),
               (1, dict(_base, name="exit-fault-yieldonly", p_exit_fault=0.5, p_with=0.35, p_override=0.1, p_nonasync=0.0,
                        p_raise=0.04, p_item=0.6, p_sync=0, budget=16, max_depth=4))]

mach.install(globals(), "C06", ("EvResume", "EvPause", "EvStep", "EvBefore"), ("C06:",), PROFILES, n_quick=300,
             n_thorough=25000, nontrivial=_nontrivial, level="proof", corpus=[_OVERLAP, _CALLEE_RESUME_FAILS, _EXIT_PAUSE_FAILS, _EXIT_PAUSE_FAILS_NESTED],
             extra_gen=mach.extra_all(mach.extra_profiles(_EXTRA, 45, 3000), mach.extra_profiles(_EXIT_FAULT, 40, 2500)))
