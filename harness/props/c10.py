"""C10 — a future is completed at most once and reports one consistent outcome."""
from ..lib import coqrun

PROP = "C10"
COQ_IMPORTS = ["Futures"]
COQ_FN = "Futures.run_case"
IMPL = "c10_impl.py"
RULE = ("op sequences (value, error, call, is_computed, set_value, set_error, reset_unsafe, subscribe ok/raising) of length "
        "0..40 on FutureBase / Future(provider script) / AsyncTask / ConstFuture / ErrorFuture; 75% mostly-valid stream, 25% "
        "malformed stream (double sets, sets after reset, raising callbacks); distinct = different (kind, script, op list); "
        "non-trivial = at least one completion and at least one op after it")
TRUSTED = ["qcore.events.EventHook.safe_trigger and qcore.errors.reraise are exercised, not modelled separately"]
ASSUMPTIONS = ["callbacks raise only Exception subclasses (BaseException from a callback is outside the statement)",
               "batches and batch items are driven by C11's check; AsyncTask here has a batch-free body"]

KINDS = ["KLazy", "KLazy", "KLazy", "KTask", "KTask", "KPlain", "KConst", "KError"]


def _val(rng):
    return "VNone" if rng.random() < 0.15 else {"VInt": [rng.randrange(-3, 50)]}


def gen_case(rng, malformed):
    kind = rng.choice(KINDS)
    prov = []
    for _ in range(rng.choice([0, 1, 1, 1, 2, 3])):
        r = rng.random()
        if r < 0.55:
            prov.append({"PRet": [_val(rng)]})
        elif r < 0.92:
            prov.append({"PRaise": [rng.randrange(1, 60)]})
        else:
            prov.append({"PBase": [rng.randrange(60, 90)]})
    o0 = {"Ok": [_val(rng)]} if kind != "KError" else {"Err": [rng.randrange(100, 130)]}
    n = rng.choice([0, 1, 2, 3, 5, 8, 12, 20, 40]) if not malformed else rng.randrange(3, 25)
    ops = []
    nsub = 0
    for _ in range(n):
        r = rng.random()
        if malformed:
            if r < 0.3:
                ops.append({"OSetValue": [_val(rng)]})
            elif r < 0.5:
                ops.append({"OSetError": [rng.randrange(200, 260)]})
            elif r < 0.65:
                ops.append("OReset")
            elif r < 0.8:
                nsub += 1
                ops.append({"OSubscribe": [nsub, "CbRaise"]})
            else:
                ops.append(rng.choice(["OValue", "OError", "OCall", "OIsComputed"]))
        else:
            if r < 0.22:
                ops.append("OValue")
            elif r < 0.40:
                ops.append("OError")
            elif r < 0.50:
                ops.append("OCall")
            elif r < 0.62:
                ops.append("OIsComputed")
            elif r < 0.72:
                ops.append({"OSetValue": [_val(rng)]})
            elif r < 0.80:
                ops.append({"OSetError": [rng.randrange(200, 260)]})
            elif r < 0.84:
                ops.append("OReset")
            else:
                nsub += 1
                ops.append({"OSubscribe": [nsub, "CbOk" if rng.random() < 0.6 else "CbRaise"]})
    return {"args": [kind, prov, o0, ops], "meta": {"malformed": malformed}}


def gen_cases(rng, tier):
    n = 400 if tier == "quick" else 6000
    cs = [gen_case(rng, rng.random() < 0.25) for _ in range(n)]
    for c in cs:
        c["tree"] = c["args"]
    return cs


# always run: minimised past failures and the obvious corner cases
def _mk(kind, prov, o0, ops):
    return {"args": [kind, prov, o0, ops], "tree": [kind, prov, o0, ops], "meta": {"corpus": True}}


CORPUS = [
    _mk("KLazy", [{"PRaise": [7]}], {"Ok": ["VNone"]}, ["OError", "OError", "OValue"]),
    _mk("KLazy", [{"PRaise": [7]}], {"Ok": ["VNone"]}, [{"OSubscribe": [1, "CbRaise"]}, {"OSubscribe": [2, "CbOk"]}, "OValue", "OError"]),
    _mk("KLazy", [{"PBase": [61]}, {"PRet": [{"VInt": [4]}]}], {"Ok": ["VNone"]}, ["OValue", "OIsComputed", "OValue", "OValue"]),
    _mk("KTask", [{"PRaise": [9]}], {"Ok": ["VNone"]}, [{"OSubscribe": [1, "CbOk"]}, "OError", "OValue", "OReset", "OValue"]),
    _mk("KTask", [{"PRet": [{"VInt": [3]}]}], {"Ok": ["VNone"]}, [{"OSetValue": [{"VInt": [5]}]}, "OValue", {"OSetError": [201]}, "OReset", "OValue"]),
    _mk("KConst", [], {"Ok": [{"VInt": [3]}]}, [{"OSubscribe": [1, "CbOk"]}, {"OSetValue": ["VNone"]}, "OValue", "OReset", "OValue", {"OSetValue": ["VNone"]}, "OValue"]),
    _mk("KError", [], {"Err": [101]}, ["OError", "OValue", "OCall", {"OSetError": [202]}, "OIsComputed"]),
    _mk("KPlain", [], {"Ok": ["VNone"]}, ["OValue", "OError", {"OSetError": [203]}, "OError", "OValue", {"OSetValue": ["VNone"]}]),
]


def model_input(c):
    return " ".join(coqrun.coq_of(a) for a in c["args"])


def canon(c):
    import json
    return json.dumps(c["args"], sort_keys=True)


def nontrivial(c):
    ops = c["args"][3]
    kind = c["args"][0]
    completing = [i for i, o in enumerate(ops) if (o in ("OValue", "OError", "OCall") and kind in ("KLazy", "KTask"))
                  or (isinstance(o, dict) and next(iter(o)) in ("OSetValue", "OSetError"))]
    if kind in ("KConst", "KError"):
        return len(ops) >= 2
    return bool(completing) and completing[0] < len(ops) - 1


def compare(c, m, io):
    if m != io["out"]:
        return "results/callback log/run count differ between Futures.run_case and the implementation"
    return None


def distribution(cases):
    d = {"kinds": {}, "oplen": {}, "malformed": 0}
    for c in cases:
        d["kinds"][c["args"][0]] = d["kinds"].get(c["args"][0], 0) + 1
        L = len(c["args"][3])
        b = "0" if L == 0 else "1-3" if L <= 3 else "4-12" if L <= 12 else "13-40"
        d["oplen"][b] = d["oplen"].get(b, 0) + 1
        d["malformed"] += 1 if c.get("meta", {}).get("malformed") else 0
    return d


def _opname(o):
    return o if isinstance(o, str) else next(iter(o))


def monitors(c, io, build):
    """Direct encoding of the C10 statement over what the implementation did."""
    kind, prov, o0, ops = c["args"]
    res, log, runs = io["out"][""]
    fs = []
    nlog_prev = 0
    subs = []
    for i, (o, r, ob) in enumerate(zip(ops, res, io["obs"])):
        name = _opname(o)
        pre, post = ob["pre"], ob["post"]
        # (a) single assignment
        if name in ("OSetValue", "OSetError") and pre is not None:
            if r != {"RRaise": [-3]}:
                fs.append(dict(clause="single-assignment", site="%s:%s:no-FutureIsAlreadyComputed" % (kind, name),
                               msg="second %s on a computed %s did not raise FutureIsAlreadyComputed (op %d)" % (name, kind, i)))
            if post != pre:
                fs.append(dict(clause="single-assignment", site="%s:%s:outcome-changed" % (kind, name),
                               msg="%s on a computed %s changed its outcome from %s to %s (op %d)" % (name, kind, pre, post, i)))
        # (b) one consistent outcome: every read on a future that is computed after the read reports that outcome
        if name in ("OValue", "OCall", "OError", "OIsComputed"):
            if pre is not None and post != pre:
                fs.append(dict(clause="stable-outcome", site="%s:%s:outcome-changed-by-read" % (kind, name),
                               msg="%s changed the outcome of a computed %s (op %d)" % (name, kind, i)))
            if post is not None:
                if name in ("OValue", "OCall"):
                    want = {"RVal": post["Ok"]} if "Ok" in post else {"RRaise": post["Err"]}
                elif name == "OError":
                    want = "RNoError" if "Ok" in post else {"RErr": post["Err"]}
                else:
                    want = {"RBool": ["true"]}
                if r != want:
                    fs.append(dict(clause="stable-outcome",
                                   site="%s:%s:%s-instead-of-%s" % (kind, name, _opname(r), _opname(want)),
                                   msg="%s on %s reported %s although the future's outcome is %s (op %d, computed before=%s)" % (
                                       name, kind, r, post, i, pre is not None)))
            # (c) the computation runs at most once per completion
            if pre is not None and ob["runs"] != 0:
                fs.append(dict(clause="compute-once", site="%s:%s:reran-when-computed" % (kind, name),
                               msg="%s ran the underlying computation of an already computed %s again (op %d)" % (name, kind, i)))
            if ob["runs"] > 1:
                fs.append(dict(clause="compute-once", site="%s:%s:ran-twice" % (kind, name),
                               msg="%s ran the underlying computation %d times (op %d)" % (name, ob["runs"], i)))
        # (d) every subscriber notified exactly once per completion, after the outcome is visible
        new = log[nlog_prev:ob["nlog"]]
        nlog_prev = ob["nlog"]
        completed = pre is None and post is not None
        if completed and kind not in ("KConst", "KError"):
            want = [{"": [sid, post]} for sid in subs]
            if new != want:
                fs.append(dict(clause="notify-once-after", site="%s:%s:callbacks" % (kind, name),
                               msg="completion by %s notified %s, expected exactly %s (op %d)" % (name, new, want, i)))
        elif new:
            fs.append(dict(clause="notify-once-after", site="%s:%s:spurious-callback" % (kind, name),
                           msg="callbacks %s fired although op %d (%s) did not complete the future" % (new, i, name)))
        if name == "OSubscribe" and kind not in ("KConst", "KError"):
            subs.append(o["OSubscribe"][0])
    # (e) ConstFuture / ErrorFuture complete from construction
    if kind in ("KConst", "KError") and io["obs"] and "OReset" not in [_opname(o) for o in ops]:
        if io["obs"][0]["pre"] != o0:
            fs.append(dict(clause="const-error-complete", site="%s:construction" % kind,
                           msg="%s is not complete with %s right after construction" % (kind, o0)))
    return fs


def shrink(c):
    kind, prov, o0, ops = c["args"]
    for i in range(len(ops)):
        a = [kind, prov, o0, ops[:i] + ops[i + 1:]]
        yield {"args": a, "tree": a, "meta": {"shrunk": True}}
    if len(prov) > 1:
        a = [kind, prov[:-1], o0, ops]
        yield {"args": a, "tree": a, "meta": {"shrunk": True}}
